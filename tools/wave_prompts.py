#!/usr/bin/env python3
"""tools/wave_prompts.py <wave-dir> <letter> [<letter>...]: write one prompt file per (property, letter) for a wave of
independent sub-agents.  A prompt holds ONLY the text of the property, the path of the agent's own scratch worktree, the
titles of the earlier seeded changes for that property (so that another mechanism is chosen) and the deliverables -
nothing about the checks in /verif."""
import json, os, sys

wave, letters = sys.argv[1], sys.argv[2:]
props = [json.loads(l) for l in open('/verif/properties.jsonl')]
titles = {}
for d in sorted(os.listdir('/verif/seeded')):
    m = os.path.join('/verif/seeded', d, 'meta.json')
    if os.path.exists(m):
        titles.setdefault(d.split('-')[0], []).append(json.load(open(m)).get('title', d))

FLAVOUR = {
 0: ("Prefer a change whose effect depends on HISTORY or on STATE SHARED between objects or calls: a cache / memo / interning table with an "
     "incomplete key, a buffer or container aliased between an argument and a result, a counter or flag not reset on an error path, "
     "behaviour that differs between the first and a later call, or two cooperating sites that each look fine alone."),
 1: ("Prefer a change that only a PARTICULAR INPUT exposes: a boundary of a width / count / length / depth, an uncommon but valid encoding "
     "or API form (an argument type, an optional parameter, an alternative constructor, an entry point that few callers use), a rare "
     "combination of two options or two fields, or an error path that returns instead of raising."),
}

if os.environ.get('FLAVOUR_SET') == '2':
    FLAVOUR = {
     0: ("Prefer a change made of TWO COOPERATING SITES that each look fine alone, or a refactoring slip in less-travelled code: a helper shared by two "
         "callers changed to suit one of them, a default parameter value changed, the order of two isinstance / elif branches swapped, a constant "
         "'derived' instead of written out, a loop bound or slice taken from a neighbouring variable, an early return added for a 'trivial' case that is "
         "not trivial for one argument form."),
     1: ("Prefer a change whose effect shows only AFTER SOMETHING WENT WRONG or when an object is USED AGAIN: state left behind by a call that raised, "
         "an object (builder, slice, map, channel, schema registry, parser) reused after an error or after it has produced a result once, a result "
         "object that still shares a container with its source, behaviour that depends on how many objects were created before or on the order of "
         "creation, an iterator / generator argument consumed twice."),
    }

for p in props:
    pid = p['id']
    for i, x in enumerate(letters):
        wt = f'{wave}/wt/{pid}-{x}'
        out = f'{wave}/out/{pid}/{x}'
        os.makedirs(out, exist_ok=True)
        anchors = p.get('anchors', {})
        txt = f"""You are helping to evaluate a verification harness for the Python library yungwine/pytoniq-core (TON blockchain primitives).
You get the text of ONE semantic property of the library and your own scratch git worktree of the library. Nothing else about the
harness is given to you on purpose: what you write must be independent of what the harness can already detect.

YOUR WORKTREE (work only here): {wt}
Do NOT read, list or modify /verif or /repo, and do not look at other directories under {wave}. Python: /venv/bin/python (the library's dependencies are installed there).
The library's own tests: cd {wt} && /venv/bin/python -m pytest -q -p no:cacheprovider   (51 tests, all pass on the unchanged tree).

THE PROPERTY ({pid}): {p['title']}
Statement: {p['statement']}
Quantified over: {p['quantifier']['text']}
Where it lives: files {', '.join(anchors.get('files', []))}
Mechanisms: {json.dumps(anchors.get('mechanism', []), ensure_ascii=False)}
State: {json.dumps(anchors.get('state', []), ensure_ascii=False)}

YOUR TASK
1. Read the code behind the property. Then make ONE realistic change to the library (the kind of slip or 'optimisation' a
   maintainer could really commit: a refactoring, a cache, a fast path, a reordered statement, a changed guard, a shared default,
   a clean-up of 'redundant' code, ...) such that
     - the library still imports, and ALL 51 existing tests still pass (run them), and
     - the property above is BROKEN for some inputs / histories, and
     - ordinary everyday use does NOT expose it at once: it needs something specific to manifest.
   {FLAVOUR[i % 2]}
   Keep the change small (typically 1-15 lines in one or two places). Do not touch the tests. Do not add obviously malicious code.
2. These changes were already made by others for this property - choose a DIFFERENT mechanism and a different place if you can:
{chr(10).join('     - ' + t for t in titles.get(pid, [])) or '     (none)'}
3. Write a demonstration {out}/demo.py: a small stand-alone program that takes the path of a source tree as sys.argv[1],
   puts it FIRST on sys.path (sys.path.insert(0, sys.argv[1])), imports pytoniq_core from there, and exits 0 when the property
   holds on what it exercises and exits 1 (printing what went wrong) when it does not. It must exit 0 on the unchanged tree and 1 with
   your change. It should judge by the property (spec behaviour), not by comparing with a hard-coded output of the old code where avoidable.
4. Save your change as {out}/patch.diff  (cd {wt} && git diff > {out}/patch.diff ; it must apply with `git apply` to the unchanged tree).
5. Verify yourself, and say in your notes what you ran:  tests pass with the change; demo exits 1 with the change;
   then `git checkout -- .` (never git stash: shared between worktrees), demo exits 0 on the unchanged tree. Leave the worktree in the UNCHANGED state at the end.
6. Write {out}/notes.md. First line exactly of the form:  # {pid} / {x} - <one-line title of the change>
   Then short sections: '## What was changed and where', '## Why it breaks the property', '## What it needs in order to manifest'
   (be specific: which input / sequence of calls / combination), '## Commands run'.
7. While reading the code: if you notice that the UNCHANGED tree itself already violates the property for some input or sequence of calls,
   add a section '## Defects of the unchanged tree' to notes.md with a minimal reproducer (Python snippet + observed vs expected). Only real,
   reproduced violations of THIS property's statement; do not speculate.

Your final answer: three lines - the title, what is needed to manifest, and whether you found defects of the unchanged tree.
"""
        open(f'{wave}/prompts/{pid}-{x}.txt', 'w').write(txt)
print('written', len(props) * len(letters))
