#!/usr/bin/env python3
"""python3-vt tools/validate.py : MANIFEST.json and every evidence file against the schemas in /root/.vp"""
import json, jsonschema, glob, sys
m = json.load(open('/verif/MANIFEST.json'))
jsonschema.validate(m, json.load(open('/root/.vp/MANIFEST.schema.json')))
s = json.load(open('/root/.vp/EVIDENCE.schema.json'))
bad = 0
for c in m['checks']:
    try:
        jsonschema.validate(json.load(open(c['evidence_file'])), s)
    except Exception as e:
        bad += 1
        print('BAD', c['evidence_file'], str(e)[:200])
ids = {c['property_id'] for c in m['checks']} | {n['property_id'] for n in m.get('not_applicable', [])}
assert ids == {f'C{i:02d}' for i in range(1, 21)}, ids
print('manifest ok;', len(m['checks']), 'checks;', bad, 'bad evidence files')
sys.exit(1 if bad else 0)
