#!/usr/bin/env python3
"""tools/rebase_seed.py <seed-id>...: a seeded change whose patch.diff no longer applies to /repo's HEAD (a later fix: commit touched the same
lines) is applied with reduced context (GNU patch, fuzz 3) in a scratch worktree; if that succeeds, the repository's tests still pass and the demo
still flips (0 on the clean tree, non-zero with the change), the regenerated diff replaces patch.diff and notes.md says so.  Anything else is
left alone and reported (it needs a re-base by hand)."""
import os, subprocess, sys, tempfile, shutil

PY = '/venv/bin/python'


def sh(cmd, cwd=None, env=None, timeout=900):
    r = subprocess.run(cmd, cwd=cwd, env=env, capture_output=True, text=True, timeout=timeout)
    return r.returncode, r.stdout + r.stderr


for sid in sys.argv[1:]:
    seed = f'/verif/seeded/{sid}'
    patch, demo = f'{seed}/patch.diff', f'{seed}/demo.py'
    d = tempfile.mkdtemp(prefix='rebase_', dir='/tmp')
    os.rmdir(d)
    rc, out = sh(['git', '-C', '/repo', 'worktree', 'add', '--detach', d])
    assert rc == 0, out
    try:
        env = dict(os.environ, PYTHONPATH=d)
        rc, out = sh(['git', '-C', d, 'apply', '--whitespace=nowarn', patch])
        if rc == 0:
            print(sid, 'applies as it is')
            continue
        rc0, _ = sh([PY, demo, d], cwd=d, env=env)
        rc, out = sh(['patch', '-p1', '-F3', '--no-backup-if-mismatch', '-i', patch], cwd=d)
        if rc != 0:
            sh(['git', '-C', d, 'checkout', '--', '.'])
            sh(['git', '-C', d, 'clean', '-fdq'])
            print(sid, 'NEEDS-HAND-REBASE:', out.strip().splitlines()[-1][:150])
            continue
        for root, _, files in os.walk(d):
            for f in files:
                if f.endswith('.orig') or f.endswith('.rej'):
                    os.remove(os.path.join(root, f))
        rc1, out1 = sh([PY, '-m', 'pytest', '-q', '-p', 'no:cacheprovider', '--timeout=900'], cwd=d)
        rc2, _ = sh([PY, demo, d], cwd=d, env=env)
        if rc0 != 0 or rc1 != 0 or rc2 == 0:
            print(sid, f'FUZZY-APPLY-NOT-VALID: demo clean {rc0}, tests {rc1}, demo patched {rc2}')
            continue
        rc, diff = sh(['git', '-C', d, 'diff'])
        open(patch, 'w').write(diff)
        with open(f'{seed}/notes.md', 'a') as f:
            head = sh(['git', '-C', '/repo', 'rev-parse', '--short', 'HEAD'])[1].strip()
            f.write(f'\n\n## Re-based\n\nThe patch no longer applied after later `fix:` commits touched neighbouring lines; it was re-applied with reduced context '
                    f'(GNU patch, fuzz 3) onto {head}, the repository\'s tests pass with it and the demonstration still flips; the change is the author\'s.\n')
        print(sid, 'rebased')
    finally:
        sh(['git', '-C', '/repo', 'worktree', 'remove', '--force', d])
