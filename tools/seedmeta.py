#!/usr/bin/env python3
"""tools/seedmeta.py [--table]: normalise /verif/seeded/<id>/meta.json (property, what the change needs in order to
manifest - taken from the author's notes.md -, what was run, which checks detect it) and print / write the overview
table seeded/README.md."""
import json, os, re, sys

ROOT = '/verif/seeded'


def needs(notes):
    lines = notes.splitlines()
    out = []
    grab = False
    for ln in lines:
        low = ln.lower()
        if re.search(r'need(s|ed)? (in order )?to manifest|manifests? only|only (shows|manifests|shows up)|to trigger|trigger:|needed to', low):
            grab = True
        elif grab and (not ln.strip() or re.match(r'^(commands|verified|results|files|tests)\b', low.strip('-* #'))):
            grab = False
        if grab:
            out.append(ln.strip())
    txt = ' '.join(out).strip()
    return txt[:900] if txt else ' '.join(l.strip() for l in lines[1:6])[:900]


def main():
    rows = []
    for d in sorted(os.listdir(ROOT)):
        p = os.path.join(ROOT, d)
        if not os.path.isdir(p) or not os.path.exists(os.path.join(p, 'meta.json')):
            continue
        meta = json.load(open(os.path.join(p, 'meta.json')))
        notes = open(os.path.join(p, 'notes.md')).read() if os.path.exists(os.path.join(p, 'notes.md')) else ''
        title = notes.strip().splitlines()[0].lstrip('# ').strip() if notes.strip() else d
        prop = d.split('-')[0]
        meta['id'] = d
        meta['breaks_property'] = prop
        meta['title'] = title
        meta.setdefault('origin', 'written by an independent sub-agent that was given only the text of the property and a scratch worktree (nothing from /verif)')
        meta['needs_to_manifest'] = meta.get('needs_to_manifest_override') or needs(notes)
        meta['what_was_run'] = [
            'git worktree add --detach <scratch> (outside /repo and /verif); git apply patch.diff',
            'cd <scratch> && /venv/bin/python -m pytest -q -p no:cacheprovider   (the repository\'s own tests must still pass)',
            'PYTHONPATH=<scratch> /venv/bin/python demo.py <scratch>   on the clean and on the patched tree (must pass / fail)',
            'PYTONIQ_REPO=<scratch> /venv/bin/python -m mc.run <Cxx> --tier <tier> --no-evidence   for the listed checks',
            'git worktree remove --force <scratch>',
        ]
        det = set()
        for r in meta.get('runs', []):
            det |= set(r.get('detected_by') or [])
        meta['detected_by'] = sorted(det)
        meta.setdefault('status', 'detected' if det else 'NOT detected')
        if det and meta.get('status', '').startswith('NOT'):
            meta['status'] = 'detected'
        json.dump(meta, open(os.path.join(p, 'meta.json'), 'w'), indent=1)
        first = ''
        for r in meta.get('runs', []):
            for k, v in (r.get('checks') or {}).items():
                if v.get('violation_lines') and not first and k in det:
                    first = f"{k}: {v.get('first', '')[:140]}"
        c = meta.get('confirmed', {})
        ok = c.get('applies') and c.get('repo_tests_pass') and c.get('demo_clean_exit') == 0 and c.get('demo_patched_exit')
        rows.append((d, title, ('yes' if ok else 'NO') + (' (on the tree it was written against; see meta.json head_note)' if meta.get('head_note') else ''),
                     ', '.join(sorted(det)) or meta.get('status', '-'), first))
    out = ['# Seeded property-breaking changes', '',
           'Each directory holds `patch.diff` (applies to /repo with `git apply`; a few older ones apply only to the tree they were written against, because later fix: commits '
           'occupy the same lines - their `meta.json` says so in `head_note`), `demo.py` (passes on the unchanged tree, fails with the change), the author\'s `notes.md` '
           'and `meta.json` (what it breaks, what it needs to manifest, what was run, which checks report it). None of them is ever committed to /repo.', '',
           '| id | change | tests pass + demo flips | reported by (quick tier unless noted) | first report |', '|---|---|---|---|---|']
    for r in rows:
        out.append('| ' + ' | '.join(x.replace('|', '/') for x in r) + ' |')
    open(os.path.join(ROOT, 'README.md'), 'w').write('\n'.join(out) + '\n')
    print('\n'.join(out[-len(rows):]))


if __name__ == '__main__':
    main()
