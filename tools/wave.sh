#!/bin/bash
# tools/wave.sh <outdir> <PROP> <letters...>: confirm seeded changes <outdir>/<PROP>/<letter> and run the property's quick check against each
out=$1; p=$2; shift 2
for x in "$@"; do
  if [ -f $out/$p/$x/patch.diff ]; then
    python3 /verif/tools/seedcheck.py $out/$p/$x $p --keep $p-$x > /tmp/wave_$p-$x.json 2>&1
    python3 - <<PY
import json
t=open('/tmp/wave_$p-$x.json').read()
try:
    r=json.loads(t[t.index('{'):])
    print('$p-$x', 'applies',r.get('applies'),'tests',r.get('repo_tests_pass'),'demo',r.get('demo_clean_exit'),r.get('demo_patched_exit'),'detected_by',r.get('detected_by'), {k:(v['exit'],v['wall_s'],v['first'][:160],v['harness']) for k,v in r.get('checks',{}).items()})
except Exception as e:
    print('$p-$x PARSE-FAIL', t[-500:])
PY
  else echo "$p-$x: no patch"; fi
done
