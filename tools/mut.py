#!/usr/bin/env python3
"""tools/mut.py <file-relative-to-repo> <old> <new> <PROP> [<PROP>...]: apply a one-line textual mutation to a
scratch worktree of /repo (outside /repo and /verif), run the repo's tests and the given quick checks against it,
remove the worktree.  Development aid for demonstrating detection."""
import subprocess, sys, os, shutil, tempfile
f, old, new, props = sys.argv[1], sys.argv[2], sys.argv[3], sys.argv[4:]
d = tempfile.mkdtemp(prefix='mut_', dir='/tmp')
os.rmdir(d)
subprocess.run(['git', '-C', '/repo', 'worktree', 'add', '--detach', d], check=True, capture_output=True)
try:
    p = os.path.join(d, f)
    s = open(p).read()
    assert s.count(old) >= 1, 'pattern not found'
    open(p, 'w').write(s.replace(old, new, 1))
    r = subprocess.run(['/venv/bin/python', '-m', 'pytest', '-q', '-p', 'no:cacheprovider', '-x'], cwd=d, capture_output=True, text=True)
    print('repo tests:', r.stdout.strip().splitlines()[-1])
    for pr in props:
        env = dict(os.environ, PYTONIQ_REPO=d)
        r = subprocess.run(['/venv/bin/python', '-m', 'mc.run', pr, '--no-evidence'], cwd='/verif', env=env, capture_output=True, text=True)
        lines = r.stdout.strip().splitlines()
        v = [l for l in lines if l.startswith('VIOLATION')]
        print(f'{pr}: exit {r.returncode}, {len(v)} violation lines')
        for l in lines:
            if l.startswith('  ') or l.startswith('HARNESS'):
                print('   ', l[:260])
                break
finally:
    subprocess.run(['git', '-C', '/repo', 'worktree', 'remove', '--force', d], capture_output=True)
    shutil.rmtree(d, ignore_errors=True)
