#!/usr/bin/env python3
"""tools/seedcheck.py <seed-dir> <PROP> [<PROP>...] [--tier quick|thorough] [--keep <id>]

<seed-dir> holds patch.diff + demo.py (+ notes.md) of a seeded property-breaking change.
Confirms, in a scratch worktree of /repo's HEAD (outside /repo and /verif, removed afterwards):
  1. the patch applies,   2. the repository's own tests still pass with it,
  3. the demo exits 0 on the clean tree and non-zero with the patch,
then runs the given checks against the patched scratch tree (PYTONIQ_REPO) and reports which raise VIOLATION.
With --keep <id> the seed is copied to /verif/seeded/<id>/ with a meta.json describing what was run.
"""
import json, os, shutil, subprocess, sys, tempfile, time

PY = '/venv/bin/python'


def sh(cmd, cwd=None, env=None, timeout=3600):
    r = subprocess.run(cmd, cwd=cwd, env=env, capture_output=True, text=True, timeout=timeout)
    return r.returncode, r.stdout + r.stderr


def main():
    args = sys.argv[1:]
    tier = 'quick'
    keep = None
    if '--tier' in args:
        i = args.index('--tier'); tier = args[i + 1]; del args[i:i + 2]
    if '--keep' in args:
        i = args.index('--keep'); keep = args[i + 1]; del args[i:i + 2]
    seed, props = os.path.abspath(args[0]), args[1:]
    patch = os.path.join(seed, 'patch.diff')
    demo = os.path.join(seed, 'demo.py')
    d = tempfile.mkdtemp(prefix='seedchk_', dir='/tmp')
    os.rmdir(d)
    rc, out = sh(['git', '-C', '/repo', 'worktree', 'add', '--detach', d])
    assert rc == 0, out
    res = {'seed': seed, 'props': props, 'tier': tier, 'repo_head': sh(['git', '-C', '/repo', 'rev-parse', '--short', 'HEAD'])[1].strip()}
    try:
        env = dict(os.environ, PYTHONPATH=d)
        env.pop('PYTONIQ_REPO', None)
        if os.path.exists(demo):
            rc, out = sh([PY, demo, d], cwd=d, env=env, timeout=600)
            res['demo_clean_exit'] = rc
            if rc != 0:
                res['demo_clean_tail'] = out[-400:]
        rc, out = sh(['git', '-C', d, 'apply', '--whitespace=nowarn', patch])
        res['applies'] = rc == 0
        if rc != 0:
            rc, out = sh(['git', '-C', d, 'apply', '--3way', '--whitespace=nowarn', patch])
            res['applies_3way'] = rc == 0
            if rc != 0:
                res['apply_error'] = out[-400:]
                print(json.dumps(res, indent=1))
                return 2
        rc, out = sh([PY, '-m', 'pytest', '-q', '-p', 'no:cacheprovider', '--timeout=900'], cwd=d, timeout=1800)
        res['repo_tests'] = out.strip().splitlines()[-1] if out.strip() else ''
        res['repo_tests_pass'] = rc == 0
        if os.path.exists(demo):
            rc, out = sh([PY, demo, d], cwd=d, env=env, timeout=600)
            res['demo_patched_exit'] = rc
            res['demo_patched_tail'] = out.strip()[-300:]
        res['checks'] = {}
        for p in props:
            env2 = dict(os.environ, PYTONIQ_REPO=d)
            t0 = time.time()
            try:
                rc, out = sh([PY, '-m', 'mc.run', p, '--tier', tier, '--no-evidence'], cwd='/verif', env=env2, timeout=7200)
            except subprocess.TimeoutExpired:
                rc, out = 124, 'timeout'
            lines = out.strip().splitlines()
            v = [l for l in lines if l.startswith('VIOLATION')]
            first = ''
            for i, l in enumerate(lines):
                if l.startswith('VIOLATION') and i + 1 < len(lines):
                    first = lines[i + 1].strip()[:300]
                    break
            harness = [l[:300] for l in lines if l.startswith('HARNESS')][:2]
            res['checks'][p] = {'exit': rc, 'violation_lines': len(v), 'first': first, 'harness': harness, 'wall_s': round(time.time() - t0, 1)}
        res['detected_by'] = [p for p, r in res['checks'].items() if r['exit'] == 1 and r['violation_lines'] > 0]
    finally:
        sh(['git', '-C', '/repo', 'worktree', 'remove', '--force', d])
        shutil.rmtree(d, ignore_errors=True)
        sh(['git', '-C', '/repo', 'worktree', 'prune'])
    print(json.dumps(res, indent=1))
    if keep:
        dst = os.path.join('/verif/seeded', keep)
        os.makedirs(dst, exist_ok=True)
        for f in ('patch.diff', 'demo.py', 'notes.md'):
            if os.path.exists(os.path.join(seed, f)) and os.path.abspath(os.path.join(seed, f)) != os.path.abspath(os.path.join(dst, f)):
                shutil.copy(os.path.join(seed, f), os.path.join(dst, f))
        meta_path = os.path.join(dst, 'meta.json')
        meta = json.load(open(meta_path)) if os.path.exists(meta_path) else {}
        meta.setdefault('id', keep)
        meta['confirmed'] = {k: res.get(k) for k in ('repo_head', 'applies', 'repo_tests', 'repo_tests_pass', 'demo_clean_exit', 'demo_patched_exit')}
        meta.setdefault('runs', [])
        meta['runs'] = [r for r in meta['runs'] if not (r.get('tier') == tier and set(r.get('checks', {})) == set(props))]
        meta['runs'].append({'tier': tier, 'checks': res.get('checks'), 'detected_by': res.get('detected_by')})
        json.dump(meta, open(meta_path, 'w'), indent=1)
    return 0


if __name__ == '__main__':
    sys.exit(main())
