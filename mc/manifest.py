"""Regenerates /verif/MANIFEST.json from the property modules that exist (python3 -m mc.manifest)."""
import importlib, json, os, sys

ROOT = os.path.dirname(os.path.dirname(os.path.abspath(__file__)))
ALL = [f'C{i:02d}' for i in range(1, 21)]
PENDING_REASON = 'check not built yet in this revision of /verif (planned: see DESIGN.md section 5); nothing is claimed for it'


def main():
    checks, na = [], []
    for pid in ALL:
        path = os.path.join(ROOT, 'mc', 'props', pid.lower() + '.py')
        if not os.path.exists(path):
            na.append({'property_id': pid, 'reason': PENDING_REASON})
            continue
        mod = importlib.import_module(f'mc.props.{pid.lower()}')
        if getattr(mod, 'NOT_CLAIMED', None):
            na.append({'property_id': pid, 'reason': mod.NOT_CLAIMED})
            continue
        checks.append({
            'property_id': pid,
            'quick_cmd': f'/venv/bin/python -m mc.run {pid} --tier quick',
            'thorough_cmd': f'/venv/bin/python -m mc.run {pid} --tier thorough',
            'evidence_file': f'/verif/evidence/{pid}.json',
            'replay_cmd_template': f'/venv/bin/python -m mc.run {pid} --replay {{path}}',
            'engine': 'mc',
            'level_claimed': {
                'category': 'model_checking',
                'text': mod.LEVEL_TEXT,
                'design_ref': f'DESIGN.md section 5 / {pid}',
            },
            'level_note': mod.LEVEL_NOTE,
            'technique': mod.TECHNIQUE,
        })
    man = {
        'version': 1,
        'setup_cmd': '/venv/bin/python -m mc.selfcheck',
        'hooks': {
            'guard': 'PYTONIQ_CORE_VERIF',
            'enable': 'no source hooks are needed: the checks import /repo\'s working tree directly (mc/repo.py puts it first on sys.path with byte-code caching off) and install their seams (os.urandom, os.listdir, step counter) from the harness side; the variable is exported for completeness',
            'baseline_off_cmd': 'cd /repo && env -u PYTONIQ_CORE_VERIF /venv/bin/python -m pytest -q -p no:cacheprovider --timeout=900',
            'source_commits': [],
            'add_only': True,
        },
        'engines': [{
            'name': 'mc',
            'path': '/verif/mc',
            'serves_properties': [c['property_id'] for c in checks],
            'kind_free_text': 'hand-written bounded-exhaustive explorers for Python (E: small-scope input enumeration, D: deviation-bounded enumeration, S: explicit-state BFS over operation histories) driving the real pytoniq_core code against independent reference models in mc/ref',
        }],
        'checks': checks,
        'not_applicable': na,
        'notes': 'Every check: exit 0 = held on everything explored, exit 1 + VIOLATION lines = counterexample (replay file written), exit 2 = harness error (never a verdict). VERIF_SEED only changes opaque filler bytes and never the explored shapes. known_findings.jsonl lists recorded/fixed genuine defects.',
    }
    with open(os.path.join(ROOT, 'MANIFEST.json'), 'w') as f:
        json.dump(man, f, indent=1)
        f.write('\n')
    print('checks:', [c['property_id'] for c in checks], 'not claimed:', [n['property_id'] for n in na])


if __name__ == '__main__':
    sys.path.insert(0, ROOT)
    main()
