"""Reference model of TL (Type Language) as used by TON: schema parser, constructor ids, binary
encoder and decoder.  Written from the TL description (core.telegram.org/mtproto/TL, .../serialize)
and TON's tl/generate conventions; imports only the standard library.

Value format (deliberately the plain-data format the library under test documents for its API):
  object         dict  {'@type': <constructor name>, <field>: <value>, ...}  (absent conditional fields are absent keys)
  int, long, #   int
  int128/int256  hex text of the 16/32 raw bytes in wire order
  Bool           True / False          true (flag-only)   True
  bytes          bytes  (or a nested object dict: the object is boxed-serialised and wrapped as a TL string)
  string         str                   vector   list
"""
import re
import struct
import zlib

FIXED = {'int': 4, 'long': 8, 'int128': 16, 'int256': 32}
SUPPORTED_PRIMS = set(FIXED) | {'Bool', 'true', 'bytes', 'string'}
BOOL_TRUE = 0x997275b5
BOOL_FALSE = 0xbc799737


class TlRefError(Exception):
    pass


class Decl:
    __slots__ = ('name', 'id', 'fields', 'cls', 'text', 'section', 'file', 'explicit_id')

    def __repr__(self):
        return f'<{self.name}#{self.id:08x} {self.fields} = {self.cls}>'


def strip_comments(text: str) -> str:
    return re.sub(r'//[^\n]*', '', text)


def split_fields(body: str):
    """'a:int b:(vector x) c:flags.0?(vector int)' -> [('a','int'), ...]; tokens without ':' are returned with name None"""
    out, tok, depth = [], '', 0
    for ch in body + ' ':
        if ch in '([{':
            depth += 1
        elif ch in ')]}':
            depth -= 1
        if ch.isspace() and depth == 0:
            if tok:
                out.append(tok)
            tok = ''
        else:
            tok += ch
    res = []
    for t in out:
        m = re.match(r'^([A-Za-z_][A-Za-z0-9_]*):(.+)$', t)
        if m and not t.startswith('{'):
            res.append((m.group(1), ' '.join(m.group(2).split())))
        else:
            res.append((None, t))
    return res


def parse_type(t: str):
    t = t.strip()
    m = re.match(r'^([A-Za-z_][A-Za-z0-9_]*)\.(\d+)\?(.+)$', t)
    if m:
        return ('cond', m.group(1), int(m.group(2)), parse_type(m.group(3)))
    if t == '#':
        return ('nat',)
    if t.startswith('(') and t.endswith(')'):
        inner = t[1:-1].split()
        if len(inner) == 2 and inner[0] == 'vector':
            return ('vector', parse_type(inner[1]))
        if len(inner) == 2 and inner[0] == 'Vector':
            return ('Vector', parse_type(inner[1]))
        return ('unsupported', t)
    m = re.match(r'^vector<(.+)>$', t)
    if m:
        return ('unsupported', t)          # tonlib dialect
    if t in ('int', 'long', 'int128', 'int256', 'double', 'string', 'bytes', 'true', 'Bool'):
        return ('prim', t)
    if re.match(r'^[A-Za-z_][A-Za-z0-9_.]*$', t):
        last = t.split('.')[-1]
        return ('bare', t) if last[0].islower() else ('boxed', t)
    return ('unsupported', t)


def normalise(stmt: str) -> str:
    """the text whose CRC32 is the constructor id: single spaces, no ';', no parentheses"""
    s = ' '.join(stmt.replace(';', ' ').split())
    s = s.replace('(', '').replace(')', '')
    return ' '.join(s.split())


def parse_schema_text(text: str, file=''):
    decls = []
    section = 'types'
    text = strip_comments(text)
    for raw in text.split(';'):
        s = ' '.join(raw.split())
        while True:
            m = re.match(r'^---(\w+)---\s*(.*)$', s)
            if not m:
                break
            section = m.group(1)
            s = m.group(2)
        if not s or '=' not in s:
            continue
        lhs, rhs = s.rsplit('=', 1)
        toks = lhs.split()
        head = toks[0]
        name, _, explicit = head.partition('#')
        d = Decl()
        d.name = name
        d.text = s
        d.section = section
        d.file = file
        d.cls = ' '.join(rhs.split())
        d.explicit_id = bool(explicit)
        d.id = int(explicit, 16) if explicit else zlib.crc32(normalise(s).encode())
        d.fields = [(n, parse_type(t)) if n else (None, ('unsupported', t)) for n, t in split_fields(lhs[len(head):])]
        decls.append(d)
    return decls


class Schema:
    def __init__(self, decls):
        self.decls = []
        seen = set()
        for d in decls:            # the same declaration repeated in several files is one declaration
            k = (d.name, d.id, normalise(d.text))
            if k not in seen:
                seen.add(k)
                self.decls.append(d)
        self.by_name = {}
        self.by_class = {}
        self.by_id = {}
        for d in self.decls:
            self.by_name.setdefault(d.name, []).append(d)
            self.by_class.setdefault(d.cls, []).append(d)
            self.by_id.setdefault(d.id, []).append(d)
        self._scope = None

    # ---------------------------------------------------------------- which declarations are in scope
    def _type_ok(self, ty, ok):
        k = ty[0]
        if k == 'nat':
            return True
        if k == 'prim':
            return ty[1] in SUPPORTED_PRIMS
        if k == 'cond':
            return self._type_ok(ty[3], ok)
        if k == 'vector':
            return self._type_ok(ty[1], ok)
        if k == 'bare':
            ds = self.by_name.get(ty[1], [])
            return len(ds) == 1 and ok.get(id(ds[0]), False)
        if k == 'boxed':
            ds = self.by_class.get(ty[1], [])
            return any(ok.get(id(d), False) for d in ds)
        return False

    def in_scope(self):
        """declarations all of whose fields (transitively) use supported types; greatest fixpoint"""
        if self._scope is not None:
            return self._scope
        ok = {id(d): all(n is not None for n, _ in d.fields) for d in self.decls}
        for d in self.decls:
            if d.name in ('int', 'long', 'double', 'string', 'object', 'function', 'bytes', 'true', 'boolTrue', 'boolFalse', 'vector', 'int128', 'int256'):
                ok[id(d)] = False
        changed = True
        while changed:
            changed = False
            for d in self.decls:
                if ok[id(d)] and not all(self._type_ok(t, ok) for _, t in d.fields):
                    ok[id(d)] = False
                    changed = True
        # flag sources must exist
        for d in self.decls:
            if ok[id(d)]:
                names = [n for n, _ in d.fields]
                for n, t in d.fields:
                    if t[0] == 'cond' and (t[1] not in names or names.index(t[1]) > names.index(n)):
                        ok[id(d)] = False
        self._scope = ok
        return ok

    def alternatives(self, cls):
        ok = self.in_scope()
        return [d for d in self.by_class.get(cls, []) if ok[id(d)]]

    # ---------------------------------------------------------------- encoding
    def encode(self, value: dict, boxed=True, decl=None) -> bytes:
        if decl is None:
            ds = self.by_name[value['@type']]
            if len(ds) != 1:
                raise TlRefError(f'ambiguous name {value["@type"]}')
            decl = ds[0]
        out = struct.pack('<I', decl.id) if boxed else b''
        for n, t in decl.fields:
            if t[0] == 'cond':
                flags = value[t[1]]
                present = bool((flags >> t[2]) & 1)
                if present != (n in value):
                    raise TlRefError(f'{decl.name}.{n}: presence does not match {t[1]}.{t[2]}')
                if not present:
                    continue
                t = t[3]
            out += self.encode_type(t, value[n])
        return out

    def encode_type(self, t, v) -> bytes:
        k = t[0]
        if k == 'nat':
            if not 0 <= v < (1 << 32):
                raise TlRefError('# out of range')
            return struct.pack('<I', v)
        if k == 'prim':
            p = t[1]
            if p in ('int', 'long'):
                n = FIXED[p]
                if not -(1 << (8 * n - 1)) <= v < (1 << (8 * n - 1)):
                    raise TlRefError(f'{p} out of range')
                return v.to_bytes(n, 'little', signed=True)
            if p in ('int128', 'int256'):
                b = bytes.fromhex(v)
                if len(b) != FIXED[p]:
                    raise TlRefError(f'{p} needs {FIXED[p]} bytes')
                return b
            if p == 'Bool':
                return struct.pack('<I', BOOL_TRUE if v else BOOL_FALSE)
            if p == 'true':
                return b''
            if p == 'bytes':
                if isinstance(v, dict):
                    v = self.encode(v, True)
                elif isinstance(v, list):
                    v = b''.join(self.encode(x, True) for x in v)
                return tl_string(bytes(v))
            if p == 'string':
                return tl_string(v.encode('utf-8'))
            raise TlRefError(f'unsupported primitive {p}')
        if k == 'vector':
            return struct.pack('<I', len(v)) + b''.join(self.encode_type(t[1], x) for x in v)
        if k == 'bare':
            ds = self.by_name[t[1]]
            return self.encode(v, False, ds[0])
        if k == 'boxed':
            ds = [d for d in self.by_class[t[1]] if d.name == v['@type']]
            if len(ds) != 1:
                raise TlRefError(f'{v["@type"]} is not a constructor of {t[1]}')
            return self.encode(v, True, ds[0])
        raise TlRefError(f'unsupported type {t}')

    # ---------------------------------------------------------------- decoding
    def decode(self, data: bytes, pos=0, decl=None, nested=None):
        """boxed object at data[pos:] (decl None: looked up by id) -> (value, new pos)"""
        if decl is None:
            if len(data) - pos < 4:
                raise TlRefError('truncated id')
            cid = struct.unpack_from('<I', data, pos)[0]
            ds = self.by_id.get(cid)
            if not ds:
                raise TlRefError(f'unknown constructor {cid:08x}')
            decl = ds[0]
            pos += 4
        out = {'@type': decl.name}
        for n, t in decl.fields:
            if t[0] == 'cond':
                if not (out[t[1]] >> t[2]) & 1:
                    continue
                t = t[3]
            out[n], pos = self.decode_type(t, data, pos, nested, (decl.name, n))
        return out, pos

    def decode_type(self, t, data, pos, nested=None, where=None):
        k = t[0]

        def need(n):
            if len(data) - pos < n:
                raise TlRefError('truncated')
        if k == 'nat':
            need(4)
            return struct.unpack_from('<I', data, pos)[0], pos + 4
        if k == 'prim':
            p = t[1]
            if p in ('int', 'long'):
                n = FIXED[p]
                need(n)
                return int.from_bytes(data[pos:pos + n], 'little', signed=True), pos + n
            if p in ('int128', 'int256'):
                n = FIXED[p]
                need(n)
                return data[pos:pos + n].hex(), pos + n
            if p == 'Bool':
                need(4)
                cid = struct.unpack_from('<I', data, pos)[0]
                if cid not in (BOOL_TRUE, BOOL_FALSE):
                    raise TlRefError('not a Bool')
                return cid == BOOL_TRUE, pos + 4
            if p == 'true':
                return True, pos
            if p in ('bytes', 'string'):
                b, pos = read_tl_string(data, pos)
                if p == 'string':
                    return b.decode('utf-8'), pos
                if nested and where in nested:
                    v, q = self.decode(b, 0)
                    if q != len(b):
                        raise TlRefError('nested object does not fill the bytes field')
                    return v, pos
                return b, pos
        if k == 'vector':
            need(4)
            n = struct.unpack_from('<I', data, pos)[0]
            pos += 4
            out = []
            for _ in range(n):
                if pos > len(data):
                    raise TlRefError('truncated vector')
                v, pos = self.decode_type(t[1], data, pos, nested, where)
                out.append(v)
            return out, pos
        if k == 'bare':
            return self.decode(data, pos, self.by_name[t[1]][0], nested)
        if k == 'boxed':
            v, pos2 = self.decode(data, pos, None, nested)
            if not any(d.name == v['@type'] for d in self.by_class.get(t[1], [])):
                raise TlRefError(f'{v["@type"]} is not a {t[1]}')
            return v, pos2
        raise TlRefError(f'unsupported type {t}')


def tl_string(b: bytes) -> bytes:
    n = len(b)
    if n <= 253:
        out = bytes([n]) + b
    elif n < (1 << 24):
        out = b'\xfe' + n.to_bytes(3, 'little') + b
    else:
        raise TlRefError('string too long')
    return out + b'\x00' * (-len(out) % 4)


def read_tl_string(data: bytes, pos: int):
    if pos >= len(data):
        raise TlRefError('truncated string')
    if data[pos] == 0xFE:
        if len(data) - pos < 4:
            raise TlRefError('truncated string')
        n = int.from_bytes(data[pos + 1:pos + 4], 'little')
        hdr = 4
    elif data[pos] == 0xFF:
        raise TlRefError('0xff length marker')
    else:
        n = data[pos]
        hdr = 1
    total = hdr + n
    total += -total % 4
    if len(data) - pos < total:
        raise TlRefError('truncated string')
    return data[pos + hdr:pos + hdr + n], pos + total


def load_files(paths):
    decls = []
    for p in paths:
        import os
        decls += parse_schema_text(open(p).read(), os.path.basename(p))
    return Schema(decls)


def selftest(schema_dir=None):
    assert tl_string(b'') == b'\x00\x00\x00\x00'
    assert tl_string(b'abc') == b'\x03abc'
    assert tl_string(b'a' * 253)[:1] == b'\xfd' and len(tl_string(b'a' * 253)) == 256
    assert tl_string(b'a' * 254)[:4] == b'\xfe\xfe\x00\x00' and len(tl_string(b'a' * 254)) == 260
    assert read_tl_string(tl_string(b'x' * 300) + b'rest', 0) == (b'x' * 300, 304)
    # pinned constructor ids (TON's generated ton_api / lite_api headers)
    s = Schema(parse_schema_text(
        'dht.ping random_id:long = dht.Pong;\n'
        'tonNode.blockIdExt workchain:int shard:long seqno:int root_hash:int256 file_hash:int256 = tonNode.BlockIdExt;\n'
        'adnl.message.query query_id:int256 query:bytes = adnl.Message;\n'
        '---functions---\nliteServer.getMasterchainInfo = liteServer.MasterchainInfo;\n'
        'liteServer.query data:bytes = Object;\n'))
    ids = {d.name: d.id for d in s.decls}
    assert ids['dht.ping'] == 0xcbeb3f18, hex(ids['dht.ping'])
    assert ids['tonNode.blockIdExt'] == 0x6752eb78
    assert ids['adnl.message.query'] == 0xb48bf97a
    assert ids['liteServer.getMasterchainInfo'] == 0x89b5e62e
    assert ids['liteServer.query'] == 0x798c06df
    assert s.encode({'@type': 'dht.ping', 'random_id': 142536475324}) == b'\x18?\xeb\xcb' + b'\xbc\x02\xd6/!\x00\x00\x00'
    v = {'@type': 'adnl.message.query', 'query_id': '11' * 32, 'query': b'\x01\x02\x03\x04\x05'}
    e = s.encode(v)
    assert len(e) == 4 + 32 + 8 and s.decode(e) == (v, len(e))
