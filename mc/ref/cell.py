"""Reference cell model (independent of pytoniq_core): TON cells as immutable values.

Written from the TVM whitepaper 3.1 and crypto/vm/cells/{DataCell,LevelMask}.cpp in a recursive
"effective level" formulation (the library under test uses an iterative hash-index formulation).

bits are Python str of '0'/'1'; refs a tuple of RCell; special marks exotic cells, whose type is the
first data byte.
"""
import hashlib

ORD, PRUNED, LIB, MPROOF, MUPDATE = -1, 1, 2, 3, 4
MAX_DEPTH = 1023


class RefCellError(Exception):
    """the described cell is not a valid TON cell"""


def _need(c, msg):
    if not c:
        raise RefCellError(msg)


class RCell:
    __slots__ = ('bits', 'refs', 'special', 'type', 'mask', '_h', '_d')

    def __init__(self, bits: str, refs=(), special=False, lax=False):
        """lax: an attacker-made Merkle cell whose stored hash / depth is NOT its child's (not a valid cell; used only to describe
        inputs that must be refused - e.g. to encode them into a bag of cells)"""
        self.bits = bits
        self.refs = tuple(refs)
        self.special = bool(special)
        self._h = {}
        self._d = {}
        _need(len(bits) <= 1023, 'more than 1023 bits')
        _need(len(self.refs) <= 4, 'more than 4 refs')
        if not special:
            self.type = ORD
            m = 0
            for r in self.refs:
                m |= r.mask
            self.mask = m
        else:
            _need(len(bits) >= 8, 'exotic cell needs a type byte')
            self.type = int(bits[:8], 2)
            if self.type == PRUNED:
                _need(not self.refs, 'pruned branch has refs')
                _need(len(bits) >= 16, 'pruned branch without mask')
                self.mask = int(bits[8:16], 2)
                _need(1 <= self.mask <= 7, 'pruned branch mask out of range')
                n = bin(self.mask).count('1')
                _need(len(bits) == 16 + n * (256 + 16), 'pruned branch length')
            elif self.type == LIB:
                _need(len(bits) == 8 + 256 and not self.refs, 'library cell shape')
                self.mask = 0
            elif self.type == MPROOF:
                _need(len(bits) == 8 + 256 + 16 and len(self.refs) == 1, 'merkle proof shape')
                raw = int(bits, 2).to_bytes(35, 'big')
                _need(lax or (raw[1:33] == self.refs[0].hash(0) and int.from_bytes(raw[33:35], 'big') == self.refs[0].depth(0)), 'merkle proof: stored hash / depth is not the child\'s')
                self.mask = self.refs[0].mask >> 1
            elif self.type == MUPDATE:
                _need(len(bits) == 8 + 2 * (256 + 16) and len(self.refs) == 2, 'merkle update shape')
                raw = int(bits, 2).to_bytes(69, 'big')
                for i in (0, 1):
                    _need(lax or (raw[1 + 32 * i:33 + 32 * i] == self.refs[i].hash(0) and int.from_bytes(raw[65 + 2 * i:67 + 2 * i], 'big') == self.refs[i].depth(0)),
                          'merkle update: stored hash / depth is not the child\'s')
                self.mask = (self.refs[0].mask | self.refs[1].mask) >> 1
            else:
                raise RefCellError('unknown exotic type')
        # depth limit (checked eagerly, at every level)
        for l in range(4):
            _need(self.depth(l) <= MAX_DEPTH, 'depth > 1023')

    # ---- level bookkeeping
    def _eff(self, level):
        """highest significant level <= level (0 is always significant)"""
        l = min(level, 3)
        while l > 0 and not (self.mask >> (l - 1)) & 1:
            l -= 1
        return l

    def _stored_index(self, l):
        return bin(self.mask & ((1 << l) - 1)).count('1')

    @property
    def level(self):
        return self.mask.bit_length()

    def data_bytes(self):
        b = self.bits
        if len(b) % 8:
            b = b + '1' + '0' * ((-len(b) - 1) % 8)
        return int(b, 2).to_bytes(len(b) // 8, 'big') if b else b''

    def d1(self, level=3):
        l = self._eff(level)
        return len(self.refs) + 8 * self.special + 32 * (self.mask & ((1 << l) - 1))

    def d2(self):
        nb = len(self.bits)
        return nb // 8 + (nb + 7) // 8

    def hash(self, level=3):
        l = self._eff(level)
        if l in self._h:
            return self._h[l]
        top = self.mask.bit_length()
        if self.type == PRUNED and l != top:
            i = self._stored_index(l)
            raw = self.data_bytes()
            n = bin(self.mask).count('1')
            h = raw[2 + 32 * i: 2 + 32 * (i + 1)]
            d = int.from_bytes(raw[2 + 32 * n + 2 * i: 2 + 32 * n + 2 * i + 2], 'big')
        else:
            if l == 0 or self.type == PRUNED:
                body = self.data_bytes()
            else:
                body = self.hash(l - 1)        # hash at the previous significant level
            shift = 1 if self.type in (MPROOF, MUPDATE) else 0
            depths = b''.join(r.depth(l + shift).to_bytes(2, 'big') for r in self.refs)
            hashes = b''.join(r.hash(l + shift) for r in self.refs)
            h = hashlib.sha256(bytes([self.d1(l), self.d2()]) + body + depths + hashes).digest()
            d = (1 + max(r.depth(l + shift) for r in self.refs)) if self.refs else 0
        self._h[l] = h
        self._d[l] = d
        return h

    def depth(self, level=3):
        self.hash(level)
        return self._d[self._eff(level)]

    def representation(self, level=3):
        """the byte string whose SHA-256 is hash(level).  At the lowest level it is the standard representation d1 d2 data depths hashes;
        at a higher significant level the data is replaced by the hash of the level below and the children are taken at that level
        (one level up below a Merkle cell) - crypto/vm/cells/DataCell.cpp.  Not defined for the stored levels of a pruned branch."""
        l = self._eff(level)
        top = self.mask.bit_length()
        _need(not (self.type == PRUNED and l != top), 'a pruned branch has no representation below its own level')
        body = self.data_bytes() if (l == 0 or self.type == PRUNED) else self.hash(l - 1)
        shift = 1 if self.type in (MPROOF, MUPDATE) else 0
        return (bytes([self.d1(l), self.d2()]) + body
                + b''.join(r.depth(l + shift).to_bytes(2, 'big') for r in self.refs)
                + b''.join(r.hash(l + shift) for r in self.refs))

    def __repr__(self):
        return f'RCell({"*" if self.special else ""}{len(self.bits)}b,{len(self.refs)}r,{self.hash().hex()[:8]})'


def bits_of(b: bytes) -> str:
    return ''.join(f'{x:08b}' for x in b)


def prune(c: RCell, merkle_depth: int = 1) -> RCell:
    """pruned branch standing for c below `merkle_depth` enclosing Merkle cells"""
    lvl = merkle_depth
    mask = (c.mask & ((1 << (lvl - 1)) - 1)) | (1 << (lvl - 1))
    sig = [0] + [i for i in range(1, lvl) if (mask >> (i - 1)) & 1]
    hs = b''.join(c.hash(i) for i in sig)
    ds = b''.join(c.depth(i).to_bytes(2, 'big') for i in sig)
    return RCell(bits_of(bytes([1, mask]) + hs + ds), (), True)


def pruned_raw(mask: int, hashes, depths) -> RCell:
    return RCell(bits_of(bytes([1, mask]) + b''.join(hashes) + b''.join(d.to_bytes(2, 'big') for d in depths)), (), True)


def library(h: bytes) -> RCell:
    return RCell(bits_of(bytes([2]) + h), (), True)


def mproof(c: RCell) -> RCell:
    return RCell(bits_of(bytes([3]) + c.hash(0) + c.depth(0).to_bytes(2, 'big')), (c,), True)


def mupdate(a: RCell, b: RCell) -> RCell:
    return RCell(bits_of(bytes([4]) + a.hash(0) + b.hash(0) + a.depth(0).to_bytes(2, 'big') + b.depth(0).to_bytes(2, 'big')), (a, b), True)


def canon_node(bits: str, special: bool, kids) -> bytes:
    """digest of one structural node given the digests of its children (flat, so that 1023-deep chains compare
    without recursion; it is NOT the TON hash: it covers the exact bit string, the special flag and the child order)"""
    import hashlib
    return hashlib.sha256(b'%d|%s|%d|' % (len(bits), bits.encode(), 1 if special else 0) + b''.join(kids)).digest()


def canon(c: RCell, memo=None):
    """structural canonical form: equal iff same bits, special flags and references, recursively"""
    if memo is None:
        memo = {}
    stack = [c]                      # iterative post-order: chains may be 1023 cells deep
    while stack:
        x = stack[-1]
        if id(x) in memo:
            stack.pop()
            continue
        pend = [r for r in x.refs if id(r) not in memo]
        if pend:
            stack.extend(pend)
            continue
        memo[id(x)] = canon_node(x.bits, x.special, [memo[id(r)] for r in x.refs])
        stack.pop()
    return memo[id(c)]


def topo(root_list):
    """distinct cells (by representation hash) reachable from the roots, parents before children"""
    order, seen = [], {}

    def visit(c):
        h = c.hash()
        st = seen.get(h)
        if st == 2:
            return
        seen[h] = 1
        for r in c.refs:
            visit(r)
        seen[h] = 2
        order.append(c)
    import sys
    sys.setrecursionlimit(max(sys.getrecursionlimit(), 5000))
    for r in root_list:
        visit(r)
    order.reverse()
    return order
