"""Reference TL-B primitive encodings on bit strings (Python str of 0/1), from block.tlb:
uintN / intN two's complement big-endian, VarUInteger n / VarInteger n (minimal byte length),
Grams = VarUInteger 16, MsgAddress (addr_none$00, addr_extern$01, addr_std$10 with Maybe Anycast)."""


class RefRangeError(Exception):
    pass


def uint(v: int, w: int) -> str:
    if w < 0 or v < 0 or v >= (1 << w):
        raise RefRangeError(f'{v} does not fit uint{w}')
    return format(v, f'0{w}b') if w else ''


def sint(v: int, w: int) -> str:
    if w == 0 and v == 0:
        return ''          # int0: the value 0 in no bits
    if w < 1 or not (-(1 << (w - 1)) <= v < (1 << (w - 1))):
        raise RefRangeError(f'{v} does not fit int{w}')
    return format(v & ((1 << w) - 1), f'0{w}b')


def dec_uint(bits: str) -> int:
    return int(bits, 2) if bits else 0


def dec_sint(bits: str) -> int:
    v = int(bits, 2)
    return v - (1 << len(bits)) if bits[0] == '1' else v


def var_uint_len(v: int) -> int:
    return (v.bit_length() + 7) // 8


def var_sint_len(v: int) -> int:
    """minimal number of bytes holding v in two's complement (0 for 0)"""
    if v == 0:
        return 0
    n = 1
    while not (-(1 << (8 * n - 1)) <= v < (1 << (8 * n - 1))):
        n += 1
    return n


def var_uint(v: int, n: int) -> str:
    """VarUInteger n: len:(#< n) value:(uint (len*8)); the length field has ceil(log2 n) bits.
    The library's API takes the *bit length of the length field* directly; callers pass lbits."""
    raise NotImplementedError


def var_uint_l(v: int, lbits: int) -> str:
    if v < 0:
        raise RefRangeError('negative')
    L = var_uint_len(v)
    if L >= (1 << lbits):
        raise RefRangeError('too long for the length field')
    return uint(L, lbits) + uint(v, 8 * L)


def var_sint_l(v: int, lbits: int) -> str:
    L = var_sint_len(v)
    if L >= (1 << lbits):
        raise RefRangeError('too long for the length field')
    return uint(L, lbits) + (sint(v, 8 * L) if L else '')


def coins(v: int) -> str:
    return var_uint_l(v, 4)


def bytes_bits(b: bytes) -> str:
    return ''.join(f'{x:08b}' for x in b)


def bits_bytes(bits: str) -> bytes:
    assert len(bits) % 8 == 0
    return int(bits, 2).to_bytes(len(bits) // 8, 'big') if bits else b''


def addr_none() -> str:
    return '00'


def addr_extern(value: int, length: int) -> str:
    return '01' + uint(length, 9) + uint(value, length)


def addr_std(wc: int, account: bytes, anycast=None) -> str:
    assert len(account) == 32
    out = '10'
    if anycast is None:
        out += '0'
    else:
        depth, pfx = anycast
        if not 1 <= depth <= 30:
            raise RefRangeError('anycast depth')
        out += '1' + uint(depth, 5) + uint(pfx, depth)
    return out + sint(wc, 8) + bytes_bits(account)


def snake(data: bytes, first_room_bits: int):
    """snake chaining as the TON convention (tail in the single reference): returns a list of byte chunks;
    chunk 0 fits into first_room_bits//8 bytes, later chunks into 127 bytes"""
    chunks = []
    room = first_room_bits // 8
    pos = 0
    while True:
        chunks.append(data[pos:pos + room])
        pos += room
        if pos >= len(data):
            break
        room = 127
    return chunks
