"""TL-B subset parser + decoder driven by schema text (independent of pytoniq_core): see DESIGN.md section 4."""
import re
from .cell import RCell, PRUNED

class TlbError(Exception): pass

TOK = re.compile(r"""\s+|//[^\n]*|/\*.*?\*/|(?P<t>\^\[|\#<=|\#<|\#\#|[A-Za-z_!][A-Za-z0-9_]*(?:[#$][0-9a-fA-F_]*)?|\d+|<=|>=|[\[\]{}()=;:?.~^*+<>\#])""", re.S)

def tokenize(text):
    out = []; p = 0
    while p < len(text):
        m = TOK.match(text, p)
        if not m: raise TlbError(f'lex error at {text[p:p+30]!r}')
        if m.group('t'): out.append(m.group('t'))
        p = m.end()
    return out

IMPLICIT_TAGS = {'block_extra': f'{0x4a33f6fd:032b}'}

class Parser:
    def __init__(self, toks): self.t = toks; self.i = 0
    def peek(self): return self.t[self.i] if self.i < len(self.t) else None
    def next(self): v = self.t[self.i]; self.i += 1; return v
    def expect(self, x):
        v = self.next()
        if v != x: raise TlbError(f'expected {x} got {v} near {self.t[max(0,self.i-8):self.i+3]}')
    # ---- expressions
    def atom(self):
        t = self.next()
        if t == '(':
            e = self.expr_seq(')'); self.expect(')'); return e
        if t == '^[' :
            fs = self.fields(']'); self.expect(']'); return ('ref', ('anon', fs))
        if t == '[':
            fs = self.fields(']'); self.expect(']'); return ('anon', fs)
        if t == '^': return ('ref', self.atom())
        if t == '~': return ('neg', self.next())
        if t.isdigit(): return int(t)
        return t   # identifier or # ## #<= #<
    def postfix(self):
        a = self.atom()
        while self.peek() == '.':
            self.next(); b = self.atom(); a = ('bit', a, b)
        if self.peek() == '?':
            self.next(); t = self.postfix(); return ('cond', a, t)
        return a
    def term(self):
        a = self.postfix()
        while self.peek() == '*':
            self.next(); b = self.postfix(); a = ('mul', a, b)
        return a
    def arith(self):
        a = self.term()
        while self.peek() == '+':
            self.next(); b = self.term(); a = ('add', a, b)
        return a
    def expr_seq(self, closer):
        items = []
        while self.peek() not in (closer, '=', '<=', '>=', '<', '>'):
            items.append(self.arith())
        if len(items) == 1: return items[0]
        return ('app', items[0], items[1:])
    # ---- fields
    def fields(self, closer):
        fs = []
        while self.peek() != closer:
            t = self.peek()
            if t == '{':
                self.next()
                if self.t[self.i + 1] == ':' and self.t[self.i + 2] in ('#', 'Type'):
                    name = self.next(); self.next(); kind = self.next(); self.expect('}')
                    fs.append(('implicit', name, kind)); continue
                a = self.expr_seq('}'); op = self.next(); b = self.expr_seq('}'); self.expect('}')
                fs.append(('constraint', a, op, b)); continue
            # explicit field:  name:type | type
            if self.i + 1 < len(self.t) and self.t[self.i + 1] == ':' and re.match(r'[A-Za-z_]', t):
                name = self.next(); self.next(); ty = self.postfix()
                fs.append(('field', name, ty))
            else:
                ty = self.postfix(); fs.append(('field', None, ty))
        return fs
    def decl(self):
        head = self.next()
        m = re.match(r'^(!?)([A-Za-z_][A-Za-z0-9_]*)?(?:([#$])([0-9a-fA-F_]*))?$', head)
        if not m: raise TlbError('bad constructor head ' + head)
        special, name, kind, tagtxt = m.group(1) == '!', m.group(2), m.group(3), m.group(4)
        tag = None
        if kind == '#':
            if tagtxt in ('', '_'): tag = ''
            else:
                bits = ''.join(f'{int(ch,16):04b}' for ch in tagtxt.rstrip('_'))
                if tagtxt.endswith('_'): bits = bits.rstrip('0')[:-1]
                tag = bits
        elif kind == '$':
            tag = tagtxt.rstrip('_')
        if tag is None and name in (None, '_'): tag = ''
        if tag is None and name in IMPLICIT_TAGS: tag = IMPLICIT_TAGS[name]
        fs = self.fields('=')
        self.expect('=')
        tname = self.next(); params = []
        while self.peek() != ';': params.append(self.postfix())
        self.expect(';')
        return dict(name=name, tag=tag, special=special, fields=fs, type=tname, params=params)

def parse_schema(text):
    p = Parser(tokenize(text)); decls = []
    while p.peek() is not None: decls.append(p.decl())
    return decls

# ------------------------------------------------------------------ decoding
class Slice:
    def __init__(self, cell: RCell): self.c = cell; self.b = 0; self.r = 0
    def bits_left(self): return len(self.c.bits) - self.b
    def refs_left(self): return len(self.c.refs) - self.r
    def take(self, n):
        if n > self.bits_left(): raise TlbError(f'bit underflow want {n} have {self.bits_left()}')
        s = self.c.bits[self.b:self.b + n]; self.b += n; return s
    def peek(self, n): return self.c.bits[self.b:self.b + n]
    def uint(self, n): return int(self.take(n), 2) if n else 0
    def int(self, n):
        if n == 0: return 0
        s = self.take(n); v = int(s, 2); return v - (1 << n) if s[0] == '1' else v
    def ref(self):
        if not self.refs_left(): raise TlbError('ref underflow')
        c = self.c.refs[self.r]; self.r += 1; return c
    def rest_cell(self):
        if self.b == 0 and self.r == 0: return self.c          # the whole cell, as it is (an exotic cell stays exotic: ^Any / ^X)
        return RCell(self.c.bits[self.b:], self.c.refs[self.r:])

class Schema:
    def __init__(self, text):
        self.decls = parse_schema(text); self.types = {}
        for d in self.decls: self.types.setdefault(d['type'], []).append(d)
        for t, ds in self.types.items():
            for d in ds:
                if d['tag'] is None:   # implicit tag: crc32-based 32 bit; not needed for covered types
                    d['tag'] = None

    # evaluate a nat expression in env
    def nat(self, e, env):
        if isinstance(e, int): return e
        if isinstance(e, str):
            if e in env: return env[e]
            raise TlbError(f'unbound {e}')
        if e[0] == 'mul': return self.nat(e[1], env) * self.nat(e[2], env)
        if e[0] == 'add': return self.nat(e[1], env) + self.nat(e[2], env)
        if e[0] == 'bit': return (self.nat(e[1], env) >> self.nat(e[2], env)) & 1
        raise TlbError(f'not a nat expr {e}')

    def is_nat_expr(self, e, env):
        try: self.nat(e, env); return True
        except TlbError: return False

    def decode(self, ty, s: Slice, env=None):
        env = env or {}
        if isinstance(ty, tuple):
            k = ty[0]
            if k == 'ref':
                c = s.ref()
                if c.special and c.type == PRUNED: return {'@pruned': c.hash(0).hex()}
                if ty[1] in ('Cell', 'Any'): return c
                sub = Slice(c); v = self.decode(ty[1], sub, env)
                if sub.bits_left() or sub.refs_left():
                    raise TlbError(f'ref of {ty[1]} not fully consumed: {sub.bits_left()} bits {sub.refs_left()} refs left')
                if isinstance(v, dict) and '@c' in v: v['@cell'] = c     # the referenced cell itself (for parsers that keep it raw)
                return v
            if k == 'anon': return self.decode_fields(ty[1], s, dict(env))[0]
            if k == 'cond':
                return self.decode(ty[2], s, env) if self.nat(ty[1], env) else None
            if k == 'mul':   # n * Bit
                assert ty[2] == 'Bit'; return s.take(self.nat(ty[1], env))
            if k == 'app': return self.decode_app(ty[1], ty[2], s, env)
            raise TlbError(f'cannot decode {ty}')
        if isinstance(ty, str): return self.decode_app(ty, [], s, env)
        raise TlbError(f'cannot decode {ty}')

    def decode_app(self, head, args, s, env):
        if head == '#': return s.uint(32)
        if head == '##': return s.uint(self.nat(args[0], env))
        if head == '#<=': return self._bounded(s, self.nat(args[0], env), lambda v, n: v <= n)
        if head == '#<':
            n = self.nat(args[0], env); return self._bounded(s, n - 1, lambda v, m: v <= m) if n > 0 else 0
        m = re.match(r'^(uint|int|bits)(\d*)$', head)
        if m and (m.group(2) or args):
            n = int(m.group(2)) if m.group(2) else self.nat(args[0], env)
            return s.uint(n) if m.group(1) == 'uint' else s.int(n) if m.group(1) == 'int' else s.take(n)
        if head in ('Cell', 'Any'): 
            c = s.rest_cell(); s.b = len(s.c.bits); s.r = len(s.c.refs); return c
        if head in env and not args and not isinstance(env[head], int):   # type variable
            return env[head](s)
        if head in ('Hashmap', 'HashmapE', 'HashmapAug', 'HashmapAugE'):
            return self.decode_hashmap(head, args, s, env)
        if head == 'MERKLE_UPDATE':
            if not (s.c.special and s.c.type == 4 and s.b == 0): raise TlbError('expected merkle update cell')
            s.take(8); oh = s.take(256); nh = s.take(256); od = s.uint(16); nd = s.uint(16)
            out = {'@c': 'merkle_update', 'old_hash': oh, 'new_hash': nh, 'old_depth': od, 'new_depth': nd}
            out['old'] = self.decode(('ref', args[0]), s, env); out['new'] = self.decode(('ref', args[0]), s, env)
            return out
        if head not in self.types: raise TlbError(f'unknown type {head}')
        # evaluate args: nat or type closure
        vals = []
        for a in args:
            if self.is_nat_expr(a, env): vals.append(self.nat(a, env))
            else: vals.append((lambda a_, env_: (lambda sl: self.decode(a_, sl, env_)))(a, env))
        cands = []
        for d in self.types[head]:
            b = self.match_params(d, vals)
            if b is None: continue
            if d['tag'] is None: raise TlbError(f'constructor {d["name"]} has implicit tag')
            if s.peek(len(d['tag'])) == d['tag'] and len(s.peek(len(d['tag']))) == len(d['tag']): cands.append((d, b))
        if not cands: raise TlbError(f'no constructor of {head} matches bits {s.peek(8)} args {[v for v in vals if isinstance(v,int)]}')
        d, b = max(cands, key=lambda x: len(x[0]['tag']))
        s.take(len(d['tag']))
        if d['special']:
            pass
        v, _ = self.decode_fields(d['fields'], s, b)
        v['@c'] = d['name']
        return v

    def _bounded(self, s, n, ok):
        v = s.uint(n.bit_length())
        if not ok(v, n): raise TlbError(f'value {v} exceeds bound {n}')
        return v

    def match_params(self, d, vals):
        if len(d['params']) != len(vals): return None
        env = {}
        for p, v in zip(d['params'], vals):
            if isinstance(p, int):
                if not isinstance(v, int) or v != p: return None
            elif isinstance(p, str): env[p] = v
            elif p[0] == 'add' and isinstance(p[2], int) and isinstance(p[1], str):
                if not isinstance(v, int) or v < p[2]: return None
                env[p[1]] = v - p[2]
            elif p[0] == 'neg': env['~' + p[1]] = None
            else: return None
        return env

    def decode_fields(self, fields, s, env):
        out = {}
        for f in fields:
            if f[0] == 'implicit': continue
            if f[0] == 'constraint':
                _, a, op, b = f
                if any(isinstance(x, tuple) and x[0] == 'neg' for x in (a, b)) or 'neg' in repr((a, b)): continue
                av, bv = self.nat(a, env), self.nat(b, env)
                if not {'<=': av <= bv, '>=': av >= bv, '=': av == bv, '<': av < bv, '>': av > bv}[op]:
                    raise TlbError(f'constraint {a} {op} {b} violated: {av} {bv}')
                continue
            _, name, ty = f
            v = self.decode(ty, s, env)
            if name and name != '_':
                out[name] = v
                if isinstance(v, int) and not isinstance(v, bool): env[name] = v
            elif isinstance(v, dict) and '@c' not in v: out.update(v)
            else: out['_'] = v
        return out, env

    # ---- dictionaries (native)
    def decode_label(self, s, m):
        if s.peek(1) == '0':
            s.take(1); n = 0
            while s.take(1) == '1': n += 1
            if n > m: raise TlbError('label too long')
            return s.take(n)
        if s.peek(2) == '10':
            s.take(2); n = s.uint(m.bit_length())
            if n > m: raise TlbError('label too long')
            return s.take(n)
        s.take(2); v = s.take(1); n = s.uint(m.bit_length())
        if n > m: raise TlbError('label too long')
        return v * n

    def decode_hashmap(self, head, args, s, env):
        n = self.nat(args[0], env)
        X = args[1]; Y = args[2] if 'Aug' in head else None
        res = {}; extras = []
        def edge(sl, m, prefix):
            lab = self.decode_label(sl, m); prefix += lab; m -= len(lab)
            if m == 0:
                if Y is not None: ex = self.decode(Y, sl, env)
                raw = (sl.c.bits[sl.b:], sl.c.refs[sl.r:])
                val = self.decode(X, sl, env)
                if isinstance(val, dict) and '@c' in val: val['@raw'] = raw      # the encoded value as stored (for parsers that keep it raw)
                res[int(prefix, 2) if prefix else 0] = val
                if Y is not None: extras.append(ex)
            else:
                for bit in '01':
                    c = sl.ref()
                    if c.special: extras.append({'@pruned': True}); continue
                    sub = Slice(c); edge(sub, m - 1, prefix + bit)
                    if sub.bits_left() or sub.refs_left(): raise TlbError(f'dict node not fully consumed ({sub.bits_left()} bits left) value type {X}')
                if Y is not None: extras.append(self.decode(Y, sl, env))
        if head.endswith('E'):
            if s.uint(1):
                c = s.ref()
                if not c.special:
                    sub = Slice(c); edge(sub, n, '')
                    if sub.bits_left() or sub.refs_left(): raise TlbError('dict root not fully consumed')
                else: res = {'@pruned': c.hash(0).hex()}
            root_extra = self.decode(Y, s, env) if Y is not None else None
            return {'dict': res, 'extras': extras, 'root_extra': root_extra} if Y is not None else res
        edge(s, n, '')
        return {'dict': res, 'extras': extras} if Y is not None else res
