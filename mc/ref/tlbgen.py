"""TL-B generator/encoder with choice points (explorer D) on top of ref.tlb.Schema; independent of pytoniq_core."""
import re
from .cell import RCell
from .tlb import Schema, Slice, TlbError

class Overflow(Exception): pass
class Invalid(Exception): pass

class B:
    def __init__(self): self.bits = ''; self.refs = []
    def put(self, s):
        self.bits += s
        if len(self.bits) > 1023: raise Overflow('bits')
    def uint(self, v, n):
        if n == 0:
            if v: raise Invalid('width 0'); 
            return
        if not 0 <= v < (1 << n): raise Invalid(f'{v} !< 2^{n}')
        self.put(format(v, f'0{n}b'))
    def int(self, v, n):
        if not -(1 << (n - 1)) <= v < (1 << (n - 1)): raise Invalid('int range')
        self.put(format(v & ((1 << n) - 1), f'0{n}b'))
    def ref(self, c):
        self.refs.append(c)
        if len(self.refs) > 4: raise Overflow('refs')
    def cell(self, special=False): return RCell(self.bits, tuple(self.refs), special)

class Chooser:
    """records choice points; `plan` maps choice index -> alternative (default 0)"""
    def __init__(self, plan=None): self.plan = plan or {}; self.points = []
    def choose(self, label, n):
        i = len(self.points); a = self.plan.get(i, 0)
        if a >= n: raise Invalid('stale plan')
        self.points.append((label, n, a)); return a

class Gen:
    def __init__(self, schema: Schema, seed=0, max_depth=6, skip_ctors=(), max_dict=3):
        self.s = schema; self.seed = seed; self.max_depth = max_depth; self.counter = 0; self.skip_ctors = set(skip_ctors); self.max_dict = max_dict
    def fill(self, n):
        """distinguishable default value of n bits"""
        self.counter += 1
        v = (self.counter * 0x9E3779B97F4A7C15 + self.seed) & ((1 << 64) - 1)
        out = 0
        for i in range((n + 63) // 64): out = (out << 64) | ((v * (i + 1) * 6364136223846793005 + 1442695040888963407) & ((1 << 64) - 1))
        return out & ((1 << n) - 1) if n else 0
    def pick_uint(self, ch, label, n, lo=0, hi=None, env=None):
        hi = (1 << n) - 1 if hi is None else hi
        if env is not None and '@bounds' in env:
            blo, bhi = env.pop('@bounds'); lo = max(lo, blo); hi = hi if bhi is None else min(hi, bhi)
            if hi < lo: raise Invalid('empty range')
        if hi <= lo: return lo
        d = lo + 1 + self.fill(n) % max(1, min(hi - lo, 250)) if hi - lo > 1 else lo
        d = min(d, hi)
        alts = [d]
        for v in (lo, hi, hi - 1, (1 << (n - 1)) if n > 1 else None, (1 << (n - 1)) - 1 if n > 1 else None):
            if v is not None and lo <= v <= hi and v not in alts: alts.append(v)
        return alts[ch.choose(label, len(alts))]
    def pick_int(self, ch, label, n):
        lo, hi = -(1 << (n - 1)), (1 << (n - 1)) - 1
        alts = []
        for v in (self.fill(n - 1) % 100 + 2 if n > 8 else 1 if n > 1 else 0, -1, 0, lo, hi, 1):
            if lo <= v <= hi and v not in alts: alts.append(v)
        return alts[ch.choose(label, len(alts))]

    # ------------------------------------------------------------------ generation = value + encoding in one pass
    def gen(self, ty, b: B, env, ch, path, depth=0):
        s = self.s
        if isinstance(ty, tuple):
            k = ty[0]
            if k == 'ref':
                if ty[1] in ('Cell', 'Any'):
                    c = self.any_cell(ch, path); b.ref(c); return c
                sub = B(); v = self.gen(ty[1], sub, env, ch, path, depth + 1); b.ref(sub.cell()); return v
            if k == 'anon':
                return self.gen_fields(ty[1], b, dict(env), ch, path, depth)[0]
            if k == 'cond':
                return self.gen(ty[2], b, env, ch, path, depth) if s.nat(ty[1], env) else None
            if k == 'mul':
                n = s.nat(ty[1], env); v = format(self.fill(n), f'0{n}b') if n else ''; b.put(v); return v
            if k == 'app': return self.gen_app(ty[1], ty[2], b, env, ch, path, depth)
            raise TlbError(f'cannot gen {ty}')
        return self.gen_app(ty, [], b, env, ch, path, depth)

    def any_cell(self, ch, path):
        a = ch.choose(path + '/cell', 3)
        if a == 0: return RCell(format(self.fill(24), '024b'))
        if a == 1: return RCell('')
        return RCell(format(self.fill(13), '013b'), (RCell('1'),))

    def gen_app(self, head, args, b, env, ch, path, depth):
        s = self.s
        if head == '#': v = self.pick_uint(ch, path, 32, env=env); b.uint(v, 32); return v
        if head == '##': n = s.nat(args[0], env); v = self.pick_uint(ch, path, n, env=env); b.uint(v, n); return v
        if head == '#<=': n = s.nat(args[0], env); v = self.pick_uint(ch, path, n.bit_length(), 0, n, env=env); b.uint(v, n.bit_length()); return v
        if head == '#<':
            n = s.nat(args[0], env) - 1; v = self.pick_uint(ch, path, n.bit_length(), 0, n); b.uint(v, n.bit_length()); return v
        m = re.match(r'^(uint|int|bits)(\d*)$', head)
        if m and (m.group(2) or args):
            n = int(m.group(2)) if m.group(2) else s.nat(args[0], env)
            if m.group(1) == 'uint': v = self.pick_uint(ch, path, n, env=env); b.uint(v, n); return v
            if m.group(1) == 'int':
                if n == 0: return 0
                v = self.pick_int(ch, path, n); b.int(v, n); return v
            v = format(self.fill(n), f'0{n}b') if n else ''; b.put(v); return v
        if head in ('Cell', 'Any'):
            a = ch.choose(path + '/any', 3)
            if a == 0: bits, refs = format(self.fill(9), '09b'), ()
            elif a == 1: bits, refs = '', ()
            else: bits, refs = format(self.fill(5), '05b'), (RCell('101'),)
            b.put(bits); [b.ref(r) for r in refs]; return RCell(bits, refs)
        if head in env and not args and callable(env[head]): return env[head](b, ch, path, depth)
        if head in ('Hashmap', 'HashmapE', 'HashmapAug', 'HashmapAugE'): return self.gen_hashmap(head, args, b, env, ch, path, depth)
        if head == 'MERKLE_UPDATE': raise Invalid('merkle update not generated in prototype')
        if head not in s.types: raise TlbError(f'unknown type {head}')
        vals = []
        for a in args:
            if s.is_nat_expr(a, env): vals.append(s.nat(a, env))
            else: vals.append((lambda a_, env_: (lambda bb, chh, pp, dd: self.gen(a_, bb, env_, chh, pp, dd)))(a, env))
        cands = [(d, bnd) for d in s.types[head] for bnd in [s.match_params(d, vals)] if bnd is not None and d['tag'] is not None and d['name'] not in self.skip_ctors]
        if not cands: raise TlbError(f'no constructor for {head} {vals}')
        idx = 0
        if len(cands) > 1: idx = ch.choose(path + ':' + head, len(cands)) if depth < self.max_depth else 0
        d, bnd = cands[idx]
        b.put(d['tag'])
        v, _ = self.gen_fields(d['fields'], b, bnd, ch, path + '.' + (d['name'] or '_'), depth)
        v['@c'] = d['name']
        return v

    def bounds_for(self, name, fields, env):
        lo, hi = 0, None
        for f in fields:
            if f[0] != 'constraint': continue
            _, a, op, c = f
            if 'neg' in repr((a, c)): continue
            for x, o, y in ((a, op, c), (c, {'<=': '>=', '>=': '<=', '=': '=', '<': '>', '>': '<'}[op], a)):
                if x == name and self.s.is_nat_expr(y, env):
                    v = self.s.nat(y, env)
                    if o == '<=': hi = v if hi is None else min(hi, v)
                    elif o == '<': hi = v - 1 if hi is None else min(hi, v - 1)
                    elif o == '>=': lo = max(lo, v)
                    elif o == '>': lo = max(lo, v + 1)
                    elif o == '=': lo = max(lo, v); hi = v if hi is None else min(hi, v)
        return lo, hi

    def gen_fields(self, fields, b, env, ch, path, depth):
        s = self.s; out = {}
        for f in fields:
            if f[0] == 'field' and f[1]: env['@bounds'] = self.bounds_for(f[1], fields, env)
            else: env.pop('@bounds', None)
            if f[0] == 'implicit': continue
            if f[0] == 'constraint':
                _, a, op, c = f
                if 'neg' in repr((a, c)): continue
                av, cv = s.nat(a, env), s.nat(c, env)
                if not {'<=': av <= cv, '>=': av >= cv, '=': av == cv, '<': av < cv, '>': av > cv}[op]: raise Invalid(f'constraint {a}{op}{c}')
                continue
            _, name, ty = f
            v = self.gen(ty, b, env, ch, path + '/' + (name or '_'), depth)
            if name and name != '_':
                out[name] = v
                if isinstance(v, int) and not isinstance(v, bool): env[name] = v
            elif isinstance(v, dict) and '@c' not in v: out.update(v)
            else: out['_'] = v
        return out, env

    # dictionaries: key sets chosen by choice; encoded canonically
    def gen_hashmap(self, head, args, b, env, ch, path, depth):
        s = self.s; n = s.nat(args[0], env); X = args[1]; Y = args[2] if 'Aug' in head else None
        sizes = [1, 0, 2, 3] if head.endswith('E') else [1, 2, 3]
        sizes = [x for x in sizes if x <= self.max_dict]
        if depth >= self.max_depth: sizes = sizes[:2] if head.endswith('E') else sizes[:1]
        size = sizes[ch.choose(path + '/dictsize', len(sizes))]
        keys = sorted({(self.fill(n) if i else (self.fill(n) >> 1)) ^ ((i & 1) << (n - 1) if n else 0) for i in range(size)}) if n else [0][:size]
        keys = keys[:size]
        res = {}; extras = []
        def label(bb, lab, m):
            ln = len(lab); k = m.bit_length(); same = ln > 0 and len(set(lab)) == 1
            if same and ln > 1 and k < 2 * ln - 1: bb.put('11' + lab[0]); bb.uint(ln, k)
            elif k < ln: bb.put('10'); bb.uint(ln, k); bb.put(lab)
            else: bb.put('0' + '1' * ln + '0' + lab)
        def edge(bb, ks, m, prefix):
            # ks: list of bit strings of length m (suffixes)
            lcp = ks[0]
            for x in ks[1:]:
                i = 0
                while i < len(lcp) and lcp[i] == x[i]: i += 1
                lcp = lcp[:i]
            label(bb, lcp, m); m2 = m - len(lcp); pfx = prefix + lcp
            if m2 == 0:
                key = int(pfx, 2) if pfx else 0
                if Y is not None: extras.append(self.gen(Y, bb, env, ch, path + f'/extra', depth + 1))
                res[key] = self.gen(X, bb, env, ch, path + f'/val', depth + 1)
            else:
                for bit in '01':
                    sub = B(); edge(sub, [x[len(lcp) + 1:] for x in ks if x[len(lcp)] == bit], m2 - 1, pfx + bit); bb.ref(sub.cell())
                if Y is not None: extras.append(self.gen(Y, bb, env, ch, path + '/extra', depth + 1))
        kb = [format(k, f'0{n}b') if n else '' for k in keys]
        if head.endswith('E'):
            if not keys: b.put('0')
            else:
                b.put('1'); sub = B(); edge(sub, kb, n, ''); b.ref(sub.cell())
            root_extra = self.gen(Y, b, env, ch, path + '/rootextra', depth + 1) if Y is not None else None
            return {'dict': res, 'extras': extras, 'root_extra': root_extra} if Y is not None else res
        if not keys: raise Invalid('empty Hashmap')
        edge(b, kb, n, '')
        return {'dict': res, 'extras': extras} if Y is not None else res

def explore(gen_one, k):
    """deviation-bounded enumeration: yields (plan, result) for all plans with <= k non-default choices"""
    def rec(plan, start, left):
        ch = Chooser(plan)
        try: res = gen_one(ch)
        except (Invalid, Overflow) as e: res = e
        yield plan, ch, res
        if left == 0: return
        for i in range(start, len(ch.points)):
            label, n, a = ch.points[i]
            for alt in range(1, n):
                p = {j: v for j, v in plan.items() if j < i}; p[i] = alt
                yield from rec(p, i + 1, left - 1)
    yield from rec({}, 0, k)
