"""Reference TON Hashmap / HashmapAug (Patricia trie) model, from block.tlb and crypto/vm/dict.cpp.

Values are (bits:str, refs:tuple[RCell]).  Keys are ints of width n.
"""
import itertools
from .cell import RCell, RefCellError, PRUNED


class RefDictError(Exception):
    pass


def klen(m: int) -> int:
    return m.bit_length()


def canonical_kind(label: str, m: int) -> str:
    """TON's rule (dict.cpp append_dict_label[_same])"""
    n = len(label)
    k = klen(m)
    same = n > 0 and label == label[0] * n
    if same and n > 1 and k < 2 * n - 1:
        return 'same'
    if k < n:
        return 'long'
    return 'short'


def label_bits(label: str, m: int, kind: str) -> str:
    n = len(label)
    k = klen(m)
    assert n <= m
    if kind == 'short':
        return '0' + '1' * n + '0' + label
    if kind == 'long':
        return '10' + format(n, f'0{k}b') + label if k else '10' + label
    if kind == 'same':
        assert n == 0 or label == label[0] * n
        v = label[0] if n else '0'
        return '11' + v + (format(n, f'0{k}b') if k else '')
    raise ValueError(kind)


def valid_kinds(label: str, m: int):
    out = ['short', 'long']
    if label == (label[:1] * len(label)):
        out.append('same')
    return out


def _norm_value(v):
    if isinstance(v, str):
        return (v, ())
    return (v[0], tuple(v[1]))


def _keybits(k: int, n: int) -> str:
    if k < 0 or k >= (1 << n):
        raise RefDictError('key out of range')
    return format(k, f'0{n}b') if n else ''


def _lcp(keys):
    a, b = min(keys), max(keys)
    i = 0
    while i < len(a) and a[i] == b[i]:
        i += 1
    return a[:i]


def build(mapping: dict, n: int, chooser=None, aug=None):
    """canonical (chooser None) or chosen-label-kind encoding.  mapping: {int: value}.
    chooser(path:str, label:str, m:int) -> kind.
    aug: None or (leaf_extra(value)->bits | (bits, refs), fork_extra(left_extra, right_extra)->bits | (bits, refs)): builds HashmapAug
    returns RCell (the root edge cell)"""
    if not mapping:
        raise RefDictError('empty map has no cell')
    items = {_keybits(k, n): _norm_value(v) for k, v in mapping.items()}
    cell, _ = _edge(items, n, '', chooser, aug)
    return cell


def _edge(items, m, path, chooser, aug):
    keys = list(items)
    label = _lcp(keys) if len(keys) > 1 else keys[0]
    kind = chooser(path, label, m) if chooser else canonical_kind(label, m)
    lb = label_bits(label, m, kind)
    rest = {k[len(label):]: v for k, v in items.items()}
    m2 = m - len(label)
    if len(rest) == 1:
        (vb, vr), = rest.values()
        if aug:
            extra = aug[0]((vb, vr))
            xb, xr = extra if isinstance(extra, tuple) else (extra, ())      # an extra may own references (they precede the value's)
            bits, refs = lb + xb + vb, tuple(xr) + tuple(vr)
        else:
            extra = None
            bits, refs = lb + vb, vr
    else:
        left = {k[1:]: v for k, v in rest.items() if k[0] == '0'}
        right = {k[1:]: v for k, v in rest.items() if k[0] == '1'}
        lc, le = _edge(left, m2 - 1, path + label + '0', chooser, aug)
        rc, re = _edge(right, m2 - 1, path + label + '1', chooser, aug)
        if aug:
            extra = aug[1](le, re)
            xb, xr = extra if isinstance(extra, tuple) else (extra, ())      # ahmn_fork: left, right, then the extra's references
            bits, refs = lb + xb, (lc, rc) + tuple(xr)
        else:
            extra = None
            bits, refs = lb, (lc, rc)
    try:
        return RCell(bits, refs), extra
    except RefCellError as e:
        raise RefDictError(f'does not fit a cell: {e}')


def edges(mapping: dict, n: int):
    """list of (path, label, m) for every edge of the canonical trie, in pre-order"""
    items = {_keybits(k, n): 1 for k in mapping}
    out = []

    def rec(items, m, path):
        keys = list(items)
        label = _lcp(keys) if len(keys) > 1 else keys[0]
        out.append((path, label, m))
        rest = [k[len(label):] for k in keys]
        if len(rest) > 1:
            rec({k[1:]: 1 for k in rest if k[0] == '0'}, m - len(label) - 1, path + label + '0')
            rec({k[1:]: 1 for k in rest if k[0] == '1'}, m - len(label) - 1, path + label + '1')
    rec(items, n, '')
    return out


# ------------------------------------------------------------------ parsing
def read_label(bits: str, pos: int, m: int):
    """-> (label, new pos, kind)"""
    k = klen(m)

    def need(n):
        if pos + n > len(bits):
            raise RefDictError('label runs past the cell data')
    need(1)
    if bits[pos] == '0':
        q = pos + 1
        n = 0
        while True:
            if q >= len(bits):
                raise RefDictError('unary length runs past the data')
            if bits[q] == '0':
                break
            n += 1
            q += 1
        q += 1
        if q + n > len(bits) or n > m:
            raise RefDictError('short label too long')
        return bits[q:q + n], q + n, 'short'
    need(2)
    if bits[pos + 1] == '0':
        q = pos + 2
        if q + k > len(bits):
            raise RefDictError('long label length')
        n = int(bits[q:q + k], 2) if k else 0
        q += k
        if n > m or q + n > len(bits):
            raise RefDictError('long label too long')
        return bits[q:q + n], q + n, 'long'
    q = pos + 2
    if q + 1 + k > len(bits):
        raise RefDictError('same label')
    v = bits[q]
    n = int(bits[q + 1:q + 1 + k], 2) if k else 0
    if n > m:
        raise RefDictError('same label too long')
    return v * n, q + 1 + k, 'same'


def parse(cell: RCell, n: int, aug_extra_len=None, kinds=None, aug_extra_refs=0):
    """plain (aug_extra_len None) or augmented parse.  Pruned-branch subtrees are skipped.
    -> (leaves {int: (bits, refs)}, extras list in post-order [leaf extras / fork extras]) ; kinds: optional
    list collecting (path, kind).  aug_extra_refs = k: every extra also owns k references (ahmn_leaf: extra's references,
    then the value's; ahmn_fork: left, right, then the extra's) and is reported as (bits, refs)"""
    leaves = {}
    extras = []
    xr = aug_extra_refs if aug_extra_len is not None else 0

    def rec(c, m, prefix):
        if c.special:
            if c.type == PRUNED:
                return
            raise RefDictError('unexpected exotic cell inside a dictionary')
        label, pos, kind = read_label(c.bits, 0, m)
        if kinds is not None:
            kinds.append((prefix, kind))
        prefix2 = prefix + label
        m2 = m - len(label)
        if m2 == 0:
            if aug_extra_len is not None:
                if len(c.refs) < xr:
                    raise RefDictError('leaf extra references missing')
                extras.append((c.bits[pos:pos + aug_extra_len], c.refs[:xr]) if xr else c.bits[pos:pos + aug_extra_len])
                pos += aug_extra_len
            leaves[int(prefix2, 2) if prefix2 else 0] = (c.bits[pos:], c.refs[xr:])
        else:
            if len(c.refs) != 2 + xr:
                raise RefDictError('fork without two references')
            rec(c.refs[0], m2 - 1, prefix2 + '0')
            rec(c.refs[1], m2 - 1, prefix2 + '1')
            if aug_extra_len is not None:
                if len(c.bits) - pos != aug_extra_len:
                    raise RefDictError('fork extra length')
                extras.append((c.bits[pos:], c.refs[2:]) if xr else c.bits[pos:])
            elif pos != len(c.bits):
                raise RefDictError('fork with trailing data')
    rec(cell, n, '')
    return leaves, extras


def nodes(cell: RCell):
    """all cells of a dictionary tree with their paths (list of child indexes), pre-order"""
    out = []

    def rec(c, path):
        out.append((path, c))
        if not c.special:
            for i, r in enumerate(c.refs[:2] if len(c.refs) >= 2 else ()):
                rec(r, path + (i,))
    rec(cell, ())
    return out


def selftest():
    # label-kind rule pinned on the three tie-break boundaries
    assert canonical_kind('', 8) == 'short'
    assert canonical_kind('1', 8) == 'short'
    assert canonical_kind('11', 2) == 'same'            # k=2 < 2*2-1=3
    assert canonical_kind('11', 4) == 'short'           # k=3 not < 3 ; k<n? 3<2 no
    assert canonical_kind('10101', 8) == 'long'         # k=4 < 5
    assert canonical_kind('1010', 8) == 'short'         # k=4 not < 4
    m = {5: '10101010', 7: '11110000', 200: '00001111'}
    c = build(m, 8)
    leaves, _ = parse(c, 8)
    assert {k: v[0] for k, v in leaves.items()} == m
