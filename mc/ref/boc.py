"""Reference serialized_boc codec (independent of pytoniq_core), from crypto/tl/boc.tlb and
crypto/vm/boc.cpp.

decode(): STRICT decoder - rejects everything the format forbids.
encode(): fully parametrised encoder - every freedom a conforming writer has.
"""
from .cell import RCell, RefCellError, topo
from .crc import crc32c

MAGIC_GENERIC = bytes.fromhex('b5ee9c72')
MAGIC_IDX = bytes.fromhex('68ff65f3')
MAGIC_IDX_CRC = bytes.fromhex('acc3a728')


class BocFormatError(Exception):
    pass


def _need(c, msg):
    if not c:
        raise BocFormatError(msg)


def decode(data: bytes, strict_index=True):
    """-> (roots: [RCell], info: dict).  info['cells'] = RCells in file order, info['raw'] = per-cell
    (d1, d2, ref indexes)"""
    _need(len(data) >= 6, 'short')
    magic = data[:4]
    if magic == MAGIC_GENERIC:
        fl = data[4]
        has_idx, has_crc, has_cache, flags, size = fl >> 7, (fl >> 6) & 1, (fl >> 5) & 1, (fl >> 3) & 3, fl & 7
        _need(flags == 0, 'flags != 0')
        _need(not has_cache or has_idx, 'cache bits without index')
        generic = True
    elif magic == MAGIC_IDX:
        has_idx, has_crc, has_cache, size, generic = 1, 0, 0, data[4], False
    elif magic == MAGIC_IDX_CRC:
        has_idx, has_crc, has_cache, size, generic = 1, 1, 0, data[4], False
    else:
        raise BocFormatError('magic')
    _need(1 <= size <= 4, 'size')
    off = data[5]
    _need(1 <= off <= 8, 'off_bytes')
    p = 6

    def rd(n):
        nonlocal p
        _need(p + n <= len(data), 'truncated')
        v = int.from_bytes(data[p:p + n], 'big')
        p += n
        return v
    cells, roots, absent = rd(size), rd(size), rd(size)
    _need(cells >= 1, 'no cells')
    _need(roots >= 1, 'roots')
    _need(roots + absent <= cells, 'roots+absent<=cells')
    _need(absent == 0, 'absent unsupported')
    tot = rd(off)
    if generic:
        root_list = [rd(size) for _ in range(roots)]
    else:
        _need(roots == 1, 'legacy roots')
        root_list = [0]
    for r in root_list:
        _need(r < cells, 'root index')
    index = [rd(off) for _ in range(cells)] if has_idx else None
    _need(p + tot <= len(data), 'truncated cells')
    cd = data[p:p + tot]
    p += tot
    if has_crc:
        _need(p + 4 <= len(data), 'no crc')
        _need(crc32c(data[:p]) == data[p:p + 4], 'crc')
        p += 4
    _need(p == len(data), 'trailing bytes')
    raw = []
    q = 0
    ends = []
    for i in range(cells):
        _need(q + 2 <= len(cd), 'cell hdr')
        d1, d2 = cd[q], cd[q + 1]
        q += 2
        nrefs, special, with_hashes, mask = d1 & 7, (d1 >> 3) & 1, (d1 >> 4) & 1, d1 >> 5
        _need(nrefs <= 4, 'refs>4')
        stored = None
        if with_hashes:
            n = bin(mask).count('1') + 1
            _need(q + n * 34 <= len(cd), 'stored hashes')
            stored = (cd[q:q + 32 * n], cd[q + 32 * n:q + 34 * n])
            q += n * 34
        nbytes = (d2 + 1) // 2
        _need(q + nbytes + nrefs * size <= len(cd), 'cell body')
        b = ''.join(f'{x:08b}' for x in cd[q:q + nbytes])
        q += nbytes
        if d2 & 1:
            _need(b.rstrip('0').endswith('1'), 'no completion tag')
            b = b.rstrip('0')[:-1]
            _need(len(b) // 8 == d2 // 2, 'tag not in last byte')
        refs = [int.from_bytes(cd[q + k * size: q + (k + 1) * size], 'big') for k in range(nrefs)]
        q += nrefs * size
        for r in refs:
            _need(i < r < cells, f'ref {r} of cell {i} not forward')
        raw.append((b, refs, bool(special), mask, stored, d1, d2))
        ends.append(q)
    _need(q == len(cd), 'cell data size')
    if index is not None and strict_index:
        for i, e in enumerate(ends):
            _need(index[i] >> has_cache == e, f'index[{i}]={index[i]} expected {e << has_cache}')
    built = [None] * cells
    for i in reversed(range(cells)):
        b, refs, sp, mask, stored, d1, d2 = raw[i]
        try:
            built[i] = RCell(b, tuple(built[r] for r in refs), sp)
        except RefCellError as e:
            raise BocFormatError(f'invalid cell {i}: {e}')
        _need(built[i].mask == mask, f'level mask in d1 of cell {i}')
        if stored is not None:
            sig = [l for l in range(4) if l == 0 or (mask >> (l - 1)) & 1]
            hs = b''.join(built[i].hash(l) for l in sig)
            ds = b''.join(built[i].depth(l).to_bytes(2, 'big') for l in sig)
            _need(stored == (hs, ds), f'stored hashes of cell {i}')
    hs = [(c.hash(), c.special) for c in built]
    _need(len(set(hs)) == len(hs), 'duplicate cell')
    # every cell must be reachable from some root
    reach = set()
    stack = list(root_list)
    while stack:
        i = stack.pop()
        if i not in reach:
            reach.add(i)
            stack.extend(raw[i][1])
    _need(len(reach) == cells, 'unreachable cells')
    info = dict(has_idx=has_idx, has_crc=has_crc, has_cache=has_cache, size=size, off=off, cells=built, n=cells,
                raw=raw, index=index, ends=ends, root_list=root_list, tot=tot)
    return [built[r] for r in root_list], info


def min_bytes(v):
    return max(1, (v.bit_length() + 7) // 8)


def encode(roots, order=None, size=None, off=None, has_idx=False, has_cache=False, has_crc=False, magic='generic',
           with_hashes=lambda c: False, cache_flag=lambda i: 0, root_idx=None, raw_patch=None, stored_patch=None):
    """roots: list of RCell.  order: list of RCell (a linear extension containing every reachable
    cell exactly once; default: reference topological order).  root_idx: explicit root index list
    (default: positions of `roots` in order).  raw_patch(i, refs) -> refs allows the caller to
    corrupt reference indexes (for the negative cases of C05)."""
    if order is None:
        order = topo(roots)
    pos = {}
    for i, c in enumerate(order):
        pos[(c.hash(), c.special)] = i
    n = len(order)
    size = size or min_bytes(n)
    assert n < (1 << (8 * size))
    blobs = []
    for i, c in enumerate(order):
        wh = bool(with_hashes(c))
        d1 = len(c.refs) + 8 * c.special + 16 * wh + 32 * c.mask
        body = bytes([d1, c.d2()])
        if wh:
            sig = [l for l in range(4) if l == 0 or (c.mask >> (l - 1)) & 1]
            hs, ds = [c.hash(l) for l in sig], [c.depth(l) for l in sig]
            if stored_patch:                       # stored_patch(i, hashes, depths) -> (hashes, depths): a bag whose STORED values are not the real ones
                hs, ds = stored_patch(i, hs, ds)
            body += b''.join(hs) + b''.join(d.to_bytes(2, 'big') for d in ds)
        body += c.data_bytes()
        refs = [pos[(r.hash(), r.special)] for r in c.refs]
        if raw_patch:
            refs = raw_patch(i, refs)
        for r in refs:
            body += r.to_bytes(size, 'big')
        blobs.append(body)
    payload = b''.join(blobs)
    need = len(payload) * (2 if has_cache else 1) + (1 if has_cache else 0)
    off = off or min_bytes(need)
    assert need < (1 << (8 * off))
    if root_idx is None:
        root_idx = [pos[(r.hash(), r.special)] for r in roots]
    if magic == 'generic':
        out = MAGIC_GENERIC + bytes([(has_idx << 7) | (has_crc << 6) | (has_cache << 5) | size])
    else:
        assert has_idx and not has_cache and root_idx == [0]
        out = (MAGIC_IDX_CRC if has_crc else MAGIC_IDX) + bytes([size])
    out += bytes([off]) + n.to_bytes(size, 'big') + len(root_idx).to_bytes(size, 'big') + (0).to_bytes(size, 'big')
    out += len(payload).to_bytes(off, 'big')
    if magic == 'generic':
        for r in root_idx:
            out += r.to_bytes(size, 'big')
    if has_idx:
        end = 0
        for i, b in enumerate(blobs):
            end += len(b)
            out += ((end << 1 | (cache_flag(i) & 1)) if has_cache else end).to_bytes(off, 'big')
    out += payload
    if has_crc:
        out += crc32c(out)
    return out


def linear_extensions(order_cells, limit=None):
    """all topological orders (parents before children) of the given distinct cells"""
    key = lambda c: (c.hash(), c.special)
    cells = {key(c): c for c in order_cells}
    parents = {k: set() for k in cells}
    for k, c in cells.items():
        for r in c.refs:
            parents[key(r)].add(k)
    out = []

    def rec(done, seq):
        if limit and len(out) >= limit:
            return
        if len(seq) == len(cells):
            out.append(list(seq))
            return
        for k in cells:
            if k not in done and parents[k] <= done:
                done.add(k)
                seq.append(cells[k])
                rec(done, seq)
                seq.pop()
                done.discard(k)
    rec(set(), [])
    return out


def selftest():
    empty = RCell('')
    assert encode([empty]).hex() == 'b5ee9c72010101010002000000'
    r, _ = decode(bytes.fromhex('b5ee9c72010101010002000000'))
    assert r[0].hash() == empty.hash()
    # round trip of a small DAG under every option set
    a = RCell('101')
    b = RCell('11110000', (a, a))
    c = RCell('1', (b, a))
    for idx, cache, crc in ((0, 0, 0), (1, 0, 0), (1, 1, 0), (0, 0, 1), (1, 0, 1), (1, 1, 1)):
        by = encode([c], has_idx=bool(idx), has_cache=bool(cache), has_crc=bool(crc), with_hashes=lambda x: x is b)
        rr, info = decode(by)
        assert rr[0].hash() == c.hash() and info['n'] == 3
