"""Bit-at-a-time CRC-16/XMODEM and CRC-32C (Castagnoli), from their catalogue definitions."""


def crc16_step(crc: int, byte: int) -> int:
    crc ^= byte << 8
    for _ in range(8):
        crc = ((crc << 1) ^ 0x1021) & 0xFFFF if crc & 0x8000 else (crc << 1) & 0xFFFF
    return crc


def crc16(data: bytes) -> bytes:
    crc = 0
    for b in data:
        crc = crc16_step(crc, b)
    return crc.to_bytes(2, 'big')


def crc32c_step(crc: int, byte: int) -> int:
    crc ^= byte
    for _ in range(8):
        crc = (crc >> 1) ^ 0x82F63B78 if crc & 1 else crc >> 1
    return crc


def crc32c(data: bytes, order='little') -> bytes:
    crc = 0xFFFFFFFF
    for b in data:
        crc = crc32c_step(crc, b)
    return (crc ^ 0xFFFFFFFF).to_bytes(4, order)


def selftest():
    assert crc16(b'123456789') == bytes.fromhex('31c3')
    assert crc32c(b'123456789', 'big') == bytes.fromhex('e3069283')
    assert crc32c(b'123456789', 'little') == bytes.fromhex('e3069283')[::-1]
