"""Bit-at-a-time CRC-16/XMODEM and CRC-32C (Castagnoli), from their catalogue definitions."""


def crc16_step(crc: int, byte: int) -> int:
    crc ^= byte << 8
    for _ in range(8):
        crc = ((crc << 1) ^ 0x1021) & 0xFFFF if crc & 0x8000 else (crc << 1) & 0xFFFF
    return crc


def crc16(data: bytes) -> bytes:
    crc = 0
    for b in data:
        crc = crc16_step(crc, b)
    return crc.to_bytes(2, 'big')


def crc32c_step(crc: int, byte: int) -> int:
    crc ^= byte
    for _ in range(8):
        crc = (crc >> 1) ^ 0x82F63B78 if crc & 1 else crc >> 1
    return crc


def crc32c(data: bytes, order='little') -> bytes:
    crc = 0xFFFFFFFF
    for b in data:
        crc = crc32c_step(crc, b)
    return (crc ^ 0xFFFFFFFF).to_bytes(4, order)


# Table forms DERIVED from the bitwise step functions above (one table entry = the step applied to one byte); used only for long
# inputs, where a bit-at-a-time loop in Python is too slow; the self-test ties them to the bitwise definitions.
_T16 = [crc16_step(0, b) for b in range(256)]
_T32 = [crc32c_step(b, 0) for b in range(256)]


def crc16_fast(data: bytes) -> bytes:
    crc = 0
    t = _T16
    for b in data:
        crc = ((crc << 8) & 0xFFFF) ^ t[(crc >> 8) ^ b]
    return crc.to_bytes(2, 'big')


def crc32c_fast(data: bytes, order='little') -> bytes:
    crc = 0xFFFFFFFF
    t = _T32
    for b in data:
        crc = (crc >> 8) ^ t[(crc ^ b) & 0xFF]
    return (crc ^ 0xFFFFFFFF).to_bytes(4, order)


def selftest():
    import hashlib
    for n in list(range(0, 70)) + [255, 256, 257, 1000, 4099]:
        d = (hashlib.sha256(str(n).encode()).digest() * (n // 32 + 1))[:n]
        assert crc16_fast(d) == crc16(d) and crc32c_fast(d) == crc32c(d) and crc32c_fast(d, 'big') == crc32c(d, 'big'), n
    for a in range(256):
        for b in (0, 1, 0x80, 0xff):
            d = bytes([a, b, a ^ 0x5a])
            assert crc16_fast(d) == crc16(d) and crc32c_fast(d) == crc32c(d)
    assert crc16(b'123456789') == bytes.fromhex('31c3')
    assert crc32c(b'123456789', 'big') == bytes.fromhex('e3069283')
    assert crc32c(b'123456789', 'little') == bytes.fromhex('e3069283')[::-1]
