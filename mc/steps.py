"""Deterministic work metric: number of Python LINE events executed inside the code under test
(files below mc.repo.REPO/pytoniq_core) during one call, counted with sys.monitoring (3.12+).
When the budget is exceeded the callback raises StepBudgetExceeded *inside* the monitored call, so
an exponential or count-field-driven run is cut off at the budget instead of running for hours.

The count does not depend on wall-clock time, machine load or the number of worker processes:
the same input gives the same count on every run (this is asserted by the C19 check itself).
"""
import sys
from . import repo

mon = sys.monitoring
TOOL = 3            # sys.monitoring.PROFILER_ID is 2; 3 is OPTIMIZER_ID - free in this process


class StepBudgetExceeded(BaseException):
    """BaseException: the code under test must not be able to swallow it with `except Exception`"""


class _State:
    count = 0
    budget = None
    active = False
    prefix = None
    installed = False


def _on_line(code, line):
    if not code.co_filename.startswith(_State.prefix):
        return mon.DISABLE
    _State.count += 1
    if _State.budget is not None and _State.count > _State.budget:
        b = _State.budget
        _State.budget = None       # raise once; the unwinding code is not charged
        raise StepBudgetExceeded(b)


def _install():
    if _State.installed:
        return
    _State.prefix = repo.REPO + '/pytoniq_core/'
    try:
        mon.use_tool_id(TOOL, 'mc-steps')
    except ValueError:
        pass
    mon.register_callback(TOOL, mon.events.LINE, _on_line)
    _State.installed = True


def measure(fn, budget=None):
    """run fn() counting steps.  returns (steps, result, exception, exceeded)"""
    _install()
    _State.count = 0
    _State.budget = budget
    mon.set_events(TOOL, mon.events.LINE)
    res = exc = None
    exceeded = False
    try:
        res = fn()
    except StepBudgetExceeded:
        exceeded = True
    except Exception as e:      # noqa - outcome of the code under test
        exc = e
    finally:
        mon.set_events(TOOL, 0)
        _State.budget = None
    return _State.count, res, exc, exceeded


def measure_mem(fn, budget=None):
    """like measure(), and additionally the peak number of bytes allocated (above the level at entry) during the call,
    taken from tracemalloc.  LINE events do not see work done inside ONE C-level operation (`'1' * n`, bitarray(n bits),
    a copy of an n-bit prefix); allocating and filling N bytes is at least N units of work, so the peak is a second,
    equally deterministic, lower bound on the work (garbage of earlier calls that is freed during this one can only lower it).  returns (steps, peak_bytes, result, exception, exceeded)"""
    import tracemalloc
    started = not tracemalloc.is_tracing()
    if started:
        tracemalloc.start(1)
    base = tracemalloc.get_traced_memory()[0]
    tracemalloc.reset_peak()
    # a call that allocates without end is cut short by an address-space cap for the duration of the call (current size + 128 MiB): the
    # MemoryError ends it, the peak measured up to there is far above every budget.  Without the cap such a call runs for minutes under
    # tracemalloc before the process limit stops it (a seeded change made whole shards time out that way, wave 10)
    old_limit = None
    try:
        import resource
        with open('/proc/self/statm') as f:
            cur = int(f.read().split()[0]) * resource.getpagesize()
        old_limit = resource.getrlimit(resource.RLIMIT_AS)
        cap = cur + (128 << 20)
        if old_limit[0] == resource.RLIM_INFINITY or cap < old_limit[0]:
            resource.setrlimit(resource.RLIMIT_AS, (cap, old_limit[1]))
        else:
            old_limit = None
    except Exception:
        old_limit = None
    try:
        st, res, exc, exceeded = measure(fn, budget)
        peak = tracemalloc.get_traced_memory()[1] - base
    finally:
        if old_limit is not None:
            import resource
            resource.setrlimit(resource.RLIMIT_AS, old_limit)
        if started:
            tracemalloc.stop()
    return st, max(0, peak), res, exc, exceeded
