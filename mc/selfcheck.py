"""setup_cmd: nothing to build (pure Python).  Verifies the environment offline: interpreter, the
repository import binding, reference-model self-tests and independence (mc/ref never imports the
code under test)."""
import os, re, sys


def main():
    root = os.path.dirname(os.path.abspath(__file__))
    bad = []
    for dp, _, fs in os.walk(os.path.join(root, 'ref')):
        for f in fs:
            if f.endswith('.py'):
                src = open(os.path.join(dp, f)).read()
                if re.search(r'^\s*(from|import)\s+pytoniq_core', src, re.M):
                    bad.append(f)
    if bad:
        print('reference models import the code under test:', bad)
        sys.exit(2)
    from . import repo
    repo.bind()
    from .ref import crc, cell
    crc.selftest()
    assert cell.RCell('').hash().hex() == '96a296d224f285c67bee93c30f8a309157f0daa35dc5b87e410b78630a09cfc7'
    os.makedirs(os.path.join(os.path.dirname(root), 'evidence'), exist_ok=True)
    print('selfcheck ok: python', sys.version.split()[0], 'repo', repo.REPO)


if __name__ == '__main__':
    main()
