import json, os

ROOT = os.path.dirname(os.path.dirname(os.path.abspath(__file__)))


def write(mod, tier, seed, merged, n_viol, known, tree):
    states = len(merged['states']) + merged['state_bulk']
    nontrivial = len(merged['nontrivial']) + merged['nontrivial_bulk']
    bounds = mod.BOUNDS(tier) if hasattr(mod, 'BOUNDS') else {}
    cov = {
        'evaluations': merged['evaluations'],
        'distinct_nontrivial': nontrivial,
        'rule': mod.RULE,
        'samples': merged['samples'] or ['(no samples recorded)'],
        'states': max(states, 0),
        'transitions': merged['transitions'],
        'traces_validated_against_impl': merged['traces'],
        'exhaustive': bool(bounds.get('exhaustive', True)),
        'bounds': bounds,
        'explorer': getattr(mod, 'EXPLORER', ''),
        'per_subcheck_evaluations': dict(sorted(merged['sub'].items())),
        'distinct_outcomes': len(merged['outcomes']),
        'outcome_histogram_top': dict(merged['outcomes'].most_common(12)),
        'coverage_tags': sorted(merged['cover']),
        'max_depth': merged['max_depth'],
        'shards': merged['shards'],
        'not_asserted': getattr(mod, 'NOT_ASSERTED', []),
        'known_findings_reported': known,
        'tree': tree,
        'notes': merged['notes'],
    }
    ev = {
        'property_id': mod.ID,
        'tier': tier,
        'seed': seed,
        'level': 'model_checking',
        'coverage': cov,
        'assumptions': list(getattr(mod, 'ASSUMPTIONS', [])),
        'wall_s': round(merged['wall'], 2),
        'violations': n_viol,
    }
    os.makedirs(os.path.join(ROOT, 'evidence'), exist_ok=True)
    p = os.path.join(ROOT, 'evidence', f'{mod.ID}.json')
    tmp = p + '.tmp'
    with open(tmp, 'w') as f:
        json.dump(ev, f, indent=1, sort_keys=False, default=str)
        f.write('\n')
    os.replace(tmp, p)
    return p
