"""Bind the checks to the *current working tree* of the repository under test.

pytoniq-core is pure Python: "rebuild" == "import the sources as they are now".  $PYTONIQ_REPO
(default /repo) is put first on sys.path, byte-code caching is disabled (a stale __pycache__ can never be
picked up), and we abort (exit 2: harness error, never a VIOLATION) unless pytoniq_core really
comes from that root.
"""
import os, sys

REPO = os.path.realpath(os.environ.get('PYTONIQ_REPO', '/repo'))
GUARD = 'PYTONIQ_CORE_VERIF'


def bind():
    sys.dont_write_bytecode = True
    os.environ.setdefault(GUARD, '1')
    if REPO in sys.path:
        sys.path.remove(REPO)
    sys.path.insert(0, REPO)
    for m in list(sys.modules):
        if m == 'pytoniq_core' or m.startswith('pytoniq_core.'):
            del sys.modules[m]
    import importlib
    importlib.invalidate_caches()
    import pytoniq_core
    f = os.path.realpath(pytoniq_core.__file__)
    if not f.startswith(REPO + os.sep):
        sys.stderr.write(f'HARNESS-ERROR pytoniq_core imported from {f}, expected under {REPO}\n')
        sys.exit(2)
    return pytoniq_core


def tree_id():
    """short identifier of the bound tree (git HEAD + dirty flag), informational"""
    import subprocess
    try:
        h = subprocess.run(['git', '-C', REPO, 'rev-parse', '--short', 'HEAD'], capture_output=True, text=True).stdout.strip()
        d = subprocess.run(['git', '-C', REPO, 'status', '--porcelain', '--untracked-files=no'], capture_output=True, text=True).stdout.strip()
        return h + ('+dirty' if d else '')
    except Exception:
        return 'unknown'
