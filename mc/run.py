"""Entry point:   /venv/bin/python -m mc.run C07 [--tier quick|thorough] [--replay file] [--only substr]

exit 0  property held on everything explored (KNOWN-FINDING lines possible)
exit 1  violation(s): one line "VIOLATION property=<id> replay=<path>" each
exit 2  harness error (reference self-test failed, shard crashed, vacuous coverage) - never a verdict
"""
import argparse, json, os, sys, time


def main():
    if os.environ.get('PYTHONHASHSEED') != '0':
        os.environ['PYTHONHASHSEED'] = '0'
        os.execv(sys.executable, [sys.executable, '-m', 'mc.run'] + sys.argv[1:])
    ap = argparse.ArgumentParser()
    ap.add_argument('prop')
    ap.add_argument('--tier', default=os.environ.get('VERIF_TIER', 'quick'), choices=['quick', 'thorough'])
    ap.add_argument('--replay')
    ap.add_argument('--only')
    ap.add_argument('--workers', type=int, default=None)
    ap.add_argument('--no-evidence', action='store_true')
    a = ap.parse_args()
    try:
        seed = int(os.environ.get('VERIF_SEED', '0') or 0)
    except ValueError:
        seed = 0
    root = os.path.dirname(os.path.dirname(os.path.abspath(__file__)))
    os.chdir(root)
    from . import repo, engine, evidence, findings
    repo.bind()
    pid = a.prop.upper()
    modname = f'mc.props.{pid.lower()}'

    if a.replay:
        rec = json.load(open(a.replay))
        viols = engine.replay_one(modname, rec.get('tier', a.tier), rec.get('seed', seed), rec['replay'])
        hit = [v for v in viols if v['key'] == rec['key']] or viols
        if hit:
            print(f"VIOLATION property={pid} replay={a.replay}")
            print('  ' + hit[0]['key'] + ': ' + hit[0]['msg'])
            sys.exit(1)
        print(f'replay {a.replay}: no violation on this tree')
        sys.exit(0)

    import importlib
    mod = importlib.import_module(modname)
    # reference self-tests (pinned external vectors): failure is a harness error, not a verdict
    if hasattr(mod, 'selftest'):
        try:
            mod.selftest()
        except Exception as e:
            import traceback
            traceback.print_exc()
            print(f'HARNESS-ERROR property={pid} reference self-test failed: {e!r}')
            sys.exit(2)
    mod, merged = engine.run_property(modname, a.tier, seed, workers=a.workers, only=a.only)
    if merged['errors']:
        for e in merged['errors'][:3]:
            print(f"HARNESS-ERROR property={pid} shard {e['shard']} crashed:\n{e['traceback']}")
        sys.exit(2)

    if hasattr(mod, 'finalize') and not a.only:
        merged['violations'] += mod.finalize(merged)
    known = findings.known_keys(pid)
    # de-duplicate by key, keep first (smallest shard index)
    uniq = {}
    for v in merged['violations']:
        uniq.setdefault(v['key'], v)
    reported_known, real = [], []
    for k, v in uniq.items():
        if k in known:
            reported_known.append(k)
        else:
            real.append(v)
    for k in reported_known:
        print(f"KNOWN-FINDING: property={pid} {k}: {known[k].get('what', '')}")
    os.makedirs('replays', exist_ok=True)
    n = 0
    for v in real:
        n += 1
        # confirm once in this (parent) process from the replay record alone
        try:
            again = engine.replay_one(modname, a.tier, seed, v['replay'])
            reproduced = any(x['key'] == v['key'] for x in again)
        except BaseException as e:   # noqa
            reproduced = False
        import hashlib
        name = f"replays/{pid}-{hashlib.sha1(v['key'].encode()).hexdigest()[:10]}.json"
        with open(name, 'w') as f:
            json.dump({'property': pid, 'key': v['key'], 'msg': v['msg'], 'tier': a.tier, 'seed': seed,
                       'reproduced_in_parent': reproduced, 'replay': v['replay']}, f, indent=1, default=str)
        if n <= 40:
            print(f"VIOLATION property={pid} replay={name}")
            print(f"  {v['key']}: {v['msg'][:600]}" + ('' if reproduced else '   [not reproduced when replayed alone: history-dependent]'))
    if n > 40:
        print(f'... {n - 40} more violations (replay files written)')

    # anti-vacuity
    missing = set()
    if hasattr(mod, 'REQUIRED_COVER') and not a.only:
        missing = set(mod.REQUIRED_COVER(a.tier)) - merged['cover']
    if not a.no_evidence and not a.only:
        p = evidence.write(mod, a.tier, seed, merged, n, reported_known, repo.tree_id())
    states = len(merged['states']) + merged['state_bulk']
    print(f"{pid} tier={a.tier} seed={seed} shards={merged['shards']} evaluations={merged['evaluations']} states={states} "
          f"transitions={merged['transitions']} traces={merged['traces']} outcomes={len(merged['outcomes'])} "
          f"violations={n} known={len(reported_known)} wall={merged['wall']:.1f}s")
    if os.environ.get('VERIF_VERBOSE'):
        for w in sorted(merged['shard_walls'], key=lambda x: -x[0])[:8]:
            print('   shard', w)
        print('   sub', dict(merged['sub']))
    if missing and n == 0:
        print(f'HARNESS-ERROR property={pid} vacuous run: coverage tags never produced: {sorted(missing)[:20]}')
        sys.exit(2)
    sys.exit(1 if n else 0)


if __name__ == '__main__':
    main()
