"""Shared machinery of the three explorers.

A property module (mc/props/cXX.py) exposes

    ID, TITLE, RULE, ASSUMPTIONS, BOUNDS(tier) -> dict
    shards(tier, seed) -> [ {'fn': <name of a module-level function>, 'args': {...}} , ... ]
    REQUIRED_COVER(tier) -> set of coverage tags that the run must have produced (anti-vacuity)

and shard functions  fn(rec, **args)  that enumerate their slice of the space *completely*,
run the real code and compare it with the reference model, recording into `rec` (Recorder).
Shards are executed in forked worker processes; results are merged in shard order, so the first
reported counterexample is the one with the smallest shard index / smallest case index.

Every violation carries a self-contained replay record {'fn', 'args'}: running that function alone
with a fresh Recorder must reproduce a violation with the same key (this is what --replay does, and
what the parent does once before reporting).
"""
import hashlib, importlib, json, multiprocessing, os, signal, sys, time, traceback, contextlib, collections

MAX_VIOL_PER_SHARD = 25
MAX_SAMPLES = 6


class CaseTimeout(BaseException):
    """raised by the wall-clock guard inside a running case (BaseException so that the code under
    test cannot swallow it with `except Exception`)"""


STUCK_SECONDS = 120


class ShardTimeout(BaseException):
    pass


def h64(token) -> int:
    if not isinstance(token, (bytes, bytearray)):
        token = repr(token).encode()
    return int.from_bytes(hashlib.blake2b(token, digest_size=8).digest(), 'big')


class Recorder:
    def __init__(self, prop, tier, seed):
        self.prop = prop
        self.tier = tier
        self.seed = seed
        self.evaluations = 0
        self.transitions = 0
        self.traces = 0
        self.states = set()          # 64-bit hashes of canonical states / inputs
        self.state_bulk = 0          # states counted arithmetically (disjoint from `states` by construction)
        self.nontrivial = set()
        self.nontrivial_bulk = 0
        self.outcomes = collections.Counter()
        self.cover = set()
        self.violations = []
        self.samples = []
        self.sub = collections.Counter()   # per sub-check evaluation counts
        self.notes = {}
        self.max_depth = 0

    # ---- counting
    def case(self, sub='main', n=1):
        self.evaluations += n
        self.sub[sub] += n
        self.last_beat = time.time()

    def trans(self, n=1):
        self.transitions += n
        self.last_beat = time.time()

    def trace(self, n=1):
        self.traces += n

    def state(self, token):
        self.states.add(h64(token))

    def nontriv(self, token):
        self.nontrivial.add(h64(token))

    def bulk(self, states=0, nontrivial=0):
        self.state_bulk += states
        self.nontrivial_bulk += nontrivial

    def outcome(self, token):
        self.outcomes[str(token)[:60]] += 1

    def covered(self, *tags):
        self.cover.update(tags)

    def sample(self, obj):
        if len(self.samples) < MAX_SAMPLES:
            self.samples.append(obj)

    def depth(self, d):
        if d > self.max_depth:
            self.max_depth = d

    # ---- verdicts
    def violation(self, key, msg, fn, args):
        """key: stable identifier of *what* fails (used for known-finding matching and for
        de-duplication); fn/args: replay record"""
        if len(self.violations) < MAX_VIOL_PER_SHARD or not any(v['key'] == key for v in self.violations):
            if len(self.violations) < 4 * MAX_VIOL_PER_SHARD:
                self.violations.append({'key': key, 'msg': str(msg)[:2000], 'replay': {'fn': fn, 'args': args}})

    @contextlib.contextmanager
    def limit(self, seconds):
        """wall-clock guard for one call into the code under test"""
        def on_alarm(signum, frame):
            raise CaseTimeout()
        old = signal.signal(signal.SIGALRM, on_alarm)
        prev = signal.setitimer(signal.ITIMER_REAL, seconds)
        t0 = time.time()
        try:
            yield
        finally:
            signal.setitimer(signal.ITIMER_REAL, 0)
            signal.signal(signal.SIGALRM, old)
            if prev[0] > 0:   # re-arm the enclosing (shard) timer
                remaining = max(0.05, prev[0] - (time.time() - t0))
                signal.setitimer(signal.ITIMER_REAL, remaining)

    def export(self):
        return {
            'evaluations': self.evaluations, 'transitions': self.transitions, 'traces': self.traces,
            'states': self.states, 'state_bulk': self.state_bulk,
            'nontrivial': self.nontrivial, 'nontrivial_bulk': self.nontrivial_bulk,
            'outcomes': dict(self.outcomes), 'cover': self.cover, 'violations': self.violations,
            'samples': self.samples, 'sub': dict(self.sub), 'notes': self.notes, 'max_depth': self.max_depth,
        }


def crash_violation(rec, e, fn, args):
    """An exception that escaped a shard: if it was raised *inside the code under test* (a frame of the bound
    repository is on the traceback) the code under test failed on an input on which the unchanged tree does
    not fail - a violation with the shard as its replay (returns True); otherwise it is a harness bug."""
    from . import repo as _repo
    tb = traceback.extract_tb(e.__traceback__)
    lib = [f for f in tb if f.filename.startswith(_repo.REPO + os.sep)]
    if not (lib and isinstance(e, Exception)):
        return False
    where = lib[-1]
    rec.violation(f"crash:{fn}:{type(e).__name__}",
                  f"shard {fn} {args}: unguarded call into the library raised {type(e).__name__}: {e} "
                  f"(at {os.path.relpath(where.filename, _repo.REPO)}:{where.lineno} in {where.name}); the harness expected this call to succeed",
                  fn, args)
    return True


def _run_shard(job):
    modname, idx, shard, tier, seed, shard_timeout = job
    mod = importlib.import_module(modname)
    rec = Recorder(mod.ID, tier, seed)
    t0 = time.time()

    def on_alarm(signum, frame):
        raise ShardTimeout()
    signal.signal(signal.SIGALRM, on_alarm)
    signal.setitimer(signal.ITIMER_REAL, shard_timeout)
    err = None
    try:
        getattr(mod, shard['fn'])(rec, **shard['args'])
    except ShardTimeout:
        # a shard that ran out of time while still making progress (a case / transition was recorded in the last two minutes) is a
        # shard that is too big for its time limit - a cost problem of the CHECK, reported as a harness error (exit 2), never as a verdict;
        # a shard stuck in ONE step for minutes is the code under test not returning
        idle = time.time() - getattr(rec, 'last_beat', t0)
        if idle > STUCK_SECONDS:
            rec.violation(f"timeout:{shard['fn']}", f'shard {shard} did not finish within {shard_timeout}s: no progress for the last {int(idle)}s '
                          f'(non-termination or blow-up in one step)', shard['fn'], shard['args'])
        else:
            err = f'shard {shard} did not finish within {shard_timeout}s although it was still making progress: the shard is too big for its time limit'

    except CaseTimeout:
        rec.violation(f"timeout:{shard['fn']}", f'shard {shard}: unguarded case timeout', shard['fn'], shard['args'])
    except BaseException as e:
        if not crash_violation(rec, e, shard['fn'], shard['args']):
            err = traceback.format_exc()
    finally:
        signal.setitimer(signal.ITIMER_REAL, 0)
    out = rec.export()
    out['idx'] = idx
    out['shard'] = shard
    out['wall'] = time.time() - t0
    out['error'] = err
    return out


WORKER_MEMORY_LIMIT = int(os.environ.get('VERIF_WORKER_MEM', str(6 << 30)))     # address-space limit of one shard process


def _shard_child(job, conn):
    try:
        import resource
        soft, hard = resource.getrlimit(resource.RLIMIT_AS)
        lim = WORKER_MEMORY_LIMIT if hard == resource.RLIM_INFINITY else min(WORKER_MEMORY_LIMIT, hard)
        resource.setrlimit(resource.RLIMIT_AS, (lim, hard))     # a runaway allocation raises MemoryError in the case instead of waking the OOM killer
    except Exception:
        pass
    try:
        out = _run_shard(job)
    except BaseException:
        out = _dead_result(job, 'the shard runner itself failed: ' + traceback.format_exc()[-1500:], error=True)
    try:
        conn.send(out)
    finally:
        conn.close()


def _dead_result(job, msg, error=False):
    modname, idx, shard, tier, seed, shard_timeout = job
    mod = importlib.import_module(modname)
    rec = Recorder(mod.ID, tier, seed)
    if not error:
        rec.violation(f"died:{shard['fn']}", msg, shard['fn'], shard['args'])
    out = rec.export()
    out.update({'idx': idx, 'shard': shard, 'wall': 0.0, 'error': msg if error else None})
    return out


def _run_pool(jobs, workers):
    """one forked process per shard, at most `workers` at a time.  Unlike multiprocessing.Pool this notices a process that DIES (killed by
    the kernel for its memory use, a crash of the interpreter inside a C extension): the shard is reported (the code under test brought the
    process down on an input on which the unchanged tree does not) and the run goes on - it never waits for a result that cannot come."""
    from multiprocessing.connection import wait
    ctx = multiprocessing.get_context('fork')
    pending = list(jobs)
    running = {}
    results = []
    while pending or running:
        while pending and len(running) < workers:
            job = pending.pop(0)
            rd, wr = ctx.Pipe(duplex=False)
            p = ctx.Process(target=_shard_child, args=(job, wr))
            p.start()
            wr.close()
            running[p.sentinel] = (p, job, rd, time.time())
        ready = wait([v[2] for v in running.values()] + list(running), timeout=5.0)
        for sentinel in list(running):
            p, job, rd, t0 = running[sentinel]
            got, eof = None, False
            if rd in ready or rd.poll():
                try:
                    got = rd.recv()
                except (EOFError, OSError):
                    eof = True          # the other end is closed and nothing was sent
            if got is not None:
                results.append(got)
                rd.close()
                p.join(30)
                if p.is_alive():
                    p.kill()
                del running[sentinel]
                continue
            if eof or not p.is_alive():
                if not eof and rd.poll():
                    continue        # the process has exited but its result is still in the pipe: next round
                p.join(10)
                if p.is_alive():
                    p.kill()
                    p.join(10)
                code = p.exitcode
                how = f'killed by signal {-code}' if code is not None and code < 0 else f'exit code {code}'
                results.append(_dead_result(job, f'the process running shard {job[2]} died ({how}) without delivering a result after {int(time.time() - t0)}s: '
                                                 f'the code under test brought the interpreter down (memory exhaustion, a crash in a C extension)'))
                rd.close()
                del running[sentinel]
            elif time.time() - t0 > job[5] + 300:
                # the in-process alarm should have ended the shard long ago: the process does not even run Python code any more
                p.kill()
                p.join(10)
                results.append(_dead_result(job, f'the process running shard {job[2]} did not react to its own time limit ({job[5]}s) and was killed: stuck inside one C-level operation'))
                rd.close()
                del running[sentinel]
    return results


def run_property(modname, tier, seed, workers=None, shard_timeout=None, only=None):
    mod = importlib.import_module(modname)
    shards = mod.shards(tier, seed)
    if only:
        shards = [s for s in shards if only in s['fn'] or only in json.dumps(s['args'])]
    if shard_timeout is None:
        shard_timeout = getattr(mod, 'SHARD_TIMEOUT', {}).get(tier, 600 if tier == 'quick' else 7200)
    workers = workers or int(os.environ.get('VERIF_WORKERS', '0')) or min(16, os.cpu_count() or 1)
    jobs = [(modname, i, s, tier, seed, shard_timeout) for i, s in enumerate(shards)]
    jobs.sort(key=lambda j: -j[2].get('prio', 0))     # heavy shards start first; reports stay in shard order
    results = []
    t0 = time.time()
    if workers == 1 or len(jobs) <= 1:
        for j in jobs:
            results.append(_run_shard(j))
    else:
        results = _run_pool(jobs, min(workers, len(jobs)))
    results.sort(key=lambda r: r['idx'])
    merged = {
        'evaluations': 0, 'transitions': 0, 'traces': 0, 'states': set(), 'state_bulk': 0, 'nontrivial': set(),
        'nontrivial_bulk': 0, 'outcomes': collections.Counter(), 'cover': set(), 'violations': [], 'samples': [],
        'sub': collections.Counter(), 'notes': {}, 'errors': [], 'shards': len(shards), 'max_depth': 0,
        'shard_walls': [],
    }
    for r in results:
        for k in ('evaluations', 'transitions', 'traces', 'state_bulk', 'nontrivial_bulk'):
            merged[k] += r[k]
        merged['states'] |= r['states']
        merged['nontrivial'] |= r['nontrivial']
        merged['outcomes'].update(r['outcomes'])
        merged['cover'] |= r['cover']
        merged['violations'] += r['violations']
        merged['sub'].update(r['sub'])
        merged['notes'].update(r['notes'])
        merged['max_depth'] = max(merged['max_depth'], r['max_depth'])
        merged['shard_walls'].append((round(r['wall'], 2), r['shard']['fn'], r['shard']['args']))
        for s in r['samples']:
            if len(merged['samples']) < MAX_SAMPLES:
                merged['samples'].append(s)
        if r['error']:
            merged['errors'].append({'shard': r['shard'], 'traceback': r['error']})
    merged['wall'] = time.time() - t0
    return mod, merged


def replay_one(modname, tier, seed, replay):
    """run one replay record alone; returns the list of violations it produces"""
    mod = importlib.import_module(modname)
    rec = Recorder(mod.ID, tier, seed)
    try:
        with rec.limit(600):
            getattr(mod, replay['fn'])(rec, **replay['args'])
    except CaseTimeout:
        rec.violation(f"timeout:{replay['fn']}", 'did not finish', replay['fn'], replay['args'])
    except Exception as e:
        if not crash_violation(rec, e, replay['fn'], replay['args']):
            raise
    return rec.violations


# ---------------------------------------------------------------------------------------------
# Explorer D: deviation-bounded enumeration over a fixed list of choice points
def deviations(domains, k):
    """domains: list of alternative counts per choice point (alternative 0 = default).
    Yields every assignment (tuple of indexes) with at most k non-default choices, ordered by the
    number of deviations, so the first counterexample has the fewest."""
    import itertools
    n = len(domains)
    for dev in range(0, k + 1):
        for points in itertools.combinations(range(n), dev):
            ranges = [range(1, domains[p]) for p in points]
            for alts in itertools.product(*ranges):
                a = [0] * n
                for p, v in zip(points, alts):
                    a[p] = v
                yield tuple(a)


def count_deviations(domains, k):
    return sum(1 for _ in deviations(domains, k))


# ---------------------------------------------------------------------------------------------
# Explorer D, dynamic form: choice points are discovered while the case is being generated (choosing
# another constructor reveals new choice points).  `Chooser.choose(label, n)` returns the planned
# alternative for the i-th choice point of this run (default 0) and records the point.
class StalePlan(Exception):
    pass


class Chooser:
    def __init__(self, plan=None):
        self.plan = plan or {}
        self.points = []          # (label, number of alternatives, taken)

    def choose(self, label, n):
        i = len(self.points)
        a = self.plan.get(i, 0)
        if a >= n:
            raise StalePlan(f'choice point {i} ({label}) has {n} alternatives, plan wants {a}')
        self.points.append((label, n, a))
        return a

    def deviations(self):
        return [(i, p[0], p[2]) for i, p in enumerate(self.points) if p[2]]


def explore(gen_one, k):
    """deviation-bounded enumeration over lazily discovered choice points: yields (plan, chooser, result)
    for the all-defaults run and for EVERY run with at most k non-default choices.  Runs are produced in
    order of first deviation position, the default run first.  gen_one(chooser) -> result; an exception
    raised by gen_one is yielded as the result (the caller decides what it means)."""
    def rec(plan, start, left):
        ch = Chooser(plan)
        try:
            res = gen_one(ch)
        except StalePlan:
            raise
        except Exception as e:      # noqa
            res = e
        yield plan, ch, res
        if left == 0:
            return
        for i in range(start, len(ch.points)):
            label, n, a = ch.points[i]
            for alt in range(1, n):
                p = {j: v for j, v in plan.items() if j < i}
                p[i] = alt
                yield from rec(p, i + 1, left - 1)
    yield from rec({}, 0, k)
