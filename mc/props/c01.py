"""C01 - cell hash and depth are the TON representation hash and depth (explorer E).

Alphabet: every bit string of length 0..10 and six patterns for every length 11..1023; reference
counts 0..4; every DAG shape with <= 3 (quick) / <= 4 (thorough) distinct cells; depth chains
1..1023 (+1024 must be refused); 22 construction routes.  Oracle: mc/ref/cell.py.
"""
import base64, itertools
from ..ref import cell as RC
from . import dags
from .common import filler, filler_bits, to_lib, lib_canon, exc_name

ID = 'C01'
TITLE = 'Cell hash and depth are the TON representation hash and depth'
EXPLORER = 'E (small-scope input enumeration over data lengths, reference counts, DAG shapes, depths, routes)'
RULE = ('data: all bit strings of length 0..10 + 6 patterns (0s, 1s, alternating, last-bit-1, last-bit-0, seed filler) for every length '
        '11..1023, each through every construction route; refs: 1..4 children x every length 0..1023; shapes: every DAG with <= N distinct '
        'cells (0..4 ordered refs into later cells, duplicates allowed) x payload variants; chains of depth 1,2,255,256,1022,1023 accepted '
        'and 1024 refused. A case is one (cell description, route); non-trivial = has refs or unaligned data; states = distinct cell '
        'descriptions (reference hashes); transitions = library constructions/conversions; traces = cells whose hash/depth/equality '
        'were compared with the reference model')
RULE += ' Fifth session: cells of a user subclass of Cell (parsed, constructed, copied; == in both directions and != over the equality pool); route slice_consumed (to_cell() of a partly consumed slice, with to_cell() calls on the way); family over-exotic: ordinary cells over every 1-, 2-, 3-combination of {pruned branch mask 1..7, library reference, Merkle proof, leaf} and one ordinary cell above: level mask, hash(l), depth(l) for l = 0..3, representation hash == hash, through builder / constructor / copy / slice / to_builder / bag of cells.'
LEVEL_TEXT = ('Bounded-exhaustive exploration of the real Cell/Builder/Slice/BoC construction routes: all bit lengths 0..1023, all reference '
              'counts, all DAG shapes up to 4 distinct cells, the depth limit, with hash(level), depth(level), recomputed representation '
              'hash, equality and dict-key behaviour compared with an independent recursive reference model on every case.')
LEVEL_NOTE = ('trusted: mc/ref/cell.py (pinned to the empty-cell hash and the main-net block root hash); contents of long bit strings are '
              'covered by 6 representatives per length (the hash input is data-oblivious apart from the completion tag)')
TECHNIQUE = 'small-scope exhaustive enumeration of cell shapes and construction routes against a reference model'
RULE += " Depth limit: the 1023-deep chain is also taken through to_boc/one_from_boc (plain and with all options), copy(), begin_parse().to_cell(), to_builder().end_cell() and the explicit representation hash with the library calls running under the interpreter's DEFAULT recursion limit."
ASSUMPTIONS = ['SHA-256 from hashlib is trusted', 'long bit-string contents by representatives (all lengths complete)']
NOT_ASSERTED = []

ROUTES = ['builder', 'ctor_tvm', 'ctor_plain', 'ctor_plain_le', 'ctor_tvm_le', 'boc_bytes', 'boc_hex', 'boc_b64', 'copy', 'parse_to_cell', 'slice_from_cell',
          'to_builder', 'builder_to_slice', 'builder_from_boc', 'slice_from_boc', 'boc_options', 'builder_reused', 'slice_reused', 'derived_mutated',
          'subclass_boc', 'subclass_ctor', 'subclass_copy', 'slice_consumed', 'rehashed', 'builder_slice_reused']


def BOUNDS(tier):
    return {'bit_lengths': '0..1023 all', 'short_strings': 'all of length 0..10', 'ref_counts': '0..4',
            'dag_nodes': 3 if tier == 'quick' else '4 (any arity) and 5 (arity <= 2)', 'all_bit_strings_up_to': 10 if tier == 'quick' else 13, 'chains': [1, 2, 255, 256, 1022, 1023, 1024], 'routes': ROUTES, 'exhaustive': True}


def selftest():
    assert RC.RCell('').hash().hex() == '96a296d224f285c67bee93c30f8a309157f0daa35dc5b87e410b78630a09cfc7'


def REQUIRED_COVER(tier):
    return {'len:0', 'len:1023', 'refs:4', 'unaligned', 'chain:1023', 'chain:1024-refused', 'shared-child', 'route:ctor_plain', 'route:boc_b64', 'over-exotic:mask3', 'over-exotic:mask5', 'over-exotic:mask7'}


def shards(tier, seed):
    out = []
    out.append({'fn': 'shard_short', 'args': {'lo': 0, 'hi': 8}})
    out.append({'fn': 'shard_short', 'args': {'lo': 9, 'hi': 9}})
    out.append({'fn': 'shard_short', 'args': {'lo': 10, 'hi': 10}})
    for lo in range(11, 1024, 64):
        out.append({'fn': 'shard_long', 'args': {'lo': lo, 'hi': min(1023, lo + 63)}})
    for lo in range(0, 1024, 128):
        out.append({'fn': 'shard_refs', 'args': {'lo': lo, 'hi': min(1023, lo + 127)}})
    nmax = 3 if tier == 'quick' else 4
    for n in range(1, nmax + 1):
        k = 1 if n < 4 else 24
        for part in range(k):
            out.append({'fn': 'shard_shapes', 'args': {'n': n, 'part': part, 'parts': k}, 'prio': 5 if n == 4 else 0})
    if tier == 'thorough':
        for L in (11, 12, 13):                     # every bit string up to 13 bits through every route
            out.append({'fn': 'shard_short', 'args': {'lo': L, 'hi': L}, 'prio': 4})
        for part in range(8):                      # every DAG with 5 cells and at most 2 references per cell
            out.append({'fn': 'shard_shapes', 'args': {'n': 5, 'part': part, 'parts': 8, 'max_refs': 2}, 'prio': 4})
    out.append({'fn': 'shard_chains', 'args': {}, 'prio': 3})
    for part in range(4):
        out.append({'fn': 'shard_over_exotic', 'args': {'part': part, 'parts': 4}, 'prio': 2})
    out.append({'fn': 'shard_equality', 'args': {}})
    return out


# ------------------------------------------------------------------ oracle for one library cell
def _compare(cell, rc):
    """list of disagreement strings between a library cell and the reference cell"""
    bad = []
    try:
        if cell.hash != rc.hash():
            bad.append(f'hash {cell.hash.hex()[:16]} != ref {rc.hash().hex()[:16]}')
        for l in range(4):
            if cell.get_hash(l) != rc.hash(l):
                bad.append(f'get_hash({l})')
            if cell.get_depth(l) != rc.depth(l):
                bad.append(f'get_depth({l}) = {cell.get_depth(l)} != {rc.depth(l)}')
        if cell.bits.to01() != rc.bits:
            bad.append(f'bits changed: {len(cell.bits)} bits vs {len(rc.bits)}')
        if len(cell.refs) != len(rc.refs):
            bad.append('ref count')
        try:
            rh = cell.calculate_representation_hash()
            if rh != rc.hash():
                bad.append('calculate_representation_hash() != representation hash')
            if cell.get_representation() != rc.representation():
                bad.append('get_representation() bytes differ from the standard representation')
        except Exception as e:
            bad.append(f'calculate_representation_hash raised {exc_name(e)}: {e}')
        if hash(cell) != int.from_bytes(rc.hash(), 'big') and hash(cell) != hash(int.from_bytes(rc.hash(), 'big')):
            bad.append('__hash__ not derived from the representation hash')
    except Exception as e:
        bad.append(f'observer raised {exc_name(e)}: {e}')
    return bad


def _routes(rc, refs_lib):
    """yield (route name, thunk producing a library cell) for the cell described by rc, whose
    children are the library cells refs_lib"""
    from bitarray import bitarray
    from pytoniq_core.boc import Cell, Builder, Slice
    from pytoniq_core.boc.tvm_bitarray import TvmBitarray

    def base():
        b = Builder()
        b.store_bits(rc.bits)
        for r in refs_lib:
            b.store_ref(r)
        return b

    def tvm():
        ba = TvmBitarray(1023)
        ba.extend(rc.bits)
        return Cell(ba, list(refs_lib), -1)

    yield 'builder', lambda: base().end_cell()
    yield 'ctor_tvm', tvm
    yield 'ctor_plain', lambda: Cell(bitarray(rc.bits), list(refs_lib), -1)
    yield 'ctor_plain_le', lambda: Cell(bitarray(rc.bits, endian='little'), list(refs_lib), -1)      # the same bits in a little-endian bit array
    def tvm_le():
        from pytoniq_core.boc.tvm_bitarray import TvmBitarray
        return Cell(TvmBitarray(1023, rc.bits, endian='little'), list(refs_lib), -1)      # ... and in a little-endian TvmBitarray

    yield 'ctor_tvm_le', tvm_le
    yield 'boc_bytes', lambda: Cell.one_from_boc(base().end_cell().to_boc())
    yield 'boc_hex', lambda: Cell.one_from_boc(base().end_cell().to_boc().hex())
    yield 'boc_b64', lambda: Cell.one_from_boc(base64.b64encode(base().end_cell().to_boc()).decode())
    yield 'copy', lambda: base().end_cell().copy()
    yield 'parse_to_cell', lambda: base().end_cell().begin_parse().to_cell()
    yield 'slice_from_cell', lambda: Slice.from_cell(base().end_cell()).to_cell()
    yield 'to_builder', lambda: base().end_cell().to_builder().end_cell()
    yield 'builder_to_slice', lambda: base().to_slice().to_cell()
    yield 'builder_from_boc', lambda: Builder.one_from_boc(base().end_cell().to_boc()).end_cell()
    yield 'slice_from_boc', lambda: Slice.one_from_boc(base().end_cell().to_boc()).to_cell()
    def builder_reused():
        # the cell is taken, then the SAME builder keeps being written to (common-prefix idiom): the cell must not notice
        b = base()
        c = b.end_cell()
        if len(rc.bits) < 1023:
            b.store_bit(1)
        if len(refs_lib) < 4:
            b.store_ref(c)
        b.end_cell()
        return c

    def builder_slice_reused():
        # the cell is taken THROUGH A SLICE of the builder (to_slice().to_cell(), nothing loaded from the slice), then the builder and the
        # slice go on being used: the cell must not notice (wave 10)
        b = base()
        s = b.to_slice()
        c = s.to_cell()
        extra = Builder().store_uint(0x5a, 8).end_cell()
        if len(rc.bits) < 1023:
            b.store_bit(1)
        if len(refs_lib) < 4:
            b.store_ref(extra)
        if len(rc.bits):
            s.load_bit()
        if len(refs_lib):
            s.load_ref()
        b.end_cell()
        return c

    def slice_reused():
        # the cell is taken from a slice, then the slice is consumed to the end
        s = base().end_cell().begin_parse()
        c = s.to_cell()
        s.load_bits(len(rc.bits))
        while s.remaining_refs:
            s.load_ref()
        return c

    def derived_mutated():
        # objects DERIVED from the cell (builder, slice, copy) are written to / consumed: the cell must not notice
        c = base().end_cell()
        b = c.to_builder()
        if len(rc.bits) < 1023:
            b.store_bit(0)
        if len(refs_lib) < 4:
            b.store_ref(c)
        s = c.begin_parse()
        s.load_bits(len(rc.bits))
        while s.remaining_refs:
            s.load_ref()
        k = c.copy().to_builder()
        if len(refs_lib) < 4:
            k.store_ref(c)
        b.end_cell(), k.end_cell()
        return c

    def slice_consumed():
        # the cell is what REMAINS of a bigger cell's slice after a prefix was read - with to_cell() also called on the way
        # (after nothing, after a reference, after bits): each to_cell() is the cell of what remains at that moment
        extra = base().end_cell()
        pre_bits = '101' if len(rc.bits) <= 1020 else ''
        big = Builder().store_bits(pre_bits + rc.bits)
        pre_ref = len(refs_lib) < 4
        if pre_ref:
            big.store_ref(extra)
        for r in refs_lib:
            big.store_ref(r)
        s = big.end_cell().begin_parse()
        s.to_cell()
        if pre_ref:
            s.load_ref()
            s.to_cell()
        if pre_bits:
            s.load_bits(3)
        return s.to_cell()

    def rehashed():
        # the public hashing entry points called again on a finished cell: the cell is the same cell afterwards
        c = base().end_cell()
        c.calculate_hashes()
        c.calculate_representation_hash()
        c.calculate_hashes()
        return c

    yield 'rehashed', rehashed
    yield 'slice_consumed', slice_consumed
    yield 'derived_mutated', derived_mutated
    yield 'builder_reused', builder_reused
    yield 'builder_slice_reused', builder_slice_reused
    yield 'slice_reused', slice_reused
    yield 'boc_options', lambda: Cell.one_from_boc(base().end_cell().to_boc(has_idx=True, hash_crc32=True, has_cache_bits=True))

    class SubCell(Cell):         # from_boc / one_from_boc / empty are classmethods that build cls(...): a user subclass is an entry point too
        pass

    yield 'subclass_boc', lambda: SubCell.one_from_boc(base().end_cell().to_boc())
    yield 'subclass_ctor', lambda: SubCell(tvm().bits, list(refs_lib), -1)
    yield 'subclass_copy', lambda: SubCell.one_from_boc(base().end_cell().to_boc()).copy()


def case_cell(rec, bits, nrefs, route):
    """one cell description (bits, nrefs distinct leaf children) through one route"""
    kids = [RC.RCell(format(i, '02b') + '1' * i) for i in range(nrefs)]
    if nrefs == 4:          # make two of the children deeper, in the middle
        kids[1] = RC.RCell('0101', (kids[0],))
        kids[2] = RC.RCell('', (kids[1], kids[0]))
    rc = RC.RCell(bits, kids)
    memo = {}
    refs_lib = [to_lib(k, memo) for k in kids]
    rec.case(f'route:{route}')
    rec.trans()
    for name, thunk in _routes(rc, refs_lib):
        if name != route:
            continue
        try:
            cell = thunk()
        except Exception as e:
            rec.violation(f'construct:{route}', f'route {route} raised {exc_name(e)}: {e} for {len(bits)} bits, {nrefs} refs',
                          'case_cell', {'bits': bits, 'nrefs': nrefs, 'route': route})
            rec.outcome(f'raise:{exc_name(e)}')
            return
        bad = _compare(cell, rc)
        rec.trace()
        if bad:
            rec.violation(f'cell:{route}:{bad[0].split()[0]}', f'{len(bits)} bits "{bits[:24]}...", {nrefs} refs via {route}: ' + '; '.join(bad[:4]),
                          'case_cell', {'bits': bits, 'nrefs': nrefs, 'route': route})
        rec.outcome('agree' if not bad else 'DISAGREE')


def _all_routes(rec, bits, nrefs):
    for r in ROUTES:
        case_cell(rec, bits, nrefs, r)
        rec.covered(f'route:{r}')
    rec.state(('cell', bits, nrefs))
    if nrefs or len(bits) % 8:
        rec.nontriv(('cell', bits, nrefs))
    rec.covered(f'len:{len(bits)}' if len(bits) in (0, 1023) else 'len:mid', f'refs:{nrefs}')
    if len(bits) % 8:
        rec.covered('unaligned')


def shard_short(rec, lo, hi):
    for L in range(lo, hi + 1):
        for v in range(1 << L):
            bits = format(v, f'0{L}b') if L else ''
            _all_routes(rec, bits, 0)
    rec.sample({'bits': '1011', 'nrefs': 0, 'routes': ROUTES})


def patterns(L, seed):
    return ['0' * L, '1' * L, ('10' * L)[:L], '0' * (L - 1) + '1', '1' * (L - 1) + '0', filler_bits(seed, f'c01-{L}', L)]


def shard_long(rec, lo, hi):
    for L in range(lo, hi + 1):
        for bits in dict.fromkeys(patterns(L, rec.seed)):
            _all_routes(rec, bits, 0)


def shard_refs(rec, lo, hi):
    for L in range(lo, hi + 1):
        for nrefs in (1, 2, 3, 4):
            bits = filler_bits(rec.seed, f'c01r-{L}-{nrefs}', L)
            if L and nrefs == 2:
                bits = bits[:-1] + '0'     # data ending in 0 (completion tag must still be appended)
            if L and nrefs == 3:
                bits = bits[:-1] + '1'
            _all_routes(rec, bits, nrefs)
    rec.sample({'bits_len': hi, 'nrefs': 4, 'children': 'leaf, (leaf), ((leaf),leaf), leaf'})


# ------------------------------------------------------------------ DAG shapes
VARIANT_SETS = ['au', 'ua', 'ee', 'xz']


def case_shape(rec, shape, variants):
    shape = tuple(tuple(s) for s in shape)
    from pytoniq_core.boc import Cell
    cells = dags.build_ref(shape, variants)
    root = cells[0]
    rec.case('shape')
    key_args = {'shape': [list(s) for s in shape], 'variants': variants}
    for route in ('builder', 'ctor'):
        try:
            memo = {}
            lib_root = to_lib(root, memo, route)
            rec.trans(len(memo))
        except Exception as e:
            rec.violation(f'shape-construct:{route}', f'shape {shape} via {route}: {exc_name(e)}: {e}', 'case_shape', key_args)
            continue
        for k, lc in memo.items():
            rc = next(c for c in cells if c.hash() == k[0])
            bad = _compare(lc, rc)
            rec.trace()
            if bad:
                rec.violation(f'shape:{route}:{bad[0].split()[0]}', f'shape {shape} variants {variants}: cell {cells.index(rc)}: ' + '; '.join(bad[:3]),
                              'case_shape', key_args)
                return
        # whole-DAG routes: BoC round trip and copy keep every hash
        try:
            for opts in ({}, {'has_idx': True}, {'hash_crc32': True}, {'has_idx': True, 'hash_crc32': True, 'has_cache_bits': True}):
                back = Cell.one_from_boc(lib_root.to_boc(**opts))
                rec.trans()
                if lib_canon(back) != RC.canon(root) or back.hash != root.hash() or back.get_depth(0) != root.depth():
                    rec.violation('shape:boc', f'shape {shape}: BoC round trip ({opts}) changes the cell', 'case_shape', key_args)
                    return
        except Exception as e:
            rec.violation('shape:boc-raise', f'shape {shape}: BoC round trip raised {exc_name(e)}: {e}', 'case_shape', key_args)
            return
    # a bag that STORES hashes / depths with its cells (d1 bit 16): with correct stored values, and with each cell's stored
    # hash resp. depth replaced by a wrong one: whatever the parser does with stored values, a cell it returns reports the
    # hash and depth of its CONTENT (raising is fine too - the property is about the cells one gets)
    from ..ref import boc as RB
    order = RB.topo([root])
    for k in range(-1, len(order)):
        for what in (('hash', 'depth') if k >= 0 else ('none',)):
            def sp(i, hs, ds, k=k, what=what):
                if i == k and what == 'hash':
                    hs = [bytes(x ^ 0x5a for x in hs[0])] + hs[1:]
                if i == k and what == 'depth':
                    ds = [ds[0] + 1] + ds[1:]
                return hs, ds
            data = RB.encode([root], with_hashes=lambda c: True, stored_patch=sp)
            rec.trans()
            try:
                back = Cell.one_from_boc(data)
            except Exception as e:
                if k < 0:
                    rec.violation('shape:boc-stored-raise', f'shape {shape}: a bag storing (correct) hashes with its cells is rejected: {exc_name(e)}: {e}', 'case_shape', key_args)
                    return
                rec.covered('stored:wrong-rejected')
                continue
            rec.covered('stored:correct' if k < 0 else 'stored:wrong-ignored')
            stack, seen = [(back, root)], set()
            while stack:
                lc, rc = stack.pop()
                if id(lc) in seen:
                    continue
                seen.add(id(lc))
                bad = _compare(lc, rc)
                rec.trace()
                if bad:
                    rec.violation('shape:boc-stored:' + bad[0].split()[0], f'shape {shape} variants {variants}: bag storing hashes'
                                  f'{"" if k < 0 else f" (stored {what} of cell {k} is not the real one)"}: a returned cell reports ' + '; '.join(bad[:2]), 'case_shape', key_args)
                    return
                stack.extend(zip(lc.refs, rc.refs))
    if any(len(set(s)) < len(s) for s in shape) or sum(1 for s in shape for c in s) > len(shape) - 1:
        rec.covered('shared-child')
    rec.state(('shape', shape, variants))
    rec.nontriv(('shape', shape, variants))
    rec.outcome(f'shape-ok:n={len(shape)}')


def shard_shapes(rec, n, part, parts, max_refs=4):
    for i, shape in enumerate(dags.enum_shapes(n, max_refs)):
        if i % parts != part:
            continue
        for variants in (VARIANT_SETS if n <= 3 else VARIANT_SETS[:2]):
            case_shape(rec, shape, variants)
        if i < 3:
            rec.sample({'shape': [list(s) for s in shape], 'variants': 'au'})


# ------------------------------------------------------------------ depth chains
def case_chain(rec, depth, pos, width):
    """chain of `depth` links; the deep child sits at position pos among `width` refs"""
    from pytoniq_core.boc import Builder
    rec.case('chain')
    args = {'depth': depth, 'pos': pos, 'width': width}
    leaf = RC.RCell('1')
    shallow = RC.RCell('0')
    lib_leaf, lib_shallow = to_lib(leaf), to_lib(shallow)
    rc, lc = leaf, lib_leaf
    raised = None
    ref_ok = True
    for d in range(depth):
        kids_r = [shallow] * width
        kids_l = [lib_shallow] * width
        kids_r[pos], kids_l[pos] = rc, lc
        try:
            nrc = RC.RCell('', kids_r)
        except RC.RefCellError:
            ref_ok = False
            nrc = None
        try:
            b = Builder()
            for k in kids_l:
                b.store_ref(k)
            nlc = b.end_cell()
            rec.trans()
        except Exception as e:
            raised = e
            nlc = None
        if not ref_ok:
            if raised is None:
                rec.violation('chain:depth-limit', f'cell of depth {d + 1} > 1023 was constructed (depth {nlc.get_depth(0)})', 'case_chain', args)
            else:
                rec.covered('chain:1024-refused')
            rec.outcome('refused' if raised else 'ACCEPTED-1024')
            return
        if raised is not None:
            rec.violation('chain:refused-valid', f'valid cell of depth {d + 1} refused: {exc_name(raised)}: {raised}', 'case_chain', args)
            return
        rc, lc = nrc, nlc
        if d + 1 in (1, 2, 3, 255, 256, 257, 1022, 1023) or d + 1 == depth:
            bad = _compare(lc, rc)
            rec.trace()
            if bad:
                rec.violation(f'chain:{bad[0].split()[0]}', f'chain depth {d + 1} (deep child at {pos}/{width}): ' + '; '.join(bad[:3]), 'case_chain', args)
                return
    if depth == 1023:
        rec.covered('chain:1023')
        # a 1023-deep chain must also survive the BoC route with identical depth/hash
        # (library calls run under the interpreter's default recursion limit, as in a user's program)
        from pytoniq_core.boc import Cell
        from .common import user_recursion_limit
        routes = (('boc', lambda: Cell.one_from_boc(lc.to_boc())),
                  ('boc_options', lambda: Cell.one_from_boc(lc.to_boc(has_idx=True, hash_crc32=True, has_cache_bits=True))),
                  ('copy', lambda: lc.copy()),
                  ('slice_to_cell', lambda: lc.begin_parse().to_cell()),
                  ('to_builder', lambda: lc.to_builder().end_cell()),
                  ('recompute', lambda: lc if lc.calculate_representation_hash() == lc.hash else None))
        for rname, thunk in routes:
            try:
                with user_recursion_limit():
                    back = thunk()
                    ok = back is not None and back.hash == rc.hash() and back.get_depth(0) == 1023
                rec.trans()
                if not ok:
                    rec.violation(f'chain:{rname}', f'depth-1023 chain changes through route {rname}', 'case_chain', args)
            except Exception as e:
                rec.violation(f'chain:{rname}', f'depth-1023 chain: route {rname} raised {exc_name(e)}: {str(e)[:200]}', 'case_chain', args)
    rec.state(('chain', depth, pos, width))
    rec.nontriv(('chain', depth, pos, width))
    rec.outcome('chain-ok')


def shard_chains(rec):
    for depth in (1, 2, 255, 256, 1022, 1023, 1024):
        for width, pos in ((1, 0), (2, 0), (2, 1), (4, 0), (4, 2), (4, 3)):
            case_chain(rec, depth, pos, width)
    rec.sample({'chain_depth': 1024, 'deep_child_position': '3 of 4', 'expect': 'refused'})


# ------------------------------------------------------------------ ordinary cells whose children are exotic
def exotic_kids(seed):
    """child alphabet: pruned branches with every level mask 1..7, a library reference, a Merkle proof, a plain leaf"""
    kids = {}
    for mask in range(1, 8):
        n = bin(mask).count('1')
        hs = [filler(seed, f'c01x-{mask}-{i}', 32) for i in range(n)]
        ds = [int.from_bytes(filler(seed, f'c01xd-{mask}-{i}', 2), 'big') % 900 for i in range(n)]
        kids[f'p{mask}'] = RC.pruned_raw(mask, hs, ds)
    kids['lib'] = RC.library(filler(seed, 'c01x-lib', 32))
    kids['proof'] = RC.mproof(RC.RCell('1100', (RC.RCell('1'), RC.prune(RC.RCell('0110', (RC.RCell(''),)), 1))))
    kids['leaf'] = RC.RCell('10')
    return kids


def case_over_exotic(rec, names, nbits):
    """an ORDINARY cell (and an ordinary cell above it) whose children are the named cells: its level mask is the OR of theirs; at every
    level its hash / depth are the standard ones over the children's hash / depth at that level; hash = the hash at its own level;
    the recomputed representation hash agrees with it - through the construction routes, a copy, a slice and a bag of cells"""
    from pytoniq_core.boc import Cell, Builder, Slice
    rec.case('over-exotic')
    args = {'names': list(names), 'nbits': nbits}
    alpha = exotic_kids(rec.seed)
    parent = RC.RCell(('10110101' * 2)[:nbits], tuple(alpha[n] for n in names))
    grand = RC.RCell('011', (RC.RCell('1'), parent))
    rec.state(('over-exotic', tuple(names), nbits))
    rec.nontriv(('over-exotic', tuple(names), nbits))
    rec.covered(f'over-exotic:mask{parent.mask}')
    for route in ('builder', 'ctor'):
        try:
            memo = {}
            g = to_lib(grand, memo, route)
            cells = [(g, grand), (g.refs[1], parent)]
            cells += [(g.refs[1].copy(), parent), (g.refs[1].begin_parse().to_cell(), parent), (Slice.from_cell(g).to_cell(), grand),
                      (g.refs[1].to_builder().end_cell(), parent)]
            back = Cell.one_from_boc(g.to_boc())
            cells += [(back, grand), (back.refs[1], parent)]
            rec.trans(len(cells))
        except Exception as e:
            rec.violation(f'over-exotic:construct:{route}', f'ordinary cell over {list(names)} ({nbits} bits) via {route} raised {exc_name(e)}: {e}', 'case_over_exotic', args)
            return
        for i, (cell, rc) in enumerate(cells):
            bad = _compare(cell, rc)
            if cell.level_mask.mask != rc.mask:
                bad.insert(0, f'level mask {cell.level_mask.mask} != {rc.mask}')
            rec.trace()
            if bad:
                rec.violation(f'over-exotic:{bad[0].split()[0]}', f'ordinary cell over {list(names)} ({nbits} bits), object #{i} via {route}: ' + '; '.join(bad[:4]), 'case_over_exotic', args)
                rec.outcome('DISAGREE')
                return
    rec.outcome('agree')


def shard_over_exotic(rec, part, parts):
    names = sorted(exotic_kids(rec.seed))
    i = 0
    for k in (1, 2, 3):
        for combo in itertools.product(names, repeat=k):
            if k == 3 and not (combo[0] <= combo[1]):
                continue            # three children: the first two in one order only (every pair of masks still meets a third cell on each side)
            i += 1
            if i % parts != part:
                continue
            for nbits in ((0, 5, 8) if k < 3 else (5,)):
                case_over_exotic(rec, combo, nbits)
    if part == 0:
        rec.sample({'children': ['p1', 'p2'], 'parent_bits': 5, 'expect': 'level mask 3; hash(l), depth(l) for l = 0..3; calculate_representation_hash() == hash'})


# ------------------------------------------------------------------ equality / dict keys over a pool
def case_equality(rec, nbits, nrefs_max):
    """pool = every cell description (bits of length <= nbits) x (0..nrefs_max leaf children), each built
    by three routes; a == b  <=>  reference hashes equal, for ALL pairs; dict/set keyed by cells"""
    from bitarray import bitarray
    from pytoniq_core.boc import Cell, Builder

    class _SubCell(Cell):
        pass
    rec.case('equality')
    args = {'nbits': nbits, 'nrefs_max': nrefs_max}
    pool = []
    kid_r = [RC.RCell(format(i, '02b')) for i in range(4)]
    kid_l = [to_lib(k) for k in kid_r]
    for L in range(nbits + 1):
        for v in range(1 << L):
            bits = format(v, f'0{L}b') if L else ''
            for nr in range(nrefs_max + 1):
                for order in ((0, 1, 2, 3), (1, 0, 2, 3)):
                    if nr < 2 and order != (0, 1, 2, 3):
                        continue
                    rc = RC.RCell(bits, [kid_r[i] for i in order[:nr]])
                    b = Builder().store_bits(bits)
                    for i in order[:nr]:
                        b.store_ref(kid_l[i])
                    c1 = b.end_cell()
                    c2 = Cell.one_from_boc(c1.to_boc())
                    c3 = c1.copy()
                    c4 = _SubCell.one_from_boc(c1.to_boc())        # the same cell as an instance of a user subclass of Cell
                    c5 = c4.begin_parse().to_cell()
                    pool += [(rc.hash(), c1), (rc.hash(), c2), (rc.hash(), c3), (rc.hash(), c4), (rc.hash(), c5)]
    rec.trans(len(pool))
    n = 0
    for (h1, a), (h2, b) in itertools.combinations(pool, 2):
        n += 1
        if (a == b) != (h1 == h2) or (b == a) != (h1 == h2) or (a != b) == (h1 == h2):
            rec.violation('equality:eq', f'{type(a).__name__} {a!r} == {type(b).__name__} {b!r} is {a == b} (reversed {b == a}, != {a != b}) but reference hashes equal is {h1 == h2}', 'case_equality', args)
            break
        if h1 == h2 and hash(a) != hash(b):
            rec.violation('equality:hash', f'equal cells with different __hash__: {a!r}', 'case_equality', args)
            break
    d = {}
    for h, c in pool:
        d[c] = h
    s = set(c for _, c in pool)
    distinct = len({h for h, _ in pool})
    if len(d) != distinct or len(s) != distinct:
        rec.violation('equality:dict', f'{len(pool)} cells with {distinct} distinct reference hashes give {len(d)} dict keys / {len(s)} set members',
                      'case_equality', args)
    for h, c in pool:
        if d.get(c) != h:
            rec.violation('equality:lookup', f'dict lookup by {c!r} returns the value stored for another cell', 'case_equality', args)
            break
    rec.trace(n)
    rec.state(('eqpool', nbits, nrefs_max))
    rec.nontriv(('eqpool', nbits, nrefs_max))
    rec.notes['equality_pairs'] = rec.notes.get('equality_pairs', 0) + n
    rec.outcome(f'pool-ok:{len(pool)}')


def shard_equality(rec):
    case_equality(rec, 4, 2)
    case_equality(rec, 2, 4)
    rec.sample({'pool': 'all bit strings <= 4 bits x 0..2 ordered leaf children x 3 routes', 'oracle': 'a==b <=> ref hashes equal, all pairs'})
