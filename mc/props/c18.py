"""C18 - CRC-16/XMODEM and CRC-32C equal their bitwise definitions.

Explorer E with *transition-relation coverage*.  A table-driven CRC is a Mealy machine over its
register.  CRC-16: register 16 bits, zero init, and "2-byte prefix -> register" is a bijection onto
all 65 536 register values, so the 2^24 three-byte messages drive the public crc16() through EVERY
(register, input byte) transition; lengths 0..2 are enumerated too.  CRC-32C: all messages of length
0..2 (every table entry in every lane reachable within 2 steps), thorough: all 2^24 three-byte
messages; plus structured long messages in both byte orders.
"""
import itertools
from ..ref import crc as R
from .common import filler

ID = 'C18'
TITLE = 'CRC-16/XMODEM and CRC-32C equal their bitwise definitions'
EXPLORER = 'E (small-scope input enumeration, full transition relation of the 16-bit register)'
RULE = ('crc16: every byte string of length 0..3 (2^24+65793 messages = every (register,byte) transition of the 16-bit '
        'machine); crc32c: every byte string of length 0..2 (quick) / 0..3 (thorough), both byte orders, plus long structured '
        'messages (each single byte position set, lengths 4..4096). A case is non-trivial when its length >= 1; states = '
        'distinct messages fed to the real function; transitions = register transitions they exercise; '
        'traces = messages whose reference checksum was compared with the implementation')
RULE += ' Sixth session: short-lived argument objects - every message of the families (all of length 1 and 2; lengths 3, 4, 8, 20, 64, 300 with every value of the first / middle / last byte) handed over as a temporary slice / concatenation / bytearray that dies after the call, and through one bytearray edited in place between the calls.'
RULE += ' Fifth session: length alphabet 2^k-1, 2^k, 2^k+1 (k <= 18, thorough 20), 3*2^k, multiples of 65536 +-1 against the table form of the bitwise reference (tied to it by the self-test); every result is held and re-compared after the following calls.'
LEVEL_TEXT = ('Complete enumeration through the public functions: crc16 on every byte string of length 0..3 (every (register, byte) '
              'transition of the 16-bit machine, which by induction decides all lengths for any implementation whose state is the '
              'register); crc32c on every string of length 0..2 (0..3 thorough) in all byte-order modes plus structured long '
              'messages. Right level: the property is a statement over all byte strings and the implementation is a finite-state '
              'machine whose transition relation can be exhausted (CRC-16) or covered lane by lane (CRC-32C).')
LEVEL_NOTE = 'trusted: bitwise reference CRCs in mc/ref/crc.py pinned to catalogue check values; CRC-32C states beyond 3 steps only by representatives'
TECHNIQUE = 'bounded-exhaustive enumeration of the CRC state machine transition relation against a bitwise reference model'
ASSUMPTIONS = ['bitwise reference CRCs (mc/ref/crc.py) pinned to the catalogue check values 0x31C3 / 0xE3069283',
               'CRC-32C beyond 3-byte messages is covered by structured representatives only (2^32-state register)']
NOT_ASSERTED = ['the full 2^32 x 256 transition relation of CRC-32C (out of reach through the API)']


def BOUNDS(tier):
    return {'crc16_lengths': '0..3 complete', 'crc32c_lengths': '0..2 complete' + (' + 3 complete' if tier == 'thorough' else ' + 3 for 16 first bytes x all'),
            'long_messages': 'lengths 4..4096 structured', 'length_alphabet': f'{len(length_alphabet(tier))} lengths up to {max(length_alphabet(tier))} (2^k-1, 2^k, 2^k+1, 3*2^k, multiples of 65536 +-1)',
            'held_results': 'every result re-compared after the following calls', 'exhaustive': True}


def selftest():
    R.selftest()


def REQUIRED_COVER(tier):
    return {'crc16:len0', 'crc16:len3', 'crc32c:len0', 'crc32c:len2', 'crc32c:big', 'crc32c:long', 'lengths', 'held-results', 'temporaries', 'extensions'}


def shards(tier, seed):
    out = [{'fn': 'shard_short', 'args': {}}]
    step = 8
    for p0 in range(0, 256, step):
        out.append({'fn': 'shard_crc16_len3', 'args': {'p0_lo': p0, 'p0_hi': p0 + step}})
    if tier == 'thorough':
        for p0 in range(0, 256, step):
            out.append({'fn': 'shard_crc32_len3', 'args': {'p0_lo': p0, 'p0_hi': p0 + step}})
    else:
        out.append({'fn': 'shard_crc32_len3', 'args': {'p0_lo': 0, 'p0_hi': 4}})
        out.append({'fn': 'shard_crc32_len3', 'args': {'p0_lo': 0x7e, 'p0_hi': 0x82}})
        out.append({'fn': 'shard_crc32_len3', 'args': {'p0_lo': 0xfc, 'p0_hi': 0x100}})
    longs = [{'fn': 'shard_long', 'args': {'lens': l}, 'prio': 9} for l in ([4096], [4095], [1024], [1023], [255, 256, 257],
                                                                   [4, 5, 7, 8, 9, 15, 16, 17, 31, 32, 33, 34, 36, 63, 64, 65])]
    for p in range(8):
        out.append({'fn': 'shard_history', 'args': {'part': p, 'parts': 8, 'depth': 3 if tier == 'quick' else 4}})
    for form in ('slice', 'concat', 'bytearray-temp', 'bytearray-inplace', 'memoryview-window', 'memoryview-whole', 'memoryview-of-bytearray-window'):
        out.append({'fn': 'shard_temporaries', 'args': {'form': form}})
    out.append({'fn': 'shard_extensions', 'args': {}})
    for p in range(16):
        out.append({'fn': 'shard_lengths', 'args': {'part': p, 'parts': 16}, 'prio': 8})
    return out + longs


# ---------------------------------------------------------------- single cases (replayable)
def case_crc16(rec, data):
    from pytoniq_core.crypto.crc import crc16
    d = bytes.fromhex(data)
    rec.case('crc16')
    got, want = crc16(d), R.crc16(d)
    if got != want:
        rec.violation('crc16-mismatch', f'crc16({data}) = {got!r}, CRC-16/XMODEM = {want.hex()}', 'case_crc16', {'data': data})


def case_crc32c(rec, data, order):
    from pytoniq_core.crypto.crc import crc32c
    d = bytes.fromhex(data)
    rec.case('crc32c')
    got = crc32c(d, order) if order != 'default' else crc32c(d)
    want = R.crc32c(d, 'little' if order == 'default' else order)
    if got != want:
        rec.violation(f'crc32c-mismatch:{order}', f'crc32c({data},{order}) = {got!r}, CRC-32C = {want.hex()}',
                      'case_crc32c', {'data': data, 'order': order})


# ---------------------------------------------------------------- call histories (explorer S)
HIST_DATA = [b'', b'\x00', b'123456789', b'\xff' * 4, bytes(range(37)), b'\x00' * 8]


def _hist_events():
    ev = []
    for di in range(len(HIST_DATA)):
        ev.append(('crc16', di))
        for order in ('default', 'little', 'big'):
            ev.append(('crc32c', di, order))
    # calls a caller can get wrong: they may raise whatever they like, but must leave nothing behind
    ev += [('bad', 'crc32c-order', 'Big'), ('bad', 'crc32c-order', None), ('bad', 'crc32c-order', 'be'), ('bad', 'crc32c-data', 'text'),
           ('bad', 'crc16-data', 'text'), ('bad', 'crc16-data', None), ('bad', 'crc32c-data', [300, 1]), ('bad', 'crc16-data', [300, 1])]
    return ev


HIST_EVENTS = _hist_events()


def case_history(rec, hist):
    """a sequence of checksum calls in one process: every well-formed call returns the CRC of ITS data in ITS byte order,
    whatever was called (or failed) before"""
    from pytoniq_core.crypto.crc import crc16, crc32c
    rec.case('history')
    rec.state(('hist', tuple(hist)))
    rec.nontriv(('hist', tuple(hist)))
    names = [HIST_EVENTS[k] for k in hist]
    for step, e in enumerate(names):
        rec.trans()
        if e[0] == 'bad':
            try:
                if e[1] == 'crc32c-order':
                    crc32c(HIST_DATA[2], e[2])
                elif e[1] == 'crc32c-data':
                    crc32c(e[2])
                else:
                    crc16(e[2])
            except Exception:
                pass
            continue
        d = HIST_DATA[e[1]]
        try:
            if e[0] == 'crc16':
                got, want = crc16(d), R.crc16(d)
            else:
                got = crc32c(d) if e[2] == 'default' else crc32c(d, e[2])
                want = R.crc32c(d, 'little' if e[2] == 'default' else e[2])
        except Exception as ex:
            rec.violation('history:raises', f'calls {names[:step + 1]}: the last call raised {type(ex).__name__}: {ex}', 'case_history', {'hist': list(hist)})
            return
        rec.trace()
        if got != want:
            rec.violation('history:' + e[0], f'calls {names[:step + 1]}: the last call returned {got!r}, the checksum of its data is {want.hex()} '
                          f'(the result depends on earlier calls)', 'case_history', {'hist': list(hist)})
            rec.outcome('HISTORY-DEPENDENT')
            return
    rec.outcome('hist-ok')


def shard_history(rec, part, parts, depth):
    import itertools
    n = len(HIST_EVENTS)
    good = [k for k, e in enumerate(HIST_EVENTS) if e[0] != 'bad']
    k = 0
    for d in range(1, depth + 1):
        for pre in itertools.product(range(n), repeat=d - 1):
            for last in good:                      # histories ending in a well-formed call (the others are their prefixes)
                k += 1
                if k % parts == part:
                    case_history(rec, list(pre) + [last])
    rec.covered('history')
    if part == 0:
        rec.sample({'history': [list(map(str, HIST_EVENTS[-8])), list(map(str, HIST_EVENTS[1]))], 'events': n, 'depth': depth})


# ---------------------------------------------------------------- shards
def shard_short(rec):
    """all messages of length 0..2, both functions, all byte orders"""
    from pytoniq_core.crypto.crc import crc16, crc32c
    msgs = [b''] + [bytes([a]) for a in range(256)] + [bytes([a, b]) for a in range(256) for b in range(256)]
    prev = None
    for d in msgs:
        w16 = R.crc16(d)
        g16 = crc16(d)
        if prev is not None and prev[0] != prev[1]:
            rec.violation('crc16:held-result', f'the result of crc16({prev[2].hex()}) changed after crc16({d.hex()}) was computed: {bytes(prev[0]).hex()} instead of {prev[1].hex()}', 'shard_short', {})
            prev = None
        else:
            prev = (g16, w16, d)
        if g16 != w16:
            case_crc16(rec, d.hex())
        w32 = R.crc32c(d, 'little')
        if crc32c(d) != w32:
            case_crc32c(rec, d.hex(), 'default')
        if crc32c(d, 'little') != w32:
            case_crc32c(rec, d.hex(), 'little')
        if crc32c(d, 'big') != w32[::-1]:
            case_crc32c(rec, d.hex(), 'big')
    n = len(msgs)
    rec.case('crc16:len<=2', n)
    rec.case('crc32c:len<=2', 3 * n)
    rec.trace(4 * n)
    rec.trans(2 * (256 + 2 * 65536))
    rec.bulk(states=2 * n, nontrivial=2 * (n - 1))
    rec.covered('crc16:len0', 'crc32c:len0', 'crc32c:len2', 'crc32c:big')
    rec.sample({'fn': 'crc16', 'data': '3132', 'result': R.crc16(b'12').hex()})
    rec.outcome('short-ok')


def shard_temporaries(rec, form):
    """sixth session - argument objects with a short life: every message of a family is handed over as a TEMPORARY that dies right after the
    call (the next one is usually allocated at the same address, with the same length), or through ONE mutable buffer edited in place between
    the calls (same object, same length, other content).  Families: all messages of length 1 and 2, and for lengths 3, 4, 8, 20, 64, 300
    every value of the first, of a middle and of the last byte."""
    from pytoniq_core.crypto.crc import crc16, crc32c
    fams = [[bytes([a]) for a in range(256)], [bytes([a, b]) for a in range(256) for b in range(256)]]
    for L in (3, 4, 8, 20, 64, 300):
        for pos in (0, L // 2, L - 1):
            fams.append([bytes((i * 13 + L) % 256 if i != pos else v for i in range(L)) for v in range(256)])
    n = 0
    for fam in fams:
        L = len(fam[0])
        pad = bytes(L) + b'\xee'
        shared = bytearray(L)
        for name, f, ref in (('crc16', crc16, R.crc16), ('crc32c', crc32c, lambda d: R.crc32c(d, 'little'))):
            for m in fam:
                want = ref(m)
                if form == 'slice':
                    got = f((m + b'\xee')[:-1])
                elif form == 'concat':
                    got = f(m[:L // 2] + m[L // 2:] if L > 1 else bytes(bytearray(m)))
                elif form == 'bytearray-temp':
                    got = f(bytearray(m))
                elif form == 'bytearray-inplace':
                    shared[:] = m
                    got = f(shared)
                elif form == 'memoryview-window':
                    # the message as a window of a larger buffer (a packet without its trailer, a field inside a datagram)
                    got = f(memoryview(b'\x11\x22\x33' + m + b'\xee\xdd')[3:3 + L])
                elif form == 'memoryview-whole':
                    got = f(memoryview(m))
                elif form == 'memoryview-of-bytearray-window':
                    got = f(memoryview(bytearray(b'\x00' + m + b'\xff'))[1:1 + L])
                else:
                    raise ValueError(form)
                n += 1
                if bytes(got) != want:
                    rec.violation(f'{name}:temporary:{form}', f'{name} of the {L}-byte message {m.hex()[:80]} handed over as {form} (after other messages of the same length) '
                                  f'= {bytes(got).hex()}, reference {want.hex()}', 'shard_temporaries', {'form': form})
                    return
    rec.case(f'temporaries:{form}', n)
    rec.trace(n)
    rec.trans(n)
    rec.bulk(states=n, nontrivial=n)
    rec.covered('temporaries')
    rec.outcome('temporaries-ok')


def shard_extensions(rec):
    """wave 10: prefix-extension triples in one process - X, then X+T, then X+U (and X again, X+T again, both byte orders): every result is
    the checksum of ITS argument.  X of 0, 1, 31, 32, 33, 64, 100 bytes; T, U of 1, 4, 33 bytes; crc32c and crc16."""
    from pytoniq_core.crypto.crc import crc16, crc32c
    n = 0
    for LX in (0, 1, 31, 32, 33, 64, 100):
        X = bytes((i * 7 + LX) % 256 for i in range(LX))
        for LT in (1, 4, 33):
            T = bytes((i * 5 + 1) % 256 for i in range(LT))
            for LU in (1, 4, 33):
                U = bytes((i * 3 + 2) % 251 for i in range(LU))
                for order in itertools.permutations([X, X + T, X + U, X, X + T + U], 5) if (LT, LU) == (4, 4) else [[X, X + T, X + U, X, X + T, X + T + U, X + U]]:
                    for name, f, ref in (('crc32c', crc32c, lambda d: R.crc32c(d, 'little')), ('crc32c-big', lambda d: crc32c(d, 'big'), lambda d: R.crc32c(d, 'little')[::-1]),
                                         ('crc16', crc16, R.crc16)):
                        for k, m in enumerate(order):
                            n += 1
                            got = bytes(f(m))
                            if got != ref(m):
                                rec.violation(f'{name.split("-")[0]}:extension-history', f'{name}: call #{k} of the sequence of lengths {[len(x) for x in order]} (a message, extensions of it, '
                                              f'the message again): {got.hex()}, reference {ref(m).hex()}', 'shard_extensions', {})
                                return
    rec.case('extensions', n)
    rec.trace(n)
    rec.trans(n)
    rec.bulk(states=n, nontrivial=n)
    rec.covered('extensions')
    rec.outcome('extensions-ok')


def shard_crc16_len3(rec, p0_lo, p0_hi):
    from pytoniq_core.crypto.crc import crc16
    step = R.crc16_step
    regs = set()
    for p0 in range(p0_lo, p0_hi):
        s1 = step(0, p0)
        for p1 in range(256):
            s2 = step(s1, p1)
            regs.add(s2)
            pre = bytes([p0, p1])
            for b in range(256):
                if crc16(pre + bytes([b])) != step(s2, b).to_bytes(2, 'big'):
                    case_crc16(rec, (pre + bytes([b])).hex())
    n = (p0_hi - p0_lo) * 65536
    assert len(regs) == (p0_hi - p0_lo) * 256      # distinct registers: the prefix map is injective
    rec.case('crc16:len3', n)
    rec.trace(n)
    rec.trans(n)
    rec.bulk(states=n, nontrivial=n)
    rec.covered('crc16:len3')
    rec.notes[f'crc16_registers_{p0_lo:02x}'] = len(regs)
    rec.outcome('crc16-len3-ok')
    if p0_lo == 0:
        rec.sample({'fn': 'crc16', 'data': '00ff80', 'result': R.crc16(bytes.fromhex('00ff80')).hex()})


def shard_crc32_len3(rec, p0_lo, p0_hi):
    from pytoniq_core.crypto.crc import crc32c
    step = R.crc32c_step
    for p0 in range(p0_lo, p0_hi):
        s1 = step(0xFFFFFFFF, p0)
        for p1 in range(256):
            s2 = step(s1, p1)
            pre = bytes([p0, p1])
            for b in range(256):
                if crc32c(pre + bytes([b])) != (step(s2, b) ^ 0xFFFFFFFF).to_bytes(4, 'little'):
                    case_crc32c(rec, (pre + bytes([b])).hex(), 'default')
    n = (p0_hi - p0_lo) * 65536
    rec.case('crc32c:len3', n)
    rec.trace(n)
    rec.trans(n)
    rec.bulk(states=n, nontrivial=n)
    rec.outcome('crc32c-len3-ok')


def length_alphabet(tier):
    ls = set()
    for k in range(2, 19 if tier == 'quick' else 21):
        ls |= {(1 << k) - 1, 1 << k, (1 << k) + 1}
    for k in range(9, 17):
        ls |= {3 << k, (3 << k) + 1}
    for m in (2, 3, 4, 5):
        ls |= {65536 * m - 1, 65536 * m, 65536 * m + 1}
    ls |= {1000, 4095, 10 ** 4, 10 ** 5, 65521}
    return sorted(ls)


def shard_lengths(rec, part, parts):
    """block / word / buffer boundaries: every length 2^k-1, 2^k, 2^k+1 up to 2^18 (thorough 2^20), 3*2^k, multiples of 65536 +-1, a few others;
    two backgrounds; crc16 and crc32c in both byte orders against the table form of the bitwise reference.  Results are HELD: every result is
    compared again after the following call (a checksum handed out earlier must not change when another one is computed)."""
    from pytoniq_core.crypto.crc import crc16, crc32c
    held = []
    n = 0
    for i, L in enumerate(length_alphabet(rec.tier)):
        if i % parts != part:
            continue
        for bg_name in ('fill', '00'):
            m = (filler(rec.seed, f'crclen{L}', 4096) * (L // 4096 + 1))[:L] if bg_name == 'fill' else bytes(L)
            w32, w16 = R.crc32c_fast(m, 'little'), R.crc16_fast(m)
            for fn, got, want in (('crc32c', crc32c(m), w32), ('crc32c:big', crc32c(m, 'big'), w32[::-1]), ('crc16', crc16(m), w16)):
                n += 1
                if got != want:
                    rec.violation(f'{fn.split(":")[0]}:length', f'{fn} of a {L}-byte message ({bg_name}) is {bytes(got).hex()}, bitwise definition gives {want.hex()}', 'shard_lengths',
                                  {'part': part, 'parts': parts})
                for f2, g2, w2, L2 in held:
                    if g2 != w2:
                        rec.violation(f'{f2.split(":")[0]}:held-result', f'the result of {f2} on a {L2}-byte message changed after a later call ({fn} on {L} bytes): '
                                      f'{bytes(g2).hex()} instead of {w2.hex()}', 'shard_lengths', {'part': part, 'parts': parts})
                held = (held + [(fn, got, want, L)])[-3:]
            rec.state(('len', L, bg_name))
            rec.nontriv(('len', L, bg_name))
    rec.case('lengths', n)
    rec.trace(n)
    rec.trans(n)
    rec.covered('lengths', 'held-results')
    if part == 0:
        rec.sample({'fn': 'crc32c', 'len': 65536, 'background': 'filler(seed)', 'oracle': 'table form of the bitwise reference; result re-compared after the next 3 calls'})
    rec.outcome('lengths-ok')


def shard_long(rec, lens):
    """structured long messages: for lengths 4..4096 (boundaries), constant background 00/ff/filler with
    every single byte position set to each of 3 values; both byte orders and crc16"""
    from pytoniq_core.crypto.crc import crc16, crc32c
    seed = rec.seed
    n = 0
    for L in lens:
        for bg_name in ('00', 'ff', 'fill'):
            bg = bytes(L) if bg_name == '00' else b'\xff' * L if bg_name == 'ff' else filler(seed, f'crc{L}', L)
            positions = range(L) if L <= 300 else list(range(0, 40)) + list(range(L // 2 - 4, L // 2 + 4)) + list(range(L - 40, L))
            for pos in positions:
                for v in ((0x01, 0x80, 0xa5) if L < 1000 else (0x01, 0xa5)):
                    m = bytearray(bg)
                    m[pos] ^= v
                    m = bytes(m)
                    w = R.crc32c(m, 'little')
                    n += 1
                    if crc32c(m) != w or crc32c(m, 'big') != w[::-1]:
                        case_crc32c(rec, m.hex(), 'default')
                        case_crc32c(rec, m.hex(), 'big')
                    if crc16(m) != R.crc16(m):
                        case_crc16(rec, m.hex())
                    if n % 97 == 0:
                        rec.state(m)
                        rec.nontriv(m)
    rec.case('long', 3 * n)
    rec.trace(3 * n)
    rec.trans(n)
    rec.covered('crc32c:long')
    rec.sample({'fn': 'crc32c', 'len': 4096, 'background': 'filler(seed)', 'flipped_byte': 17})
    rec.outcome('long-ok')
