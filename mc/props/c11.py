"""C11 - Merkle proof checks are complete and sound (explorers E + D).

Completeness (E): every tree of the family x every subset of its nodes pruned (also nested: trees that
contain a Merkle update whose children are pruned one level deeper) wrapped into a Merkle proof is accepted by
check_proof against the original root hash, directly and after a BoC round trip; block-like trees through
check_block_header_proof (which must return the hash of the new state); shard states with account
dictionaries of 1..4 accounts (all divergence patterns of the 256-bit keys of the family), every account in
turn proven with everything else pruned, through check_account_proof (two-root BoC).

Soundness (D, k = 1): every single mutation of an accepted proof - every bit of the expected hash, every data
bit of every unpruned cell, dropped / duplicated / swapped references, every stored hash and depth of every
pruned branch, the Merkle root replaced by other cell types, the root's stored hash, wrong claimed account
states (another account, a pruned-branch cell carrying the committed hash, a bit-flipped cell), wrong
address, wrong block id, wrong number / order of roots - must be rejected with an exception.
"""
import itertools
from ..ref import cell as RC
from ..ref import boc as RBOC
from ..ref import bits as RB
from ..ref import hashmap as RH
from . import c02, dags
from .common import to_lib, from_lib, filler, exc_name

ID = 'C11'
TITLE = 'Merkle proof checks are complete and sound'
EXPLORER = 'E (all trees of the family x all prune sets; all account dictionaries of the family x every account) + D (every single mutation of every accepted proof)'
RULE = ('generic: every DAG shape with <= N cells (arity <= 2, plus 3- and 4-ary stars and a shared child) x every subset of nodes pruned, and block-like trees '
        '(root with four references, the third a Merkle update of two sub-trees) x every assignment keep / prune(level 1) / prune(level 2 inside the update) - wrapped in a Merkle '
        'proof: check_proof(proof, original root hash) must accept, also after to_boc/from_boc; check_block_header_proof must accept the block-like ones and return the level-0 '
        'hash of the new state. Account proofs: shard states (hand-encoded per block.tlb, accepted by the library parser) with account dictionaries for key sets {1 key; 2 keys '
        'diverging at bit 0 / 128 / 255; 3 and 4 keys mixing early and late divergence}, accounts with and without extra currencies (second reference in the leaf), account cell '
        'kept or pruned in the proof; every account in turn proven with everything else pruned: check_account_proof accepts and returns that account\'s descriptor. Soundness: all '
        'single mutations listed in the module docstring must raise. non-trivial = proof with at least one pruned branch; states = distinct proofs / mutants; transitions = check calls; '
        'traces = verdicts compared with the reference (accept for constructed proofs, reject for every mutant)')
RULE += ' Fifth session: the Merkle proof ROOT cell: stored depth bits, appended / removed data bit, duplicated / foreign second / dropped reference (handed to the library raw); every inner fault in two variants - Merkle cells above it keep their stored hashes (an invalid cell) or are re-made over the new children (a valid proof of another tree); a pruned branch claimed one level higher with an uncommitted extra hash.'
LEVEL_TEXT = ('Bounded-exhaustive in both directions: every small tree with every prune set (nested Merkle levels included) must verify, and every single-fault mutant of every such '
              'proof - in data, structure, committed hashes, root type, expected hash, claimed account state, address, block id and root list - must be refused.')
LEVEL_NOTE = 'trusted: mc/ref/cell.py (prune / mproof / mupdate constructors and level-aware hashes, validated by C02), mc/ref/boc.py, mc/ref/hashmap.py, mc/ref/bits.py'
TECHNIQUE = 'small-scope exhaustive enumeration of trees and prune sets plus exhaustive single-fault mutation of every accepted proof, against reference proof constructors'
RULE += " Account dictionaries carry real aggregates: every fork extra (and the root extra) is the sum of its subtree's DepthBalanceInfo, so forks above an account with extra currencies own a dictionary reference; claimed 'empty cell' / None for an account that exists behind a pruned branch must be rejected."
ASSUMPTIONS = ['proofs are built by the reference model (prune = replace a subtree by a pruned-branch cell carrying its level-wise hashes and depths)']
NOT_ASSERTED = ['check_shard_proof (not named by the property; needs a full masterchain state)',
                'mutations that leave the proof valid (e.g. swapping two identical references) are not generated']
RULE += " Sixth session: pruned-branch cells damaged in their raw data (every bit of the type and mask bytes, missing depth field, trailing data; also built under the old type, and hidden below a library cell with a reference) through check_proof and the header check; the forger's bag (a changed cell and the ordinary cells above it stored with the ORIGINAL cells' hashes and depths); a claimed account state that is the real cell with one sub-tree pruned."


def BOUNDS(tier):
    return {'tree_nodes': 3 if tier == 'quick' else 4, 'account_key_sets': len(KEYSETS), 'mutations': 'all single faults', 'exhaustive': True}


def REQUIRED_COVER(tier):
    return {'generic:accept', 'generic:boc', 'generic:nested', 'header:accept', 'account:accept', 'account:extra-currency', 'account:pruned-account', 'mut:expected-hash', 'mut:data-bit',
            'mut:drop-ref', 'mut:dup-ref', 'mut:swap-ref', 'mut:pruned-hash', 'mut:pruned-depth', 'mut:pruned-level', 'mut:pruned-raw', 'mut:stored-hashes', 'mut:root-type', 'mut:root-hash', 'mut:claimed-pruned', 'mut:claimed-partly-pruned', 'mut:unproven-account', 'mut:claimed-other',
            'mut:claimed-flip', 'mut:address', 'mut:block-id', 'mut:roots', 'mut:state-bit', 'mut:block-bit'}


# ------------------------------------------------------------------------------------------ helpers on reference cells
def rebuild(c, path, fn, refresh=False):
    """copy of tree c where the cell at `path` (tuple of child indexes) is replaced by fn(cell); ancestors are rebuilt
    (their hashes change accordingly).  A Merkle cell on the way either keeps its stored hashes (they are then NOT its children's any
    more: an invalid cell, built lax - the forger's cheap variant) or, with refresh, gets the new children's hashes and depths (a
    valid Merkle cell over another tree).  Raises RefCellError if the result is not a valid cell otherwise."""
    if not path:
        return fn(c)
    i = path[0]
    refs = list(c.refs)
    refs[i] = rebuild(refs[i], path[1:], fn, refresh)
    if c.special and c.type in (RC.MPROOF, RC.MUPDATE):
        if refresh:
            return RC.mproof(refs[0]) if c.type == RC.MPROOF else RC.mupdate(refs[0], refs[1])
        return RC.RCell(c.bits, tuple(refs), True, lax=True)
    return RC.RCell(c.bits, tuple(refs), c.special)


def walk(c, path=()):
    yield path, c
    for i, r in enumerate(c.refs):
        yield from walk(r, path + (i,))


def flip(bits, i):
    return bits[:i] + ('1' if bits[i] == '0' else '0') + bits[i + 1:]


PENDING = []


def proof_mutants(proof):
    """every single-fault mutant of a Merkle proof cell (reference cells).  yields (tag, description, RCell or exception)"""
    root = proof.refs[0]
    for path, c in walk(root):
        p = (0,) + path

        def attempt(tag, desc, fn):
            try:
                m = rebuild(proof, p, fn)
            except RC.RefCellError as e:
                return (tag, desc, e)
            try:
                # the same fault with every Merkle cell above it re-made over its new children (a VALID proof of another tree)
                PENDING.append((tag, desc + ' (Merkle cells above re-made)', rebuild(proof, p, fn, refresh=True)))
            except RC.RefCellError:
                pass
            return (tag, desc, m)
        if c.special and c.type == RC.PRUNED:
            n = bin(c.mask).count('1')
            for k in range(n):
                for b in (0, 255):
                    pos = 16 + 256 * k + b
                    yield attempt('mut:pruned-hash', f'pruned branch at {path}: stored hash {k} bit {b} flipped', lambda x, pos=pos: RC.RCell(flip(x.bits, pos), x.refs, True))
                pos = 16 + 256 * n + 16 * k + 15
                if k == 0 and c.mask == 1 and len(path) >= 1:
                    # the same branch claimed one level higher: it keeps its committed entries and gains one for a level that no Merkle
                    # cell above it accounts for (every level-0 hash stays what it was: only the LEVEL of the proof gives it away)
                    def lift(x, c=c):
                        raw = bytes(int(x.bits[i:i + 8], 2) for i in range(0, len(x.bits), 8))
                        nn = bin(c.mask).count('1')
                        hs = [raw[2 + 32 * j:34 + 32 * j] for j in range(nn)] + [bytes(range(32))]
                        ds = [int.from_bytes(raw[2 + 32 * nn + 2 * j:4 + 32 * nn + 2 * j], 'big') for j in range(nn)] + [7]
                        return RC.pruned_raw(3, hs, ds)
                    if True:
                        yield attempt('mut:pruned-level', f'pruned branch at {path}: claimed with level mask 0b11 and an extra (uncommitted) level-1 hash', lift)
                yield attempt('mut:pruned-depth', f'pruned branch at {path}: stored depth {k} changed', lambda x, pos=pos: RC.RCell(flip(x.bits, pos), x.refs, True))
            continue
        if c.special:
            continue            # nested Merkle cells: their fields are hashes of children, covered through the children
        for i in range(len(c.bits)):
            yield attempt('mut:data-bit', f'cell at {path}: data bit {i} flipped', lambda x, i=i: RC.RCell(flip(x.bits, i), x.refs, x.special))
        if len(c.bits) < 1023:
            yield attempt('mut:data-bit', f'cell at {path}: one data bit appended', lambda x: RC.RCell(x.bits + '0', x.refs, x.special))
        if c.bits:
            yield attempt('mut:data-bit', f'cell at {path}: last data bit removed', lambda x: RC.RCell(x.bits[:-1], x.refs, x.special))
        for i in range(len(c.refs)):
            yield attempt('mut:drop-ref', f'cell at {path}: reference {i} dropped', lambda x, i=i: RC.RCell(x.bits, x.refs[:i] + x.refs[i + 1:], x.special))
            if len(c.refs) < 4:
                yield attempt('mut:dup-ref', f'cell at {path}: reference {i} duplicated', lambda x, i=i: RC.RCell(x.bits, x.refs[:i + 1] + x.refs[i:], x.special))
            for j in range(i + 1, len(c.refs)):
                if c.refs[i].hash(0) != c.refs[j].hash(0):
                    def sw(x, i=i, j=j):
                        r = list(x.refs)
                        r[i], r[j] = r[j], r[i]
                        return RC.RCell(x.bits, tuple(r), x.special)
                    yield attempt('mut:swap-ref', f'cell at {path}: references {i} and {j} swapped', sw)
    while PENDING:
        yield PENDING.pop()
    # the root itself: a Merkle proof cell is its type byte, the child's level-0 hash and depth, one reference - and nothing else
    # (handed to the library RAW: ('raw', bits, reference cells, cell type) - the reference model would not even build them)
    for b in (0, 100, 255):
        yield ('mut:root-hash', f'Merkle root: stored hash bit {b} flipped', ('raw', flip(proof.bits, 8 + b), proof.refs, 3))
    for b in (264, 279):
        yield ('mut:root-depth', f'Merkle root: stored depth bit {b - 264} flipped', ('raw', flip(proof.bits, b), proof.refs, 3))
    yield ('mut:root-shape', 'Merkle root: one data bit appended', ('raw', proof.bits + '1', proof.refs, 3))
    yield ('mut:root-shape', 'Merkle root: last data bit removed', ('raw', proof.bits[:-1], proof.refs, 3))
    yield ('mut:root-shape', 'Merkle root: the reference duplicated', ('raw', proof.bits, proof.refs * 2, 3))
    yield ('mut:root-shape', 'Merkle root: a second (foreign) reference', ('raw', proof.bits, proof.refs + (RC.RCell('1'),), 3))
    yield ('mut:root-shape', 'Merkle root: the reference dropped', ('raw', proof.bits, (), 3))
    yield ('mut:root-type', 'root is an ordinary cell with the same data and child', wrap_try(lambda: RC.RCell(proof.bits, proof.refs, False)))
    yield ('mut:root-type', 'root is the proven tree itself (no Merkle wrapper)', root)
    yield ('mut:root-type', 'root is a Merkle update of the tree with itself', wrap_try(lambda: RC.mupdate(root, root)))
    yield ('mut:root-type', 'root is a library cell', RC.library(proof.bits[8:264] and bytes(int(proof.bits[8 + 8 * i:16 + 8 * i], 2) for i in range(32))))


def wrap_try(fn):
    try:
        return fn()
    except RC.RefCellError as e:
        return e


def lib_or_none(rc):
    """library twin of a reference cell; None if the library refuses to construct it (a rejection as good as any)"""
    try:
        return to_lib(rc, {})
    except Exception:
        return None


def raw_lib(m):
    """('raw', bits, reference cells, type) -> library cell built with the plain constructor, None if the library refuses it"""
    from pytoniq_core.boc import Cell
    from pytoniq_core.boc.tvm_bitarray import TvmBitarray
    _, bits, refs, typ = m
    memo = {}
    kids = [to_lib(r, memo) for r in refs]
    try:
        ba = TvmBitarray(1023)
        ba.extend(bits)
        return Cell(ba, kids, typ)
    except Exception:
        return None


def must_reject(rec, tag, what, thunk, fn, args, key):
    rec.trans()
    rec.covered(tag)
    try:
        thunk()
    except Exception:
        rec.trace()
        rec.outcome('rejected')
        return True
    rec.trace()
    rec.violation(f'{key}:{tag[4:]}', f'{what}: accepted', fn, args)
    rec.outcome('WRONGLY-ACCEPTED')
    return False


# ------------------------------------------------------------------------------------------ A. generic proofs
def generic_terms(nmax):
    """(name, term inside the proof) for all shapes x prune subsets, plus block-like nested terms"""
    for si, shape in enumerate(c02.base_shapes(nmax)):
        n = len(shape)
        for states in itertools.product((0, 1), repeat=n):
            yield f'shape{si}:{"".join(map(str, states))}', c02.shape_term(shape, states), False


def blockish_terms():
    """root(info, value_flow, MERKLE_UPDATE(old, new), extra): the update's children live one Merkle level deeper.
    node states: 0 keep, 1 prune at level 1; inside the update additionally 2 = prune at level 2"""
    for st in itertools.product((0, 1), repeat=3):
        for so in itertools.product((0, 1, 2), repeat=2):
            for sn in itertools.product((0, 1, 2), repeat=3):
                def mk(i, s, kids=()):
                    t = ('n', i, list(kids))
                    return ('p', s, t) if s else t
                old = mk(10, so[0], [mk(11, so[1])]) if so[0] == 0 else mk(10, so[0], [('n', 11, [])])
                # two children under the new state: siblings pruned at different Merkle levels give the parent a mask with both bits;
                # a node pruned at level 2 above a child that the original already holds pruned at level 1 gives a pruned branch with TWO significant levels (mask 0b11)
                new = mk(12, sn[0], [mk(13, sn[1]), mk(14, sn[2])]) if sn[0] == 0 else mk(12, sn[0], [mk(13, 1 if sn[1] == 1 and sn[0] == 2 else 0, [('n', 15, [])]), ('n', 14, [])])
                term = ('n', 0, [mk(1, st[0], [('n', 4, [])]), mk(2, st[1]), ('u', old, new), mk(3, st[2])])
                yield f'block:{"".join(map(str, st + so + sn))}', term, True


def strip_for_proof(term, inside_update=False):
    """the ORIGINAL tree a proof term denotes: prunings made by the prover (level 1 outside a Merkle update, level 2
    inside it) are undone; level-1 pruned branches inside a Merkle update belong to the original (that is how a block
    stores its state update) and stay"""
    k = term[0]
    if k == 'n':
        return ('n', term[1], [strip_for_proof(c, inside_update) for c in term[2]])
    if k == 'p':
        if inside_update and term[1] == 1:
            return ('p', 1, strip_for_proof(term[2], inside_update))
        return strip_for_proof(term[2], inside_update)
    if k == 'u':
        return ('u', strip_for_proof(term[1], True), strip_for_proof(term[2], True))
    return term


def case_generic(rec, name, nmax):
    from pytoniq_core.proof.check_proof import check_proof, check_block_header_proof
    from pytoniq_core.boc import Cell
    term, blockish = None, False
    for nm, t, bl in itertools.chain(generic_terms(nmax), blockish_terms()):
        if nm == name:
            term, blockish = t, bl
            break
    args = {'name': name, 'nmax': nmax}
    rec.case('generic')
    try:
        proof = c02.ev(('m', term))
        plain = c02.ev(strip_for_proof(term))
    except RC.RefCellError:
        return
    H = plain.hash()
    assert proof.refs[0].hash(0) == H, 'reference model: pruning changed the level-0 hash'
    rec.state(('generic', name))
    if any(c.special and c.type == RC.PRUNED for _, c in walk(proof)):
        rec.nontriv(('generic', name))
    if blockish:
        rec.covered('generic:nested')
    lp = lib_or_none(proof)
    if lp is None:
        rec.violation('generic:construct', f'{name}: the library cannot construct a valid proof tree', 'case_generic', args)
        return
    # completeness
    for route in ('direct', 'boc'):
        rec.trans()
        try:
            p = lp if route == 'direct' else Cell.one_from_boc(lp.to_boc())
            check_proof(p, H)
            rec.covered('generic:accept' if route == 'direct' else 'generic:boc')
            rec.trace()
        except Exception as e:
            rec.violation(f'generic:rejected:{route}', f'{name}: valid proof ({route}) rejected: {exc_name(e)}: {e}', 'case_generic', args)
            rec.outcome('WRONGLY-REJECTED')
            return
    if blockish:
        rec.trans()
        try:
            got = check_block_header_proof(lp[0], H, True)
            want = proof.refs[0].refs[2].refs[1].hash(0)
            rec.covered('header:accept')
            rec.trace()
            if got != want:
                rec.violation('header:state-hash', f'{name}: check_block_header_proof returned another state hash', 'case_generic', args)
            if check_block_header_proof(lp[0], H) is not None:
                rec.violation('header:return', f'{name}: check_block_header_proof without store_state_hash returned a value', 'case_generic', args)
        except Exception as e:
            rec.violation('header:rejected', f'{name}: valid block header proof rejected: {exc_name(e)}: {e}', 'case_generic', args)
            return
        for b in (0, 255):
            must_reject(rec, 'mut:expected-hash', f'{name}: header proof against a block hash with bit {b} flipped',
                        lambda b=b: check_block_header_proof(lp[0], bytes(x ^ (0x80 >> (b & 7)) if i == b >> 3 else x for i, x in enumerate(H))), 'case_generic', args, 'header')
    rec.outcome('accepted')
    # soundness
    for b in range(256):
        H2 = bytes(x ^ (0x80 >> (b & 7)) if i == b >> 3 else x for i, x in enumerate(H))
        must_reject(rec, 'mut:expected-hash', f'{name}: proof checked against the expected hash with bit {b} flipped', lambda H2=H2: check_proof(lp, H2), 'case_generic', args, 'generic')
    for tag, desc, m in proof_mutants(proof):
        if isinstance(m, Exception):
            continue                      # not even a cell
        if isinstance(m, tuple):
            rec.state(('mutant', name, desc))
            lm = raw_lib(m)
            if lm is None:
                rec.covered(tag)
                rec.outcome('unconstructible')
                continue
            must_reject(rec, tag, f'{name}: {desc}', lambda lm=lm: check_proof(lm, H), 'case_generic', args, 'generic')
            continue
        if not m.special or m.type != RC.MPROOF or m.refs[0].hash(0) != H or m.bits[8:264] != proof.bits[8:264]:
            pass
        else:
            continue                      # the mutation did not change anything that is committed (cannot happen for the generated faults)
        if tag == 'mut:data-bit' and not desc.endswith('re-made)') and ('bit 0 flipped' in desc or 'appended' in desc or 'removed' in desc):
            # the forger's BAG for the same fault (sixth session, wave 9): the changed cell and every ordinary cell above it are written in the
            # 'with hashes' form and carry the hashes and depths of the ORIGINAL cells - a reader that believes stored hashes sees the original proof
            twin = {}

            def pair(o, x):
                twin[(x.hash(), x.special)] = o
                for a, b in zip(o.refs, x.refs):
                    pair(a, b)
            if len(m.refs) == len(proof.refs):
                try:
                    pair(proof, m)
                    order = RBOC.topo([m])

                    def sp(i, hs, ds, order=order, twin=twin):
                        o = twin.get((order[i].hash(), order[i].special))
                        if o is None or o.mask != order[i].mask:
                            return hs, ds
                        sig = [l for l in range(4) if l == 0 or (o.mask >> (l - 1)) & 1]
                        return [o.hash(l) for l in sig], [o.depth(l) for l in sig]
                    bag = RBOC.encode([m], order=order, with_hashes=lambda c: not c.special, stored_patch=sp)
                except RC.RefCellError:
                    bag = None
                if bag is not None:
                    rec.state(('mutant-bag', name, desc))
                    must_reject(rec, 'mut:stored-hashes', f'{name}: {desc}, delivered as a bag whose ordinary cells carry the ORIGINAL cells\' stored hashes',
                                lambda bag=bag: check_proof(Cell.one_from_boc(bag), H), 'case_generic', args, 'generic')
                    if blockish:
                        must_reject(rec, 'mut:stored-hashes', f'{name} (header check): {desc}, delivered as a bag with the original cells\' stored hashes',
                                    lambda bag=bag: check_block_header_proof(Cell.one_from_boc(bag)[0], H, True), 'case_generic', args, 'header')
        lm = lib_or_none(m)
        rec.state(('mutant', name, desc))
        if lm is None:
            rec.covered(tag)
            rec.outcome('unconstructible')
            continue
        must_reject(rec, tag, f'{name}: {desc}', lambda lm=lm: check_proof(lm, H), 'case_generic', args, 'generic')
        if blockish and tag != 'mut:root-type' and tag != 'mut:root-hash' and len(lm.refs) == 1:
            must_reject(rec, tag, f'{name} (header check): {desc}', lambda lm=lm: check_block_header_proof(lm[0], H, True), 'case_generic', args, 'header')
    case_raw_pruned(rec, name, lp, proof, H, blockish, args)


def lib_rebuild(lc, path, new):
    """library-side twin of rebuild(): the tree lc with the cell at `path` replaced by `new`; ancestors re-made with the plain constructor,
    Merkle cells over their NEW children (valid Merkle cells).  Raises whatever the library raises (then the fault is refused at construction)."""
    from pytoniq_core.boc import Cell
    from pytoniq_core.boc.tvm_bitarray import TvmBitarray
    if not path:
        return new
    refs = list(lc.refs)
    refs[path[0]] = lib_rebuild(refs[path[0]], path[1:], new)
    bits = lc.bits.to01()
    if lc.type_ in (3, 4):
        lvl = 1
        body = ''.join(format(b, '08b') for r in refs for b in r.get_hash(0)) + ''.join(format(r.get_depth(0), '016b') for r in refs)
        bits = bits[:8] + body
    ba = TvmBitarray(1023)
    ba.extend(bits)
    return Cell(ba, refs, lc.type_)


def raw_pruned_mutants(c):
    """faults in the RAW data of a pruned-branch cell that the reference model would not even build: every bit of the type and level-mask
    bytes, a missing / shortened depth field, trailing data"""
    bits = c.bits
    for i in range(16):
        yield f'header bit {i} flipped ({"type" if i < 8 else "level mask"} byte)', flip(bits, i)
    n = bin(c.mask).count('1')
    yield 'depth fields missing', bits[:16 + 256 * n]
    yield 'last depth byte missing', bits[:-8]
    yield 'last bit missing', bits[:-1]
    for extra in ('1', '0' * 8, '10' * 8, '0' * 272):
        if len(bits) + len(extra) <= 1023:
            yield f'{len(extra)} trailing bits', bits + extra


def case_raw_pruned(rec, name, lp, proof, H, blockish, args):
    """sixth session: the pruned branches of an accepted proof, damaged in their raw data, must not be accepted"""
    from pytoniq_core.boc import Cell
    from pytoniq_core.boc.tvm_bitarray import TvmBitarray
    from pytoniq_core.proof.check_proof import check_proof, check_block_header_proof
    for path, c in walk(proof.refs[0]):
        if not (c.special and c.type == RC.PRUNED):
            continue
        for desc, bits in raw_pruned_mutants(c):
            rec.state(('raw-pruned', name, path, desc))
            rec.covered('mut:pruned-raw')
            try:
                ba = TvmBitarray(1023)
                ba.extend(bits)
                # the cell an exotic-flagged descriptor with this data denotes: its type is its first data byte (as the BoC reader takes it)
                t = int(bits[:8], 2)
                bad = Cell(ba, [], t - 256 if t >= 128 else t)
                lm = lib_rebuild(lp, (0,) + path, bad)
            except Exception:
                rec.trans()
                rec.outcome('unconstructible')
                continue
            must_reject(rec, 'mut:pruned-raw', f'{name}: pruned branch at {path}: {desc}', lambda lm=lm: check_proof(lm, H), 'case_generic', args, 'generic')
            if blockish and len(lm.refs) == 1:
                must_reject(rec, 'mut:pruned-raw', f'{name} (header check): pruned branch at {path}: {desc}', lambda lm=lm: check_block_header_proof(lm[0], H, True), 'case_generic', args, 'header')
        # the same damaged data handed to the plain constructor under the cell's OLD type (an in-memory cell whose first data byte is not
        # its type), and a pruned branch of another level hidden below a 'library cell' that has a reference (sixth session, wave 9)
        variants = []
        for i in range(8):
            variants.append((f'type byte bit {i} flipped, constructed as a pruned branch all the same', flip(c.bits, i), [], 1, None))
        if c.mask == 1 and path:
            moved = c.bits[:8] + '00000010' + c.bits[16:]
            variants.append(('hidden below a library cell with a reference, its level mask changed to 2', None, None, None, moved))
        for desc, bits, refs, typ, moved in variants:
            rec.state(('raw-pruned2', name, path, desc))
            rec.covered('mut:pruned-raw')
            try:
                if moved is None:
                    ba = TvmBitarray(1023)
                    ba.extend(bits)
                    bad = Cell(ba, refs, typ)
                else:
                    ba = TvmBitarray(1023)
                    ba.extend(moved)
                    inner = Cell(ba, [], 1)
                    lb = TvmBitarray(1023)
                    lb.extend('00000010' + ''.join(format(b, '08b') for b in inner.get_hash(0)))
                    bad = Cell(lb, [inner], 2)
                lm = lib_rebuild(lp, (0,) + path, bad)
            except Exception:
                rec.trans()
                rec.outcome('unconstructible')
                continue
            must_reject(rec, 'mut:pruned-raw', f'{name}: pruned branch at {path}: {desc}', lambda lm=lm: check_proof(lm, H), 'case_generic', args, 'generic')
            if blockish and len(lm.refs) == 1:
                must_reject(rec, 'mut:pruned-raw', f'{name} (header check): pruned branch at {path}: {desc}', lambda lm=lm: check_block_header_proof(lm[0], H, True), 'case_generic', args, 'header')


def shard_generic(rec, nmax, part, parts):
    names = [nm for nm, _, _ in itertools.chain(generic_terms(nmax), blockish_terms())]
    for i, nm in enumerate(names):
        if i % parts == part:
            case_generic(rec, nm, nmax)
    if part == 0:
        rec.sample({'tree': 'root(info, value_flow, MERKLE_UPDATE(old, new), extra)', 'pruned': 'value_flow@1, old@1, new.child@2', 'checks': 'check_proof, BoC round trip, header check, all single-fault mutants'})


# ------------------------------------------------------------------------------------------ C. account proofs
def K(*bits_set):
    v = 0
    for b in bits_set:
        v |= 1 << (255 - b)
    return v


BASE = int.from_bytes(bytes(range(7, 39)), 'big') & ~K(0, 128, 254, 255)
KEYSETS = [
    [BASE],
    [BASE, BASE | K(0)],
    [BASE, BASE | K(128)],
    [BASE, BASE | K(255)],
    [BASE, BASE | K(255), BASE | K(0)],
    [BASE, BASE | K(254), BASE | K(254, 255), BASE | K(0) | K(128)],
    [0, (1 << 256) - 1],
]


def account_cell(i, seed):
    """account$1 addr:MsgAddressInt storage_stat:StorageInfo storage:AccountStorage (uninit / active with code+data)"""
    key = filler(seed, f'c11-acct-{i}', 32)
    addr = RB.addr_std(0, key)
    used = RB.var_uint_l(i + 1, 3) + RB.var_uint_l(80 + i, 3) + RB.var_uint_l(0, 3)
    sinfo = used + RB.uint(1000 + i, 32) + '0'
    bal = RB.coins(10 ** 9 + i) + '0'
    if i % 2 == 0:
        state, refs = '1' + '0' + '0' + '1' + '1' + '0', (RC.RCell(format(i, '08b') * 4), RC.RCell('1' * (i + 1)))   # account_active: StateInit with code, data
    else:
        state, refs = '00', ()                                                                                            # account_uninit
    storage = RB.uint(5000 + i, 64) + bal + state
    return RC.RCell('1' + addr + sinfo + storage, refs)


def dbi(grams, cur, depth=0):
    """DepthBalanceInfo split_depth:(#<= 30) balance:CurrencyCollection with balance `grams` and extra currencies {id: amount}
    -> (bits, refs)"""
    if cur:
        return RB.uint(depth, 5) + RB.coins(grams) + '1', (RH.build({c: RB.var_uint_l(a, 5) for c, a in cur.items()}, 32),)
    return RB.uint(depth, 5) + RB.coins(grams) + '0', ()


SPLIT_DEPTHS = [0, 30, 29, 1]       # per account index: both ends of the (#<= 30) range occur in leaves, the maximum in the forks above


_DBI = {}           # (bits, refs) of an extra -> (grams, currencies): the fork extra is the SUM over its subtree, as in a real state


def leaf_value(i, seed, with_extra):
    """-> ((value bits, value refs) of the ShardAccount, account cell, last_trans_hash, last_trans_lt); the leaf's extra
    (DepthBalanceInfo: its balance; an extra-currency dictionary = one more reference in front) is produced by leaf_extra"""
    acc = account_cell(i, seed)
    lth = filler(seed, f'c11-lth-{i}', 32)
    value = RB.bytes_bits(lth) + RB.uint(77000 + i, 64)
    sem = (10 ** 9 + i, {7: 1000 + i} if with_extra else {}, SPLIT_DEPTHS[i % 4])
    _LEAF_SEM[value] = sem
    return (value, (acc,)), acc, lth, 77000 + i


_LEAF_SEM = {}


def leaf_extra(v):
    sem = _LEAF_SEM[v[0]]
    x = dbi(*sem)
    _DBI[x] = sem
    return x


def fork_extra(le, re):
    (g1, c1, d1), (g2, c2, d2) = _DBI[le], _DBI[re]
    cur = dict(c1)
    for c, a in c2.items():
        cur[c] = cur.get(c, 0) + a
    x = dbi(g1 + g2, cur, max(d1, d2))
    _DBI[x] = (g1 + g2, cur, max(d1, d2))
    return x


def shard_state(keys, seed, extra_mask):
    """-> (state cell, {key: (account cell, last_trans_hash, last_trans_lt)})"""
    mapping, info = {}, {}
    for i, k in enumerate(keys):
        (vb, vr), acc, lth, lt = leaf_value(i, seed, bool(extra_mask >> i & 1))
        mapping[k] = (vb, vr)
        info[k] = (acc, lth, lt)
    root, root_extra = RH._edge({RH._keybits(k, 256): RH._norm_value(v) for k, v in mapping.items()}, 256, '', None, (leaf_extra, fork_extra))
    accounts = RC.RCell('1' + root_extra[0], (root,) + tuple(root_extra[1]))     # ahme_root$1 root:^(HashmapAug ..) extra:Y
    omq = RC.RCell('0' + '0' * 64 + '0' + '0')
    misc = RC.RCell(RB.uint(1, 64) + RB.uint(2, 64) + RB.coins(10 ** 12) + '0' + RB.coins(7) + '0' + '0' + '0')
    bits = '10010000001000111010111111100010' + RB.sint(-239, 32) + '00' + RB.uint(0, 6) + RB.sint(0, 32) + RB.uint(1 << 63, 64) + RB.uint(123, 32) + RB.uint(0, 32) + \
        RB.uint(1700000000, 32) + RB.uint(99, 64) + RB.uint(100, 32)
    state = RC.RCell(bits + '0' + '0', (omq, accounts, misc))
    return state, info


def leaf_path(state, key):
    """path of child indexes from the state root to the dictionary leaf of `key`"""
    path = [1, 0]
    c = state.refs[1].refs[0]
    m = 256
    kb = format(key, '0256b')
    pos = 0
    while True:
        label, p, _ = RH.read_label(c.bits, 0, m)
        assert kb[pos:pos + len(label)] == label
        pos += len(label)
        m -= len(label)
        if m == 0:
            return tuple(path)
        b = int(kb[pos])
        path.append(b)
        c = c.refs[b]
        pos += 1
        m -= 1


def prune_except(c, keep, lvl, path=()):
    """keep: set of paths that must stay unpruned (with all their ancestors); everything else becomes a pruned branch"""
    if not any(k[:len(path)] == path for k in keep):
        return RC.prune(c, lvl)
    full = any(k == path[:len(k)] and sub for k, sub in keep.items())
    if full:
        return c
    return RC.RCell(c.bits, tuple(prune_except(r, keep, lvl, path + (i,)) for i, r in enumerate(c.refs)), c.special)


def block_for(state_old, state_new):
    info = RC.RCell('1001101111000111' * 3, (RC.RCell('0101'),))
    vf = RC.RCell('10111000' * 4, (RC.RCell('1'), RC.RCell('0')))
    extra = RC.RCell('01001010' * 4, (RC.RCell('11'),))
    upd = RC.mupdate(RC.prune(state_old, 1), RC.prune(state_new, 1))
    return RC.RCell('00010001111011110101010110101010' + RB.sint(-239, 32), (info, vf, upd, extra))


def account_case(rec, ks, extra_mask, keep_account):
    from pytoniq_core.proof.check_proof import check_account_proof
    from pytoniq_core.tl.block import BlockIdExt
    from pytoniq_core.boc import Address, Cell
    seed = rec.seed
    keys = KEYSETS[ks]
    args = {'ks': ks, 'extra_mask': extra_mask, 'keep_account': keep_account}
    state, info = shard_state(keys, seed, extra_mask)
    old_state, _ = shard_state(keys[:1], seed + 1, 0)
    block = block_for(old_state, state)
    bproof = RC.mproof(prune_except(block, {(0,): True, (2,): True}, 1))
    fh = filler(seed, 'c11-fh', 32)

    def blkid(h):
        return BlockIdExt(0, -(1 << 63), 100, h, fh)

    def addr(k):
        return Address((0, k.to_bytes(32, 'big')))
    for ti, target in enumerate(keys):
        rec.case('account')
        lp = leaf_path(state, target)
        keep = {lp: False}
        if keep_account:
            keep[lp + (len(state_cell_at(state, lp).refs) - 1,)] = True
        sproof = RC.mproof(prune_except(state, keep, 1))
        acc, lth, lt = info[target]
        what = f'key set #{ks}, account #{ti}{" (extra currencies)" if extra_mask >> ti & 1 else ""}{", account cell kept" if keep_account else ""}'
        rec.state(('account', ks, extra_mask, keep_account, ti))
        rec.nontriv(('account', ks, extra_mask, keep_account, ti))
        if extra_mask >> ti & 1:
            rec.covered('account:extra-currency')
        if not keep_account:
            rec.covered('account:pruned-account')
        boc = RBOC.encode([bproof, sproof], has_crc=True)
        lacc = to_lib(acc, {})
        rec.trans()
        try:
            d = check_account_proof(boc, blkid(block.hash()), addr(target), lacc, True)
            rec.trace()
        except Exception as e:
            rec.violation('account:rejected', f'{what}: valid account proof rejected: {exc_name(e)}: {e}', 'account_case', args)
            rec.outcome('WRONGLY-REJECTED')
            continue
        rec.covered('account:accept')
        if d is None or d.last_trans_lt != lt or d.last_trans_hash != lth:
            rec.violation('account:descr', f'{what}: returned account descriptor does not carry the proven last_trans_lt / last_trans_hash', 'account_case', args)
        try:
            if check_account_proof(boc, blkid(block.hash()), addr(target), lacc) is not None:
                rec.violation('account:return', f'{what}: returned a value without return_account_descr', 'account_case', args)
        except Exception as e:
            rec.violation('account:rejected', f'{what}: valid account proof rejected on the second call: {exc_name(e)}', 'account_case', args)
        rec.outcome('accepted')
        bid = blkid(block.hash())

        def rej(tag, desc, thunk):
            rec.state(('amut', ks, extra_mask, keep_account, ti, desc))
            return must_reject(rec, tag, f'{what}: {desc}', thunk, 'account_case', args, 'account')
        # claimed account state
        rej('mut:claimed-pruned', 'claimed state is a pruned-branch cell carrying the committed hash', lambda: check_account_proof(boc, bid, addr(target), to_lib(RC.prune(acc, 1), {})))
        rej('mut:claimed-pruned', 'claimed state is a 2-level pruned-branch cell carrying the committed hash',
            lambda: check_account_proof(boc, bid, addr(target), to_lib(RC.pruned_raw(3, [acc.hash(), acc.hash()], [acc.depth(), acc.depth()]), {})))
        # the real account state with one (every) sub-tree replaced by a pruned branch that carries the right hash and depth: an ORDINARY cell of
        # level 1 whose level-0 hash is the committed one but whose own hash is not (sixth session, wave 9)
        for ri in range(len(acc.refs)):
            partly = RC.RCell(acc.bits, tuple(RC.prune(r, 1) if j == ri else r for j, r in enumerate(acc.refs)))
            rej('mut:claimed-partly-pruned', f'claimed state is the account cell with its reference {ri} replaced by a pruned branch (level-0 hash as committed)',
                lambda partly=partly: check_account_proof(boc, bid, addr(target), to_lib(partly, {})))
            rec.covered('mut:claimed-partly-pruned')
        for oi, other in enumerate(keys):
            if other != target:
                rej('mut:claimed-other', f'claimed state is account #{oi}', lambda other=other: check_account_proof(boc, bid, addr(target), to_lib(info[other][0], {})))
                rej('mut:address', f'address of account #{oi} (its leaf is pruned in this proof)', lambda other=other: check_account_proof(boc, bid, addr(other), lacc))
                # ... also when the claimed state IS that account's state and an earlier call in this process (another proof of the same state) did reach
                # its leaf: this proof does not prove it (wave 10: an accumulator of parsed leaves that outlives the call)
                rej('mut:unproven-account', f'address AND true state of account #{oi}, whose leaf is pruned in this proof',
                    lambda other=other: check_account_proof(boc, bid, addr(other), to_lib(info[other][0], {})))
                rec.covered('mut:unproven-account')
                # an account whose path is cut by a pruned branch is not "absent": nothing can be claimed about it from this proof
                rej('mut:claimed-empty', f'empty cell claimed for account #{oi}, which exists behind a pruned branch of this proof',
                    lambda other=other: check_account_proof(boc, bid, addr(other), Cell.empty()))
                rej('mut:claimed-empty', f'no state (None) claimed for account #{oi}, which exists behind a pruned branch of this proof',
                    lambda other=other: check_account_proof(boc, bid, addr(other), None))
        for b in (0, len(acc.bits) // 2, len(acc.bits) - 1):
            rej('mut:claimed-flip', f'claimed state with data bit {b} flipped', lambda b=b: check_account_proof(boc, bid, addr(target), to_lib(RC.RCell(flip(acc.bits, b), acc.refs), {})))
        rej('mut:address', 'address not in the dictionary', lambda: check_account_proof(boc, bid, addr(target ^ K(200)), lacc))
        for b in (0, 255):
            H2 = bytes(x ^ (0x80 >> (b & 7)) if i == b >> 3 else x for i, x in enumerate(block.hash()))
            rej('mut:block-id', f'block id root hash bit {b} flipped', lambda H2=H2: check_account_proof(boc, blkid(H2), addr(target), lacc))
        # root list
        for desc, roots in (('roots swapped', [sproof, bproof]), ('only the block proof', [bproof]), ('only the state proof', [sproof]), ('three roots', [bproof, sproof, sproof]),
                            ('state proof twice', [sproof, sproof]), ('block proof twice', [bproof, bproof])):
            b2 = RBOC.encode(roots, has_crc=True)
            rej('mut:roots', desc, lambda b2=b2: check_account_proof(b2, bid, addr(target), lacc))
        # state proof for another state / mutated state cells, mutated block proof
        for tag, which, proof in (('mut:state-bit', 'state', sproof), ('mut:block-bit', 'block', bproof)):
            for mtag, desc, m in proof_mutants(proof):
                if isinstance(m, Exception):
                    continue
                if mtag == 'mut:root-hash':
                    continue        # the root's own hash field is not what check_account_proof compares (it compares the child's level-0 hash with the committed one)
                if mtag == 'mut:data-bit' and rec.tier == 'quick' and 'bit' in desc and which == 'state':
                    # quick: every 5th data bit of the state cells (thorough: all)
                    try:
                        bi = int(desc.split('data bit ')[1].split(' ')[0])
                        if bi % 5:
                            continue
                    except (IndexError, ValueError):
                        pass
                try:
                    b2 = RBOC.encode([m, sproof] if which == 'block' else [bproof, m], has_crc=True)
                except Exception:
                    continue
                rej(tag if mtag in ('mut:data-bit',) else mtag, f'{which} proof: {desc}', lambda b2=b2: check_account_proof(b2, bid, addr(target), lacc))
    if ks == 1 and extra_mask == 0 and not keep_account:
        rec.sample({'accounts': [hex(k)[:18] + '...' for k in keys], 'proof': 'two-root BoC [block header proof, state proof with one dictionary path kept]',
                    'mutants': 'claimed state, address, block id, root list, every kept cell'})


def state_cell_at(c, path):
    for i in path:
        c = c.refs[i]
    return c


def shard_accounts(rec, ks, part=0, parts=1):
    n = len(KEYSETS[ks])
    masks = sorted({0, (1 << n) - 1, 1, 1 << (n - 1)})
    i = 0
    for em in masks:
        for keep in (False, True):
            i += 1
            if i % parts == part:
                account_case(rec, ks, em, keep)


def selftest():
    # the hand-encoded shard state is what the schema says: decode it with the schema interpreter
    import os
    from .. import repo
    from ..ref import tlb as RTLB
    S = RTLB.Schema(open(os.path.join(repo.REPO, 'pytoniq_core', 'tlb', 'schemas', 'block.tlb')).read())
    for ks, em in ((1, 0), (5, 0b1010)):
        state, info = shard_state(KEYSETS[ks], 0, em)
        sl = RTLB.Slice(state)
        v = S.decode('ShardStateUnsplit', sl)
        assert sl.bits_left() == 0 and sl.refs_left() == 0
        assert sorted(v['accounts']['dict']) == sorted(KEYSETS[ks])
        for k in KEYSETS[ks]:
            assert v['accounts']['dict'][k]['last_trans_lt'] == info[k][2]
    # pruning preserves level-0 hashes
    st, _ = shard_state(KEYSETS[2], 0, 0)
    assert prune_except(st, {leaf_path(st, KEYSETS[2][1]): False}, 1).hash(0) == st.hash()


def shards(tier, seed):
    nmax = 3 if tier == 'quick' else 4
    parts = 16 if tier == 'quick' else 48
    out = [{'fn': 'shard_generic', 'args': {'nmax': nmax, 'part': p, 'parts': parts}, 'prio': 2} for p in range(parts)]
    for ks in range(len(KEYSETS)):
        for part in range(4):
            out.append({'fn': 'shard_accounts', 'args': {'ks': ks, 'part': part, 'parts': 4}, 'prio': 3})
    return out
