"""Enumeration of DAG *shapes*: node 0 is the root, node i has an ordered list of 0..max_refs
children chosen among the later nodes (duplicates allowed), every node reachable from the root.
This is every cell DAG with n distinct cells up to the choice of payloads."""
import itertools
from ..ref import cell as RC


def _child_lists(targets, max_refs):
    for k in range(0, max_refs + 1):
        if k and not targets:
            break
        for combo in itertools.product(targets, repeat=k):
            yield combo


def enum_shapes(n, max_refs=4):
    per_node = [list(_child_lists(list(range(i + 1, n)), max_refs)) for i in range(n)]
    for shape in itertools.product(*per_node):
        # reachability from node 0
        seen = {0}
        stack = [0]
        while stack:
            for c in shape[stack.pop()]:
                if c not in seen:
                    seen.add(c)
                    stack.append(c)
        if len(seen) == n:
            yield shape


def count_shapes(n, max_refs=4):
    return sum(1 for _ in enum_shapes(n, max_refs))


def payload(i, variant, seed=0):
    """distinct data bits for node i.  variants: 'a' byte aligned, 'u' unaligned, 'e' empty-ish (only
    node index in unary so that distinct nodes stay distinct), 'x' long unaligned"""
    tag = format(i + 1, '04b')
    if variant == 'a':
        return tag + '1010'
    if variant == 'u':
        return tag + '1'
    if variant == 'e':
        return '1' * i
    if variant == 'x':
        return tag + '01' * 300 + '1'
    if variant == 'z':
        return tag + '0000'          # aligned, ends with zeros (completion-tag look-alike)
    raise ValueError(variant)


def build_ref(shape, variants):
    """shape + per-node payload variants -> list of RCell (index = node)"""
    n = len(shape)
    cells = [None] * n
    for i in reversed(range(n)):
        cells[i] = RC.RCell(payload(i, variants[i % len(variants)]), tuple(cells[c] for c in shape[i]))
    return cells
