"""C05 - BoC parser agrees with the format on foreign input and rejects corruption (explorers D + E).

Positive: for each DAG of a small family the reference encoder's freedoms are choice points
(default = the minimal encoding); all executions with <= k deviations are run (plus the FULL product
for a 2-cell DAG).  Negative: for the default and every 1-deviation encoding, every proper prefix,
1..4 appended bytes, every single-bit flip when a CRC protects the input, every reference index
replaced by self/backward/out-of-range values, root index out of range.
"""
import itertools
from ..ref import cell as RC
from ..ref import boc as RB
from .. import engine
from . import dags
from .common import lib_canon, exc_name

ID = 'C05'
TITLE = 'BoC parser agrees with the format on foreign input and rejects corruption'
EXPLORER = 'D (deviation-bounded enumeration over encoder freedoms) + E (all corruptions of each explored encoding)'
RULE = ('positive: DAG family (every shape <= N cells incl. shared children, plus exotic trees with masks 1,3 and a library cell, two-root '
        'forests) x encoder freedoms as choice points [ref-index width 1..4, offset width min/min+1/8, index, cache bits (+cache flag values), '
        'CRC, stored hashes none/all/root-only, root list variants (single, two roots, root listed twice, three roots, root not cell 0), every '
        'linear extension of the DAG order, the three magic prefixes]; default + all executions with <= k deviations (k=2 quick, 3 thorough) and '
        'the full product for a 2-cell DAG; Cell.from_boc must return exactly the denoted roots (hash and structure). negative: for the default '
        'and each 1-deviation encoding: every proper prefix, 1..4 appended bytes (00/ff), every single-bit flip of CRC-protected input, every '
        'reference index set to self/backward/>= cell count, root index out of range - the parser must raise. non-trivial = encoding differs '
        'from the default or is corrupted; states = distinct byte strings fed to the parser; transitions = parser calls; traces = positive '
        'encodings whose parse result was compared with the reference roots')
LEVEL_TEXT = ('Deviation-bounded exhaustive exploration of every freedom a conforming serialized_boc writer has (bound k reported), driven '
              'through the real parser and compared with the roots the encoding denotes; and complete enumeration of the corruption classes '
              'the property names for each explored encoding.')
LEVEL_NOTE = ('trusted: mc/ref/boc.py encoder (self-consistent with the strict decoder which accepts a node-written block); stored hashes only for '
              'level masks 0,1,3,7 where TON writer and reader agree on the count')
TECHNIQUE = 'deviation-bounded exhaustive enumeration of valid encodings plus exhaustive single-fault corruption, against a reference codec'
RULE += ' Reference graph: EVERY DAG shape with <= 4 cells (thorough: also 5 cells with <= 1 reference each) x EVERY linear extension x EVERY reference slot set to EVERY other index value 0..n+1 and 255, with and without (recomputed) CRC: self / backward (to a leaf or not) / dangling must raise; another forward index gives another bag - if the strict reference decoder accepts it the parser must return what it denotes.'
ASSUMPTIONS = ['encodings with more than k simultaneous non-default choices are not explored (except the full product on the 2-cell DAG)']
NOT_ASSERTED = ['rejection of bit flips in input that carries no CRC', 'absent cells > 0', 'stored-hash layout for level masks with gaps (TON writer/reader disagree)']
RULE += ' Sixth session: every positive case asks the SAME Boc parser object twice (the caller empties the first list in between); reference-index corruption goes through every entry point (Cell.from_boc / one_from_boc, Slice.one_from_boc, Builder.from_boc, Boc.deserialize() / (Cell) / (Slice)) and a retry on the same parser object.'


def BOUNDS(tier):
    return {'deviation_bound_k': 2 if tier == 'quick' else 3, 'dag_nodes': 3 if tier == 'quick' else 4, 'full_product_dag': '2 cells, shared child',
            'corruptions': ['all proper prefixes', '1..4 appended bytes', 'all single-bit flips (CRC on)', 'all bad ref indexes', 'bad root index'],
            'exhaustive': True}


def selftest():
    RB.selftest()


def REQUIRED_COVER(tier):
    return {'magic:idx', 'magic:idx_crc', 'hashes:all', 'roots:2', 'roots:dup', 'order:alt', 'size:4', 'off:8', 'cache', 'neg:prefix', 'neg:flip', 'neg:ref',
            'neg:root', 'neg:extend', 'full-product', 'neg:ref:backward-leaf', 'neg:ref:self', 'neg:ref:dangling', 'neg:ref:backward', 'boc-object-again'}


# ------------------------------------------------------------------ DAG family (small)
def family(tier):
    from . import c02
    fam = []
    nmax = 3 if tier == 'quick' else 4
    for n in range(1, nmax + 1):
        for si, shape in enumerate(dags.enum_shapes(n, max_refs=2 if n == 4 else 4)):
            if n == 3 and si % 3 and tier == 'quick':
                continue
            if n == 4 and si % 5:
                continue
            fam.append((f'shape:{n}:{si}', [dags.build_ref(shape, 'ua')[0]]))
    # exotic: proof with a level-1 prune (masks 1 and 0), nested (mask 3), library
    fam.append(('exotic:l1', [c02.ev(('m', c02.shape_term(((1, 2), (2,), ()), (0, 1, 0))))]))
    fam.append(('exotic:l2', [c02.ev(('m', ('n', 0, [('m', ('n', 1, [('p', 2, ('n', 2, [('p', 1, ('n', 3, []))]))])), ('p', 1, ('n', 4, []))])))]))
    fam.append(('exotic:lib', [RC.RCell('1', (RC.library(bytes(range(32))),))]))
    fam.append(('exotic:mask7', [RC.RCell('1', (RC.pruned_raw(7, [bytes([i]) * 32 for i in (1, 2, 3)], [1, 2, 3]), RC.RCell('0')))]))
    # maximal cells: 1016..1023 data bits (the last data byte with every residue; 1017..1023 bits arrive as 128 raw bytes) x 0 / 4 references
    for L in (1015, 1016, 1017, 1020, 1023):
        for nrefs in (0, 4):
            kids = tuple(RC.RCell(format(i, '03b')) for i in range(nrefs))
            fam.append((f'full:{L}:{nrefs}', [RC.RCell(('10' * 512)[:L - 1] + '1', kids)]))
            fam.append((f'fullchild:{L}:{nrefs}', [RC.RCell('1', (RC.RCell(('01' * 512)[:L], kids),))]))
    # an exotic cell and an ordinary cell with identical bits in one bag (both orders)
    lib = RC.library(bytes(range(32)))
    fam.append(('twin:lib', [RC.RCell('1', (lib, RC.RCell(lib.bits)))]))
    pr = RC.prune(RC.RCell('1010', (RC.RCell('1'),)), 1)
    fam.append(('twin:pruned', [RC.mproof(RC.RCell('01', (RC.RCell(pr.bits), pr)))]))
    # forests: two unrelated roots; two roots sharing a child
    a, b = RC.RCell('1010'), RC.RCell('0101')
    fam.append(('forest:2', [RC.RCell('11', (a,)), RC.RCell('00', (b, a))]))
    return fam


def root_variants(roots, order):
    """root-list alternatives (lists of RCell) valid for this order; first = as given"""
    cells = order
    out = [list(roots)]
    if len(cells) >= 2:
        out.append([roots[0], cells[-1]])           # two roots: root + a leaf
        out.append([cells[-1], roots[0]])           # root not listed first
        out.append([roots[0], roots[0]])            # same cell twice
        out.append([roots[0], cells[1], cells[-1]])
    else:
        out.append([roots[0], roots[0]])
    return out


def choice_domains(roots):
    base_order = RB.topo(roots)
    exts = RB.linear_extensions(base_order, limit=24)
    n = len(base_order)
    payload = len(RB.encode(roots)) * 2
    minsize = RB.min_bytes(n)
    sizes = [s for s in (1, 2, 3, 4) if s >= minsize]
    hashable = lambda c: c.type != RC.PRUNED and c.mask in (0, 1, 3, 7)
    doms = {
        'size': sizes,
        'off': ['min', 'min+1', 8],
        'idx': [False, True],
        'cache': [False, True],
        'cacheflag': ['zeros', 'ones', 'alt'],
        'crc': [False, True],
        'hashes': ['none', 'all', 'root'],
        'roots': list(range(len(root_variants(roots, base_order)))),
        'order': list(range(len(exts))),
        'magic': ['generic', 'idx', 'idx_crc'],
    }
    return doms, exts, hashable


def build_encoding(roots, doms, exts, hashable, assign):
    """assign: dict name -> index.  returns (bytes, denoted roots) or None if the combination is not a
    valid encoding (cache bits without index, lean magic with several roots ...)"""
    g = {k: doms[k][assign.get(k, 0)] for k in doms}
    order = exts[g['order']]
    rv = root_variants(roots, order)[g['roots']]
    magic = g['magic']
    has_idx, has_cache, has_crc = g['idx'], g['cache'], g['crc']
    if has_cache and not has_idx:
        return None
    if g['cacheflag'] != 'zeros' and not has_cache:
        return None
    if magic != 'generic':
        if has_cache or len(rv) != 1 or order[0] is not rv[0] or not has_idx:
            return None
        if (magic == 'idx_crc') != has_crc:
            return None
    # every cell must be reachable from the root list (they are: rv always contains all original roots)
    if not all(any(r is x for x in rv) for r in roots):
        return None
    wh = {'none': (lambda c: False), 'all': hashable, 'root': (lambda c: hashable(c) and any(c is r for r in roots))}[g['hashes']]
    cf = {'zeros': (lambda i: 0), 'ones': (lambda i: 1), 'alt': (lambda i: i & 1)}[g['cacheflag']]
    need = None
    data0 = RB.encode(rv, order=order, size=g['size'], has_idx=has_idx, has_cache=has_cache, has_crc=has_crc, magic=magic, with_hashes=wh, cache_flag=cf)
    off = g['off']
    if off != 'min':
        minoff = data0[5]
        o = minoff + 1 if off == 'min+1' else 8
        if o > 8 or o == minoff:
            return None
        data0 = RB.encode(rv, order=order, size=g['size'], off=o, has_idx=has_idx, has_cache=has_cache, has_crc=has_crc, magic=magic, with_hashes=wh, cache_flag=cf)
    return data0, rv, g


NAMES = ['size', 'off', 'idx', 'cache', 'cacheflag', 'crc', 'hashes', 'roots', 'order', 'magic']


def _cover(rec, g, rv, roots):
    if g['magic'] != 'generic':
        rec.covered('magic:' + g['magic'])
    if g['hashes'] == 'all':
        rec.covered('hashes:all')
    if len(rv) == 2 and rv[0] is not rv[1]:
        rec.covered('roots:2')
    if len(rv) == 2 and rv[0] is rv[1]:
        rec.covered('roots:dup')
    if g['order']:
        rec.covered('order:alt')
    if g['size'] == 4:
        rec.covered('size:4')
    if g['off'] == 8:
        rec.covered('off:8')
    if g['cache']:
        rec.covered('cache')


def check_positive(rec, name, data, rv, fn, args, label):
    from pytoniq_core.boc import Cell
    rec.trans()
    try:
        got = Cell.from_boc(data)
    except Exception as e:
        rec.violation(f'positive:{label}', f'{name}: valid encoding [{label}] rejected: {exc_name(e)}: {e} ({data.hex()[:80]}...)', fn, args)
        rec.outcome('REJECTED-VALID')
        return False
    rec.trace()
    ok = len(got) == len(rv) and all(g.hash == r.hash() and lib_canon(g) == RC.canon(r) for g, r in zip(got, rv))
    if not ok:
        rec.violation(f'positive-roots:{label}', f'{name}: encoding [{label}] parsed to other roots ({len(got)} roots, expected {len(rv)})', fn, args)
        rec.outcome('WRONG-ROOTS')
        return False
    # the parser OBJECT asked again (sixth session, wave 9): the caller empties the list it got, asks the same Boc object again - the roots of
    # the encoding again, in a list of its own
    try:
        from pytoniq_core.boc.deserialize import Boc
        b = Boc(data)
        r1 = b.deserialize()
        n1 = len(r1)
        if isinstance(r1, list):
            r1.clear()
        r2 = b.deserialize()
        ok2 = n1 == len(rv) and len(r2) == len(rv) and all(g.hash == r.hash() and lib_canon(g) == RC.canon(r) for g, r in zip(r2, rv))
    except Exception as e:
        rec.violation(f'positive-again:{label}', f'{name}: encoding [{label}]: the same Boc object asked twice: {exc_name(e)}: {e}', fn, args)
        return False
    if not ok2:
        rec.violation(f'positive-again:{label}', f'{name}: encoding [{label}]: the same Boc object asked a second time (after the caller emptied the first list) returned '
                      f'{len(r2)} root(s), expected {len(rv)}', fn, args)
        return False
    rec.covered('boc-object-again')
    rec.outcome('roots-ok')
    return True


def _label(assign, doms):
    return ','.join(f'{k}={doms[k][v]}' for k, v in assign.items() if v) or 'default'


def case_positive(rec, dag, assign, _minimal=None):
    """_minimal: list of already failing deviation sets (items); supersets are counted but not reported again"""
    fam = dict(family('thorough' if dag.startswith('shape:4') else rec.tier))
    if dag not in fam:
        fam = dict(family('thorough'))
    roots = fam[dag]
    doms, exts, hashable = choice_domains(roots)
    enc = build_encoding(roots, doms, exts, hashable, assign)
    rec.case('positive')
    if enc is None:
        return
    data, rv, g = enc
    _cover(rec, g, rv, roots)
    rec.state(data)
    if assign:
        rec.nontriv(data)
    items = set(assign.items())
    if _minimal is not None and any(m <= items for m in _minimal):
        sub = engine.Recorder(rec.prop, rec.tier, rec.seed)      # superset of a reported failing set: evaluate silently
        check_positive(sub, dag, data, rv, 'case_positive', {'dag': dag, 'assign': assign}, _label(assign, doms))
        rec.trans()
        rec.outcome('superset-of-reported' if sub.violations else 'roots-ok')
        return
    ok = check_positive(rec, dag, data, rv, 'case_positive', {'dag': dag, 'assign': assign}, _label(assign, doms))
    if not ok and _minimal is not None:
        _minimal.append(items)


def negatives(data, rv_count, info_cells, size, has_crc):
    """yield (kind, corrupted bytes)"""
    for i in range(len(data)):
        yield 'prefix', data[:i]
    for tail in (b'\x00', b'\xff', b'\x00\x00', b'\xff\x00\x00', b'\x00\x00\x00\x00', b'\xff\xff\xff\xff'):
        yield 'extend', data + tail
    if has_crc:
        for i in range(len(data) * 8):
            b = bytearray(data)
            b[i >> 3] ^= 0x80 >> (i & 7)
            yield 'flip', bytes(b)


def case_negative(rec, dag, assign):
    """all corruptions of one valid encoding"""
    from pytoniq_core.boc import Cell
    fam = dict(family('thorough'))
    roots = fam[dag]
    doms, exts, hashable = choice_domains(roots)
    enc = build_encoding(roots, doms, exts, hashable, assign)
    if enc is None:
        return
    data, rv, g = enc
    args = {'dag': dag, 'assign': assign}
    label = _label(assign, doms)
    n_cells = len(exts[0])

    def must_raise(kind, bad, detail):
        rec.case(f'neg:{kind}')
        rec.trans()
        rec.covered(f'neg:{kind}')
        try:
            with rec.limit(20):
                got = Cell.from_boc(bad)
        except engine.CaseTimeout:
            rec.violation(f'negative-hang:{kind}', f'{dag} [{label}] {detail}: parser did not return within 20 s', 'case_negative', args)
            return
        except Exception as e:
            rec.outcome(f'neg-raise:{exc_name(e)}')
            return
        rec.violation(f'negative:{kind}', f'{dag} [{label}] {detail}: parser returned {len(got)} root(s) instead of raising ({bad.hex()[:60]}...)',
                      'case_negative', args)
        rec.outcome(f'ACCEPTED-{kind}')

    k = 0
    for kind, bad in negatives(data, len(rv), None, g['size'], g['crc']):
        k += 1
        must_raise(kind, bad, f'#{k}')
    rec.bulk(states=k, nontrivial=k)
    # reference-index corruptions: re-encode with one reference index replaced
    order = exts[g['order']]
    wh = {'none': (lambda c: False), 'all': hashable, 'root': (lambda c: hashable(c) and any(c is r for r in roots))}[g['hashes']]
    for ci, c in enumerate(order):
        for ri in range(len(c.refs)):
            bads = list(range(0, ci + 1)) + [n_cells, n_cells + 1, (1 << (8 * g['size'])) - 1]
            for v in bads:
                def patch(i, refs, ci=ci, ri=ri, v=v):
                    if i == ci:
                        refs = list(refs)
                        refs[ri] = v
                    return refs
                if g['magic'] != 'generic':
                    bad = RB.encode(rv, order=order, size=g['size'], has_idx=True, has_crc=g['crc'], magic=g['magic'], with_hashes=wh, raw_patch=patch)
                else:
                    bad = RB.encode(rv, order=order, size=g['size'], has_idx=g['idx'], has_cache=g['cache'], has_crc=g['crc'], with_hashes=wh, raw_patch=patch)
                must_raise('ref', bad, f'cell {ci} ref {ri} -> {v}')
                rec.bulk(states=1, nontrivial=1)
    if g['magic'] == 'generic':
        for v in (n_cells, n_cells + 7, (1 << (8 * g['size'])) - 1):
            bad = RB.encode(rv, order=order, size=g['size'], has_idx=g['idx'], has_cache=g['cache'], has_crc=g['crc'], with_hashes=wh,
                            root_idx=[v] + [0] * (len(rv) - 1))
            must_raise('root', bad, f'root index {v}')
            rec.bulk(states=1, nontrivial=1)


def shard_dag(rec, dag, k, negative):
    fam = dict(family(rec.tier))
    roots = fam[dag]
    doms, exts, hashable = choice_domains(roots)
    domains = [len(doms[n]) for n in NAMES]
    minimal = []
    for a in engine.deviations(domains, k):
        assign = {n: v for n, v in zip(NAMES, a) if v}
        case_positive(rec, dag, assign, minimal)
        if negative and sum(1 for v in a if v) <= 1:
            case_negative(rec, dag, assign)
        # cache bits / crc interplay needs idx: explore {idx=1} as a second default for the pairs below
    # second default polarity: idx on (cache bits, lean magics and cache flags only exist with an index)
    for a in engine.deviations(domains, max(1, k - 1)):
        assign = {n: v for n, v in zip(NAMES, a) if v}
        if 'idx' in assign:
            continue
        assign['idx'] = 1
        case_positive(rec, dag, assign, minimal)
        if negative and len(assign) <= 2 and ('cache' in assign or 'magic' in assign or 'crc' in assign or len(assign) == 1):
            case_negative(rec, dag, assign)
    # third default polarity: idx + crc on (lean crc magic)
    for a in engine.deviations(domains, 1):
        assign = {n: v for n, v in zip(NAMES, a) if v}
        if 'idx' in assign or 'crc' in assign:
            continue
        assign['idx'] = 1
        assign['crc'] = 1
        case_positive(rec, dag, assign, minimal)
        if negative and 'magic' in assign:
            case_negative(rec, dag, assign)
    rec.sample({'dag': dag, 'deviation_bound': k, 'choice_points': {n: [str(x) for x in doms[n]] for n in NAMES}})


def refgraph_shapes(tier):
    out = []
    for n in (2, 3, 4) + ((5,) if tier == 'thorough' else ()):
        for si, shape in enumerate(dags.enum_shapes(n, max_refs=4 if n <= 3 else 2 if n == 4 else 1)):
            out.append((n, si, shape))
    return out


def shard_refgraph(rec, part, parts):
    """reference-index corruption over the whole small-DAG space: EVERY DAG shape (<= 4 cells; thorough also the 5-cell
    shapes with <= 1 ref per cell), EVERY valid cell order of it, EVERY reference slot set to EVERY other index value
    (self, each backward position - leaf or not -, each other forward position, n, n+1, max) - with and without CRC
    (the CRC is recomputed: the bag is internally consistent apart from the reference)."""
    for idx, (n, si, shape) in enumerate(refgraph_shapes(rec.tier)):
        if idx % parts == part:
            case_refgraph(rec, n, si)
    if part == 0:
        rec.sample({'refgraph': 'every shape x every linear extension x every reference slot x every index value'})


def case_refgraph(rec, n, si, only=None):
    from pytoniq_core.boc import Cell
    shape = next(sh for k, sh in enumerate(dags.enum_shapes(n, max_refs=4 if n <= 3 else 2 if n == 4 else 1)) if k == si)
    root = dags.build_ref(shape, 'ua')[0]
    exts = RB.linear_extensions(RB.topo([root]))
    args = {'n': n, 'si': si}
    for oi, order in enumerate(exts):
        for ci, c in enumerate(order):
            for ri in range(len(c.refs)):
                good = next(i for i, x in enumerate(order) if x is c.refs[ri] or x.hash() == c.refs[ri].hash())
                for v in list(range(0, n + 2)) + [255]:
                    if v == good:
                        continue
                    for crc in (False, True):
                        def patch(i, refs, ci=ci, ri=ri, v=v):
                            if i == ci:
                                refs = list(refs)
                                refs[ri] = v
                            return refs
                        bad = RB.encode([root], order=order, has_crc=crc, raw_patch=patch)
                        rec.case('neg:refgraph')
                        rec.trans()
                        rec.bulk(states=1, nontrivial=1)
                        detail = f'shape {n}:{si} order #{oi} cell {ci} ref {ri}: {good} -> {v} (crc={crc})'
                        if ci < v < n:
                            # another FORWARD index: a different bag; if it is well-formed the parser must return what it denotes
                            try:
                                want, _ = RB.decode(bad)
                            except RB.BocFormatError:
                                rec.outcome('forward:not-well-formed')
                                continue
                            try:
                                got = Cell.from_boc(bad)
                            except Exception as e:
                                rec.violation('refgraph:forward-rejected', f'{detail}: well-formed bag rejected: {exc_name(e)}: {e}', 'case_refgraph', args)
                                continue
                            rec.trace()
                            if len(got) != len(want) or any(g.hash != w.hash() or lib_canon(g) != RC.canon(w) for g, w in zip(got, want)):
                                rec.violation('refgraph:forward-other', f'{detail}: parser returned other roots than the encoding denotes', 'case_refgraph', args)
                            rec.outcome('forward:same')
                            continue
                        kind = 'self' if v == ci else 'backward' if v < ci else 'dangling'
                        if v < ci and not order[v].refs:
                            kind = 'backward-leaf'
                        rec.covered(f'neg:ref:{kind}')
                        # every entry point: the three classes' from_boc / one_from_boc and the parser object asked for each class
                        from pytoniq_core.boc import Slice, Builder
                        from pytoniq_core.boc.deserialize import Boc
                        entries = [('Cell.from_boc', lambda: Cell.from_boc(bad)), ('Cell.one_from_boc', lambda: [Cell.one_from_boc(bad)]),
                                   ('Slice.one_from_boc', lambda: [Slice.one_from_boc(bad)]), ('Builder.from_boc', lambda: Builder.from_boc(bad)),
                                   ('Boc.deserialize()', lambda: Boc(bad).deserialize()), ('Boc.deserialize(Cell)', lambda: Boc(bad).deserialize(Cell)),
                                   ('Boc.deserialize(Slice)', lambda: Boc(bad).deserialize(Slice))]
                        def retry():
                            b = Boc(bad)
                            try:
                                b.deserialize()
                            except Exception:
                                pass
                            return b.deserialize()      # the same object asked again after it refused the bag: refused again
                        entries.append(('Boc object asked again', retry))
                        for ename, thunk in entries:
                            try:
                                got = thunk()
                            except Exception as e:
                                rec.outcome(f'neg-raise:{exc_name(e)}')
                                continue
                            rec.violation(f'negative:ref:{kind}' + ('' if ename == 'Cell.from_boc' else f':{ename}'), f'{detail}: {kind} reference accepted by {ename}, which returned {len(got)} object(s) ({bad.hex()[:80]})', 'case_refgraph', args)
                            rec.outcome(f'ACCEPTED-{kind}')
                            break


def shard_full_product(rec, part, parts):
    """2-cell DAG with a shared child: FULL product of all freedoms"""
    a = RC.RCell('101')
    roots = [RC.RCell('0011', (a, a))]
    doms, exts, hashable = choice_domains(roots)
    i = 0
    minimal = []
    combos = sorted(itertools.product(*[range(len(doms[n])) for n in NAMES]), key=lambda c: sum(1 for v in c if v))
    for combo in combos:
        i += 1
        if i % parts != part:
            continue
        assign = {n: v for n, v in zip(NAMES, combo) if v}
        enc = build_encoding(roots, doms, exts, hashable, assign)
        rec.case('positive-full')
        if enc is None:
            continue
        data, rv, g = enc
        _cover(rec, g, rv, roots)
        rec.state(data)
        rec.nontriv(data)
        items = set(assign.items())
        if any(m <= items for m in minimal):
            sub = engine.Recorder(rec.prop, rec.tier, rec.seed)
            check_positive(sub, 'full:2', data, rv, 'case_full', {'assign': assign}, _label(assign, doms))
            rec.trans()
            rec.outcome('superset-of-reported' if sub.violations else 'roots-ok')
            continue
        if not check_positive(rec, 'full:2', data, rv, 'case_full', {'assign': assign}, _label(assign, doms)):
            minimal.append(items)
    rec.covered('full-product')


def case_full(rec, assign):
    a = RC.RCell('101')
    roots = [RC.RCell('0011', (a, a))]
    doms, exts, hashable = choice_domains(roots)
    enc = build_encoding(roots, doms, exts, hashable, assign)
    if enc:
        data, rv, g = enc
        check_positive(rec, 'full:2', data, rv, 'case_full', {'assign': assign}, _label(assign, doms))


def shards(tier, seed):
    k = 2 if tier == 'quick' else 3
    out = []
    fam = family(tier)
    for i, (name, roots) in enumerate(fam):
        n = len(RB.topo(roots))
        negative = tier == 'thorough' or n <= 3
        out.append({'fn': 'shard_dag', 'args': {'dag': name, 'k': k, 'negative': negative}, 'prio': n})
    for p in range(8):
        out.append({'fn': 'shard_full_product', 'args': {'part': p, 'parts': 8}})
    for p in range(8):
        out.append({'fn': 'shard_refgraph', 'args': {'part': p, 'parts': 8}})
    return out
