"""C17 - TVM stack values round-trip and serialising does not consume them (explorers E + S).

E: every stack of depth 0..D over a value alphabet (null, integer boundaries, cells, fresh / partly
   consumed slices, builders, nested tuples, all ten continuation kinds with control-data variants):
   VmStack.serialize -> the cell is decoded by the schema-driven reference interpreter (mc/ref/tlb.py on
   the bundled block.tlb) and by the library parser; both must give the logical values back.  Foreign
   encodings written by the reference encoder (257-bit form for small integers, slices kept as
   cell + offsets) must be read by the library parser.
S: breadth-first search over histories of serialize / deserialize / caller-side tuple growth on a pool
   of caller-held values that alias each other; after every event every caller-held value is unchanged,
   and serialising equal values gives the identical cell however the state was reached.
"""
import itertools, os
from ..ref import cell as RC
from ..ref import tlb as RTLB
from ..ref import hashmap as RH
from .common import to_lib as cell_to_lib, from_lib, exc_name, lib_canon

ID = 'C17'
TITLE = 'TVM stack values round-trip and serialising does not consume them'
EXPLORER = 'E (all stacks up to depth D over the value alphabet, reference schema decode) + S (BFS over serialize/deserialize/append histories on aliased caller-held values)'
RULE = ('value alphabet: null; integers {0,1,-1,2^63-1,2^63,-2^63,-2^63-1,2^255,-2^255,2^256-1,-2^256}; cell; slice fresh / partly consumed in bits and refs / '
        'fully consumed; builder; tuples of length 0..4 and nested to depth 3 (all VmTupleRef forms); the ten continuation kinds with control-data variants '
        '(nargs none/0/5, stack none/empty/2 values, saved registers none/1/2, cp none/0/-1). Stacks: every sequence of length 0..2 over the alphabet '
        'and of length 3 (thorough: 4) over a reduced 10-value alphabet. Oracle: the serialised cell decodes under the bundled block.tlb (independent schema interpreter) with '
        'every bit and reference consumed to the same logical values in the same order; tinyint form iff the value fits 64 bits (either form for -2^63); '
        'the library parser returns equal values and consumes the slice; the caller\'s values are unchanged and a second serialisation gives the same cell; '
        'reference-written alternative encodings parse to the same values. History search: events ser_stack / ser_value / ser_tuple / deserialize / '
        'tuple.append / tuple.pop / in-place edit of tuple.list on a shared pool, depth 3 (4 thorough). non-trivial = stack with a tuple, slice or continuation; states = distinct stacks / canonical pools; '
        'transitions = library calls; traces = reference decodes and logical comparisons')
RULE += ' Fifth session: parsed stacks (own and foreign encodings; since the sixth session continuations too) are serialised again, twice, and decoded per schema; stacks of 254..1022 values and tuples of up to 255 entries under the default recursion limit.'
LEVEL_TEXT = ('Bounded-exhaustive: all short stacks over a value alphabet that contains every constructor of VmStackValue, every VmTuple/VmTupleRef shape and '
              'every VmCont kind are serialised by the real code and read back both by an independent interpreter of the TL-B schema and by the library; '
              'an explicit-state search over use histories checks that serialising never consumes or aliases caller-held values.')
LEVEL_NOTE = 'trusted: mc/ref/tlb.py (decodes the complete main-net block under block.tlb with nothing left over), mc/ref/cell.py, mc/ref/hashmap.py'
TECHNIQUE = 'small-scope exhaustive enumeration of stacks against a schema-driven reference decoder, plus explicit-state BFS over use histories'
RULE += ' History pool additionally holds two reference-written stack cells (empty / 1- / 2-tuples, nested): parse, edit the parsed tuples, parse again.'
ASSUMPTIONS = ['the bundled block.tlb is the specification of VmStack', 'values are compared logically (cells by hash, slices by remaining bits and references)']
NOT_ASSERTED = ['the Python types used for control-data fields differ between serialiser input (cells) and parser output (list / dict of slices); they are compared by content',
                'the 64-bit vs 257-bit form for exactly -2^63 (TON and the schema allow both)', 'NaN and raw bytes values (not in the property\'s list of supported values)']
RULE += ' Sixth session: refused calls inside histories (a tuple poisoned with an integer outside the 257-bit range, repaired later: nothing changes, nothing is remembered); parsed continuations are serialised again; tuples nested 1..700 levels (recorded finding above about 330).'


def BOUNDS(tier):
    return {'stack_depth_full_alphabet': 2, 'stack_depth_reduced_alphabet': 3 if tier == 'quick' else 4, 'tuple_nesting': 3, 'tuple_lengths': [0, 1, 2, 3, 4], 'history_depth': 3 if tier == 'quick' else 4, 'exhaustive': True}


def REQUIRED_COVER(tier):
    return {'v:null', 'v:int', 'v:cell', 'v:slice', 'v:builder', 'v:tuple', 'v:cont', 'int:tiny', 'int:big', 'tuple:len0', 'tuple:len1', 'tuple:len2', 'tuple:len3', 'tuple:nested',
            'slice:consumed', 'cont:std', 'cont:envelope', 'cont:quit', 'cont:quit_exc', 'cont:repeat', 'cont:until', 'cont:again', 'cont:while_cond', 'cont:while_body',
            'cont:pushint', 'cdata:nargs0', 'cdata:cp0', 'cdata:stack', 'cdata:save', 'foreign:int257', 'foreign:slice-offsets', 'history:rearrival', 'history:alias', 'history:refused-call', 'deep:stack', 'deep:tuple'}


# ------------------------------------------------------------------------------------------ alphabet (JSON-able specs)
CELLS = [RC.RCell(''), RC.RCell('1011001', (RC.RCell('11110000'), RC.RCell('0'))), RC.RCell('10' * 100 + '1', (RC.RCell('1'),) * 4)]
INTS = [0, 1, -1, (1 << 63) - 1, 1 << 63, -(1 << 63), -(1 << 63) - 1, 1 << 255, -(1 << 255), (1 << 256) - 1, -(1 << 256)]


def I(v):
    return ['int', str(v)]


QUIT = ['cont', 'quit', 7]
CD_NONE = {'nargs': None, 'stack': None, 'save': None, 'cp': None}


def cdata_variants():
    out = [CD_NONE]
    out.append({'nargs': 0, 'stack': None, 'save': None, 'cp': 0})
    out.append({'nargs': 5, 'stack': [], 'save': {'0': QUIT}, 'cp': -1})
    out.append({'nargs': 8191, 'stack': [I(3), I(1 << 70)], 'save': {'0': QUIT, '7': ['tuple', [I(1), I(2)]]}, 'cp': 32767})
    out.append({'nargs': None, 'stack': [['null']], 'save': {'4': ['cell', 0]}, 'cp': -32768})
    return out


def cont_alphabet():
    out = [QUIT, ['cont', 'quit', -(1 << 31)], ['cont', 'quit_exc'],
           ['cont', 'repeat', str((1 << 63) - 1), QUIT, ['cont', 'quit_exc']], ['cont', 'repeat', '0', QUIT, QUIT],
           ['cont', 'until', QUIT, ['cont', 'quit_exc']], ['cont', 'again', QUIT],
           ['cont', 'while_cond', QUIT, ['cont', 'quit_exc'], ['cont', 'quit', 1]], ['cont', 'while_body', QUIT, ['cont', 'quit_exc'], ['cont', 'quit', 1]],
           ['cont', 'pushint', (1 << 31) - 1, QUIT], ['cont', 'pushint', -1, ['cont', 'pushint', 0, QUIT]]]
    for cd in cdata_variants():
        out.append(['cont', 'std', cd, ['slice', 1, 0, 0]])
        out.append(['cont', 'envelope', cd, QUIT])
    out.append(['cont', 'std', CD_NONE, ['slice', 1, 3, 1]])
    out.append(['cont', 'envelope', CD_NONE, ['cont', 'std', cdata_variants()[2], ['slice', 2, 0, 2]]])
    return out


def tuple_alphabet():
    a, b, c, d = I(1), I(1 << 200), ['null'], ['cell', 1]
    out = [['tuple', []], ['tuple', [a]], ['tuple', [a, b]], ['tuple', [a, b, c]], ['tuple', [a, b, c, d]],
           ['tuple', [['tuple', []]]], ['tuple', [['tuple', [a]], b]], ['tuple', [a, ['tuple', [b, ['tuple', [c, d, a]]]], ['slice', 1, 2, 1]]],
           ['tuple', [['tuple', [a, b, c]], ['tuple', [d, a]], ['builder', 1]]], ['tuple', [QUIT, ['tuple', []], a]]]
    return out


def value_alphabet(tier):
    vals = [['null']] + [I(v) for v in INTS]
    vals += [['cell', 0], ['cell', 1], ['cell', 2]]
    vals += [['slice', 0, 0, 0], ['slice', 1, 0, 0], ['slice', 1, 3, 0], ['slice', 1, 0, 1], ['slice', 1, 7, 2], ['slice', 2, 200, 3], ['slice', 2, 201, 4]]
    vals += [['builder', 0], ['builder', 1], ['builder', 2]]
    vals += tuple_alphabet()
    vals += cont_alphabet()
    return vals


def reduced_alphabet():
    return [['null'], I(5), I(1 << 63), ['cell', 1], ['slice', 1, 3, 1], ['builder', 1], ['tuple', [I(1), I(2)]], ['tuple', [I(1), ['tuple', [I(2), I(3), I(4)]], ['null']]],
            QUIT, ['cont', 'std', cdata_variants()[2], ['slice', 1, 0, 0]]]


# ------------------------------------------------------------------------------------------ logical values
def lv_spec(s):
    """expected logical value of a spec"""
    k = s[0]
    if k == 'null':
        return ('null',)
    if k == 'int':
        return ('int', int(s[1]))
    if k == 'cell':
        return ('cell', CELLS[s[1]].hash().hex())
    if k == 'slice':
        c = CELLS[s[1]]
        return ('slice', c.bits[s[2]:], tuple(r.hash().hex() for r in c.refs[s[3]:]))
    if k == 'builder':
        c = CELLS[s[1]]
        return ('builder', c.bits, tuple(r.hash().hex() for r in c.refs))
    if k == 'tuple':
        return ('tuple', tuple(lv_spec(x) for x in s[1]))
    if k == 'cont':
        kind = s[1]
        if kind == 'quit':
            return ('cont', 'quit', int(s[2]))
        if kind == 'quit_exc':
            return ('cont', 'quit_exc')
        if kind == 'repeat':
            return ('cont', 'repeat', int(s[2]), lv_spec(s[3]), lv_spec(s[4]))
        if kind in ('until',):
            return ('cont', kind, lv_spec(s[2]), lv_spec(s[3]))
        if kind == 'again':
            return ('cont', 'again', lv_spec(s[2]))
        if kind in ('while_cond', 'while_body'):
            return ('cont', kind, lv_spec(s[2]), lv_spec(s[3]), lv_spec(s[4]))
        if kind == 'pushint':
            return ('cont', 'pushint', int(s[2]), lv_spec(s[3]))
        if kind == 'std':
            return ('cont', 'std', lv_cdata_spec(s[2]), lv_spec(s[3]))
        if kind == 'envelope':
            return ('cont', 'envelope', lv_cdata_spec(s[2]), lv_spec(s[3]))
    raise ValueError(s)


def lv_cdata_spec(cd):
    return ('cdata', cd['nargs'], None if cd['stack'] is None else tuple(lv_spec(x) for x in cd['stack']),
            tuple(sorted((int(k), lv_spec(v)) for k, v in (cd['save'] or {}).items())), cd['cp'])


def spec_tags(s, acc):
    k = s[0]
    acc.add('v:' + k)
    if k == 'int':
        acc.add('int:tiny' if -(1 << 63) <= int(s[1]) < (1 << 63) else 'int:big')
    if k == 'slice' and (s[2] or s[3]):
        acc.add('slice:consumed')
    if k == 'tuple':
        acc.add(f'tuple:len{min(len(s[1]), 3)}')
        for x in s[1]:
            if x[0] == 'tuple':
                acc.add('tuple:nested')
            spec_tags(x, acc)
    if k == 'cont':
        acc.add('cont:' + s[1])
        for x in s[2:]:
            if isinstance(x, list) and x and isinstance(x[0], str):
                spec_tags(x, acc)
            if isinstance(x, dict):
                if x['nargs'] == 0:
                    acc.add('cdata:nargs0')
                if x['cp'] == 0:
                    acc.add('cdata:cp0')
                if x['stack']:
                    acc.add('cdata:stack')
                if x['save']:
                    acc.add('cdata:save')
    return acc


# ------------------------------------------------------------------------------------------ spec -> library objects
_libcells = {}


def libcell(k):
    if k not in _libcells:
        _libcells[k] = cell_to_lib(CELLS[k])
    return _libcells[k]


def to_lib(s):
    from pytoniq_core.boc import Builder
    from pytoniq_core.boc.hashmap import HashMap
    from pytoniq_core.tlb.vm_stack import VmTuple, VmCont, VmControlData, VmStack, VmStackValue
    k = s[0]
    if k == 'null':
        return None
    if k == 'int':
        return int(s[1])
    if k == 'cell':
        return libcell(s[1]).copy()
    if k == 'slice':
        sl = libcell(s[1]).begin_parse()
        if s[2]:
            sl.load_bits(s[2])
        for _ in range(s[3]):
            sl.load_ref()
        return sl
    if k == 'builder':
        return libcell(s[1]).to_builder()
    if k == 'tuple':
        return VmTuple([to_lib(x) for x in s[1]])
    if k == 'cont':
        kind = s[1]
        if kind == 'quit':
            return VmCont('vmc_quit', exit_code=int(s[2]))
        if kind == 'quit_exc':
            return VmCont('vmc_quit_exc')
        if kind == 'repeat':
            return VmCont('vmc_repeat', count=int(s[2]), body=to_lib(s[3]), after=to_lib(s[4]))
        if kind == 'until':
            return VmCont('vmc_until', body=to_lib(s[2]), after=to_lib(s[3]))
        if kind == 'again':
            return VmCont('vmc_again', body=to_lib(s[2]))
        if kind in ('while_cond', 'while_body'):
            return VmCont('vmc_' + kind, cond=to_lib(s[2]), body=to_lib(s[3]), after=to_lib(s[4]))
        if kind == 'pushint':
            return VmCont('vmc_pushint', value=int(s[2]), next=to_lib(s[3]))
        cd = s[2]
        save = None
        if cd['save']:
            hm = HashMap(4, value_serializer=lambda src, dest: dest.store_cell(VmStackValue.serialize(src)))
            for kk, v in cd['save'].items():
                hm.set_int_key(int(kk), to_lib(v))
            save = hm.serialize()
        cdata = VmControlData('vm_ctl_data', nargs=cd['nargs'], stack=None if cd['stack'] is None else VmStack.serialize([to_lib(x) for x in cd['stack']]),
                              save=save, cp=cd['cp'])
        if kind == 'std':
            return VmCont('vmc_std', cdata=cdata, code=to_lib(s[3]))
        if kind == 'envelope':
            return VmCont('vmc_envelope', cdata=cdata, next=to_lib(s[3]))
    raise ValueError(s)


# ------------------------------------------------------------------------------------------ library objects -> logical values
SCH = {}


def schema():
    if 'S' not in SCH:
        from .. import repo
        SCH['S'] = RTLB.Schema(open(os.path.join(repo.REPO, 'pytoniq_core', 'tlb', 'schemas', 'block.tlb')).read())
    return SCH['S']


_LV_PATH = set()


def lv_lib(v):
    """logical value of a library object (caller-held or returned by the parser)"""
    from pytoniq_core.boc import Cell, Slice, Builder
    from pytoniq_core.tlb.vm_stack import VmTuple, VmCont
    if v is None:
        return ('null',)
    if isinstance(v, bool):
        return ('BOOL', v)
    if isinstance(v, int):
        return ('int', v)
    if isinstance(v, Cell):
        return ('cell', v.hash.hex())
    if isinstance(v, Slice):
        return ('slice', v.bits.to01(), tuple(r.hash.hex() for r in v.refs[v.ref_offset:]))
    if isinstance(v, Builder):
        return ('builder', v.bits.to01(), tuple(r.hash.hex() for r in v.refs))
    if isinstance(v, VmTuple):
        # a value returned by the code under test may be malformed in any way - also cyclic (a tuple that contains itself)
        if id(v) in _LV_PATH:
            return ('CYCLIC-TUPLE',)
        _LV_PATH.add(id(v))
        try:
            return ('tuple', tuple(lv_lib(x) for x in v.list))
        finally:
            _LV_PATH.discard(id(v))
    if isinstance(v, VmCont):
        t = v.type_[4:]
        g = lambda n: getattr(v, n, 'ABSENT')          # noqa
        if t == 'quit':
            return ('cont', 'quit', g('exit_code'))
        if t == 'quit_exc':
            return ('cont', 'quit_exc')
        if t == 'repeat':
            return ('cont', 'repeat', g('count'), lv_lib(g('body')), lv_lib(g('after')))
        if t == 'until':
            return ('cont', 'until', lv_lib(g('body')), lv_lib(g('after')))
        if t == 'again':
            return ('cont', 'again', lv_lib(g('body')))
        if t in ('while_cond', 'while_body'):
            return ('cont', t, lv_lib(g('cond')), lv_lib(g('body')), lv_lib(g('after')))
        if t == 'pushint':
            return ('cont', 'pushint', g('value'), lv_lib(g('next')))
        if t == 'std':
            return ('cont', 'std', lv_cdata_lib(g('cdata')), lv_lib(g('code')))
        if t == 'envelope':
            return ('cont', 'envelope', lv_cdata_lib(g('cdata')), lv_lib(g('next')))
    return ('UNKNOWN', type(v).__name__, repr(v)[:60])


def lv_cdata_lib(cd):
    from pytoniq_core.boc import Cell, Slice
    if cd == 'ABSENT':
        return ('cdata', 'ABSENT')
    nargs = getattr(cd, 'nargs', None)
    cp = getattr(cd, 'cp', None)
    st = getattr(cd, 'stack', None)
    if isinstance(st, Cell):        # serialiser-side representation: an encoded VmStack
        st = tuple(lv_ref(x) for x in ref_decode_stack(from_lib(st)))
    elif st is not None:
        st = tuple(lv_lib(x) for x in st)
    sv = getattr(cd, 'save', None)
    items = []
    if isinstance(sv, Cell):
        for k, (vb, vr) in RH.parse(from_lib(sv), 4)[0].items():
            items.append((k, lv_ref(ref_decode_value(RC.RCell(vb, vr)))))
    elif isinstance(sv, dict):
        for k, x in sv.items():
            if isinstance(x, Slice):
                items.append((k, lv_ref(ref_decode_value(RC.RCell(x.bits.to01(), tuple(from_lib(r) for r in x.refs[x.ref_offset:]))))))
            else:
                items.append((k, lv_lib(x)))
    elif sv is not None:
        items.append(('UNKNOWN-SAVE', repr(sv)[:40]))
    return ('cdata', nargs, st, tuple(sorted(items)), cp)


# ------------------------------------------------------------------------------------------ reference decode -> logical values
def ref_decode_stack(rc):
    S = schema()
    sl = RTLB.Slice(rc)
    v = S.decode('VmStack', sl)
    if sl.bits_left() or sl.refs_left():
        raise RTLB.TlbError(f'VmStack cell not fully consumed: {sl.bits_left()} bits, {sl.refs_left()} refs left')
    return stack_list(v['stack'])


def ref_decode_value(rc):
    S = schema()
    sl = RTLB.Slice(rc)
    v = S.decode('VmStackValue', sl)
    if sl.bits_left() or sl.refs_left():
        raise RTLB.TlbError('VmStackValue not fully consumed')
    return v


def stack_list(v):
    out = []
    while v['@c'] == 'vm_stk_cons':
        out.append(v['tos'])
        v = v['rest']
    return out[::-1]


def tuple_list(v):
    if v['@c'] == 'vm_tuple_nil':
        return []
    return tupref_list(v['head']) + [v['tail']]


def tupref_list(v):
    if v['@c'] == 'vm_tupref_nil':
        return []
    if v['@c'] == 'vm_tupref_single':
        return [v['entry']]
    return tuple_list(v['ref'])


def lv_ref(v, forms=None):
    """logical value of a reference-decoded VmStackValue; forms (a list) collects the integer constructor used"""
    c = v['@c']
    if c == 'vm_stk_null':
        return ('null',)
    if c in ('vm_stk_tinyint', 'vm_stk_int'):
        if forms is not None:
            forms.append((c, v['value']))
        return ('int', v['value'])
    if c == 'vm_stk_nan':
        return ('nan',)
    if c == 'vm_stk_cell':
        return ('cell', v['cell'].hash().hex())
    if c == 'vm_stk_slice':
        return lv_ref_slice(v['_'])
    if c == 'vm_stk_builder':
        return ('builder', v['cell'].bits, tuple(r.hash().hex() for r in v['cell'].refs))
    if c == 'vm_stk_tuple':
        items = tuple_list(v['data'])
        if len(items) != v['len']:
            return ('BAD-TUPLE-LEN', v['len'], len(items))
        return ('tuple', tuple(lv_ref(x, forms) for x in items))
    if c == 'vm_stk_cont':
        return lv_ref_cont(v['cont'], forms)
    return ('UNKNOWN', c)


def lv_ref_slice(v):
    cell = v['cell']
    return ('slice', cell.bits[v['st_bits']:v['end_bits']], tuple(r.hash().hex() for r in cell.refs[v['st_ref']:v['end_ref']]))


def lv_ref_cont(v, forms=None):
    c = v['@c'][4:]
    if c == 'quit':
        return ('cont', 'quit', v['exit_code'])
    if c == 'quit_exc':
        return ('cont', 'quit_exc')
    if c == 'repeat':
        return ('cont', 'repeat', v['count'], lv_ref_cont(v['body'], forms), lv_ref_cont(v['after'], forms))
    if c == 'until':
        return ('cont', 'until', lv_ref_cont(v['body'], forms), lv_ref_cont(v['after'], forms))
    if c == 'again':
        return ('cont', 'again', lv_ref_cont(v['body'], forms))
    if c in ('while_cond', 'while_body'):
        return ('cont', c, lv_ref_cont(v['cond'], forms), lv_ref_cont(v['body'], forms), lv_ref_cont(v['after'], forms))
    if c == 'pushint':
        return ('cont', 'pushint', v['value'], lv_ref_cont(v['next'], forms))
    cd = v['cdata']
    nargs = cd['nargs'].get('value') if cd['nargs']['@c'] == 'just' else None
    st = tuple(lv_ref(x, forms) for x in stack_list(cd['stack']['value']['stack'])) if cd['stack']['@c'] == 'just' else None
    save = tuple(sorted((k, lv_ref(x, forms)) for k, x in cd['save']['cregs'].items()))
    cp = cd['cp'].get('value') if cd['cp']['@c'] == 'just' else None
    cdl = ('cdata', nargs, st, save, cp)
    if c == 'std':
        return ('cont', 'std', cdl, lv_ref_slice(v['code']))
    return ('cont', 'envelope', cdl, lv_ref_cont(v['next'], forms))


# ------------------------------------------------------------------------------------------ reference encoder (foreign encodings)
def u(v, n):
    return format(v, f'0{n}b') if n else ''


def i_(v, n):
    return format(v & ((1 << n) - 1), f'0{n}b')


def enc_value(s, alt):
    """spec -> (bits, refs) of a VmStackValue; alt: use the alternative valid forms (int257 for every integer,
    slices as original cell + offsets)"""
    k = s[0]
    if k == 'null':
        return '00000000', ()
    if k == 'int':
        v = int(s[1])
        if -(1 << 63) <= v < (1 << 63) and not alt:
            return '00000001' + i_(v, 64), ()
        return '000000100000000' + i_(v, 257), ()
    if k == 'cell':
        return '00000011', (CELLS[s[1]],)
    if k == 'slice':
        return ('00000100' + enc_slice(s, alt)[0]), enc_slice(s, alt)[1]
    if k == 'builder':
        return '00000101', (CELLS[s[1]],)
    if k == 'tuple':
        b, r = enc_tuple(s[1], alt)
        return '00000111' + u(len(s[1]), 16) + b, r
    if k == 'cont':
        b, r = enc_cont(s, alt)
        return '00000110' + b, r
    raise ValueError(s)


def enc_slice(s, alt):
    c = CELLS[s[1]]
    if alt:
        return u(s[2], 10) + u(len(c.bits), 10) + u(s[3], 3) + u(len(c.refs), 3), (c,)
    sub = RC.RCell(c.bits[s[2]:], c.refs[s[3]:])
    return u(0, 10) + u(len(sub.bits), 10) + u(0, 3) + u(len(sub.refs), 3), (sub,)


def vcell(s, alt):
    b, r = enc_value(s, alt)
    return RC.RCell(b, r)


def enc_tuple(items, alt):
    """VmTuple n"""
    if not items:
        return '', ()
    hb, hr = enc_tupref(items[:-1], alt)
    return hb, hr + (vcell(items[-1], alt),)


def enc_tupref(items, alt):
    if not items:
        return '', ()
    if len(items) == 1:
        return '', (vcell(items[0], alt),)
    b, r = enc_tuple(items, alt)
    return '', (RC.RCell(b, r),)


def enc_stack(specs, alt):
    rest = RC.RCell('')
    cur_bits, cur_refs = '', ()
    for s in specs:
        b, r = enc_value(s, alt)
        rest = RC.RCell(cur_bits, cur_refs)
        cur_bits, cur_refs = b, (rest,) + r
    return u(len(specs), 24) + cur_bits, cur_refs


def enc_cdata(cd, alt):
    bits, refs = '', ()
    bits += '0' if cd['nargs'] is None else '1' + u(cd['nargs'], 13)
    if cd['stack'] is None:
        bits += '0'
    else:
        b, r = enc_stack(cd['stack'], alt)
        bits += '1' + b
        refs += r
    if cd['save']:
        root = RH.build({int(k): enc_value(v, alt) for k, v in cd['save'].items()}, 4)
        bits += '1'
        refs += (root,)
    else:
        bits += '0'
    bits += '0' if cd['cp'] is None else '1' + i_(cd['cp'], 16)
    return bits, refs


def enc_cont(s, alt):
    kind = s[1]
    cc = lambda x: RC.RCell(*enc_cont(x, alt))        # noqa
    if kind == 'quit':
        return '1000' + i_(int(s[2]), 32), ()
    if kind == 'quit_exc':
        return '1001', ()
    if kind == 'repeat':
        return '10100' + u(int(s[2]), 63), (cc(s[3]), cc(s[4]))
    if kind == 'until':
        return '110000', (cc(s[2]), cc(s[3]))
    if kind == 'again':
        return '110001', (cc(s[2]),)
    if kind == 'while_cond':
        return '110010', (cc(s[2]), cc(s[3]), cc(s[4]))
    if kind == 'while_body':
        return '110011', (cc(s[2]), cc(s[3]), cc(s[4]))
    if kind == 'pushint':
        return '1111' + i_(int(s[2]), 32), (cc(s[3]),)
    b, r = enc_cdata(s[2], alt)
    if kind == 'std':
        sb, sr = enc_slice(s[3], alt)
        return '00' + b + sb, r + sr
    return '01' + b, r + (cc(s[3]),)


# ------------------------------------------------------------------------------------------ E: one stack
def deep_snapshot(vals):
    """everything a caller can observe of its own values (including container identity-independent content)"""
    from pytoniq_core.tlb.vm_stack import VmTuple
    out = []
    for v in vals:
        out.append(lv_lib(v))
        if isinstance(v, VmTuple):
            out.append(('len', len(v.list)))
    return tuple(out)


def case_stack(rec, specs):
    from pytoniq_core.tlb.vm_stack import VmStack
    args = {'specs': specs}
    rec.case('stack')
    tags = set()
    for s in specs:
        spec_tags(s, tags)
    rec.covered(*tags)
    key_kind = specs[-1][0] + (':' + specs[-1][1] if specs and specs[-1][0] == 'cont' else '') if specs else 'empty'
    rec.state(('stack', repr(specs)))
    if tags & {'v:tuple', 'v:slice', 'v:cont'}:
        rec.nontriv(('stack', repr(specs)))
    want = tuple(lv_spec(s) for s in specs)
    try:
        vals = [to_lib(s) for s in specs]
        before = deep_snapshot(vals)
        if tuple(lv_lib(v) for v in vals) != want:
            raise AssertionError('harness: library values do not denote the spec')
        rec.trans()
        c1 = VmStack.serialize(vals)
    except AssertionError:
        raise
    except Exception as e:
        rec.violation(f'serialize-raises:{key_kind}', f'stack {specs}: VmStack.serialize raised {exc_name(e)}: {e}', 'case_stack', args)
        rec.outcome('serialize raised')
        return
    after = deep_snapshot(vals)
    if after != before:
        i = next(i for i, (a, b) in enumerate(zip(before, after)) if a != b)
        rec.violation(f'consumed:{before[i][0]}', f'stack {specs}: serialising changed the caller\'s values: {before[i]!r} became {after[i]!r}', 'case_stack', args)
        rec.outcome('CONSUMED')
        return
    try:
        rec.trans()
        c2 = VmStack.serialize(vals)
        if c2.hash != c1.hash:
            rec.violation(f'second-serialize:{key_kind}', f'stack {specs}: serialising the same values twice gives different cells', 'case_stack', args)
            return
    except Exception as e:
        rec.violation(f'second-serialize:{key_kind}', f'stack {specs}: second serialisation raised {exc_name(e)}: {e}', 'case_stack', args)
        return
    # the same through the other public serialisers of a value list: VmStackList.serialize(list) is the stack's cell without the depth
    # field - it too leaves the caller's list as it is and gives the same cell every time
    try:
        from pytoniq_core.tlb.vm_stack import VmStackList
        rec.trans(2)
        l1 = VmStackList.serialize(vals)
        if deep_snapshot(vals) != before or len(vals) != len(specs):
            rec.violation('consumed:list', f'stack {specs}: VmStackList.serialize changed the caller\'s list ({len(vals)} of {len(specs)} values left)', 'case_stack', args)
            return
        l2 = VmStackList.serialize(vals)
        inner = c1.refs[0].hash if specs and c1.refs else None
        if l1.hash != l2.hash or (specs and (l1.bits.to01() != c1.bits.to01()[24:] or [r.hash for r in l1.refs] != [r.hash for r in c1.refs])):
            rec.violation('list-serialize', f'stack {specs}: VmStackList.serialize is not repeatable / differs from the list inside VmStack.serialize', 'case_stack', args)
            return
    except Exception as e:
        rec.violation('list-serialize', f'stack {specs}: VmStackList.serialize raised {exc_name(e)}: {e}', 'case_stack', args)
        return
    # independent reading of the schema
    forms = []
    try:
        got_ref = tuple(lv_ref(x, forms) for x in ref_decode_stack(from_lib(c1)))
        rec.trace()
    except (RTLB.TlbError, KeyError, IndexError, RC.RefCellError) as e:
        rec.violation(f'schema:{key_kind}', f'stack {specs}: the serialised cell does not follow the VmStack schema: {exc_name(e)}: {e}', 'case_stack', args)
        rec.outcome('not per schema')
        return
    if got_ref != want:
        rec.violation(f'schema-value:{key_kind}', f'stack {specs}: the serialised cell decodes (per schema) to {str(got_ref)[:300]}, expected {str(want)[:300]}', 'case_stack', args)
        rec.outcome('wrong value per schema')
        return
    for form, v in forms:
        fits = -(1 << 63) <= v < (1 << 63)
        if v == -(1 << 63):
            continue
        if (form == 'vm_stk_tinyint') != fits:
            rec.violation('int-form', f'stack {specs}: integer {v} written as {form}', 'case_stack', args)
    # the library's own parser
    parse_and_compare(rec, c1, want, f'parse:{key_kind}', f'stack {specs}', 'case_stack', args)
    rec.outcome('ok')


def parse_and_compare(rec, cell, want, key, what, fn, args):
    from pytoniq_core.tlb.vm_stack import VmStack
    try:
        rec.trans()
        sl = cell.begin_parse()
        back = VmStack.deserialize(sl)
    except Exception as e:
        rec.violation(f'{key}:raises', f'{what}: VmStack.deserialize raised {exc_name(e)}: {e}', fn, args)
        rec.outcome('parse raised')
        return False
    rec.trace()
    got = tuple(lv_lib(v) for v in back) if isinstance(back, (list, tuple)) else ('NOT-A-LIST', repr(back)[:60])
    if got != want:
        rec.violation(f'{key}:value', f'{what}: parsed back as {str(got)[:300]}, expected {str(want)[:300]}', fn, args)
        rec.outcome('parse differs')
        return False
    if sl.remaining_bits or sl.remaining_refs:
        rec.violation(f'{key}:left', f'{what}: parser left {sl.remaining_bits} bits / {sl.remaining_refs} refs unread', fn, args)
        return False
    # the parsed values are stack values too: they serialise (the caller need not rebuild them) to the same logical stack, twice -
    # continuations with control data included (sixth session: the serialiser takes what the parser hands out, fix recorded)
    if True:
        try:
            rec.trans(2)
            r1 = VmStack.serialize(back)
            r2 = VmStack.serialize(back)
            again = tuple(lv_ref(x, []) for x in ref_decode_stack(from_lib(r1)))
        except Exception as e:
            rec.violation(f'{key}:reserialize-raises', f'{what}: the values returned by VmStack.deserialize cannot be serialised again: {exc_name(e)}: {e}', fn, args)
            return False
        rec.covered('reserialize-parsed')
        if again != want or r1.hash != r2.hash:
            rec.violation(f'{key}:reserialize-value', f'{what}: the values returned by VmStack.deserialize serialise to another stack ({str(again)[:200]}) or differently the second time', fn, args)
            return False
    return True


def case_foreign(rec, specs):
    """reference-written encodings (canonical and alternative valid forms) through the library parser"""
    args = {'specs': specs}
    want = tuple(lv_spec(s) for s in specs)
    for alt in (False, True):
        rec.case('foreign')
        b, r = enc_stack(specs, alt)
        rc = RC.RCell(b, r)
        # oracle honesty: the reference decoder reads what the reference encoder wrote
        assert tuple(lv_ref(x) for x in ref_decode_stack(rc)) == want, ('reference encoder/decoder disagree', specs, alt)
        if alt:
            tags = spec_tags(['tuple', specs], set())
            if 'v:int' in tags:
                rec.covered('foreign:int257')
            if 'slice:consumed' in tags:
                rec.covered('foreign:slice-offsets')
        rec.state(('foreign', repr(specs), alt))
        parse_and_compare(rec, cell_to_lib(rc, {}), want, f'foreign{"-alt" if alt else ""}:{specs[-1][0] if specs else "empty"}',
                          f'reference-encoded stack {specs} ({"alternative forms" if alt else "canonical forms"})', 'case_foreign', args)


def shard_stacks(rec, depth, part, parts):
    alpha = value_alphabet(rec.tier)
    i = 0
    if depth <= 2:
        seqs = itertools.product(alpha, repeat=depth)
    else:
        seqs = itertools.product(reduced_alphabet(), repeat=depth)
    for seq in seqs:
        i += 1
        if i % parts != part:
            continue
        specs = [list(s) if not isinstance(s, list) else s for s in seq]
        case_stack(rec, specs)
        if depth <= 1 or i % 7 == 0 or depth == 2 and rec.tier == 'thorough':
            case_foreign(rec, specs)
    if part == 0 and depth == 1:
        rec.sample({'stack': [['int', str(1 << 63)], ['tuple', [['int', '1'], ['tuple', [['null']]]]]], 'checked': 'schema decode, library parse, values unchanged, second serialisation identical'})


# ------------------------------------------------------------------------------------------ S: histories
POOL0 = [['tuple', [I(1), ['slice', 1, 3, 1], ['tuple', [I(2), I(3), ['cell', 1]]]]], ['slice', 1, 3, 1], ['builder', 1], I(1 << 100),
         ['cont', 'std', cdata_variants()[2], ['slice', 1, 0, 0]], ['tuple', []]]


def build_pool():
    """fresh caller-held values; the tuple at index 0 ALIASES the slice object at index 1 (the caller put its
    own slice into its tuple), so consuming one through the other is observable"""
    from pytoniq_core.tlb.vm_stack import VmTuple
    pool = [to_lib(s) for s in POOL0]
    pool[0].list[1] = pool[1]
    # stacks the caller received from elsewhere (written by the reference encoder): parsing them gives the caller values
    # it then owns - and edits -, and parsing the same cell again must give the same values again
    for specs in FOREIGN0:
        b, r = enc_stack(specs, False)
        pool.append(('RES', 'stack', cell_to_lib(RC.RCell(b, r), {})))
    return pool


FOREIGN0 = [[['tuple', []], ['tuple', [I(7)]], I(5)], [['tuple', [['tuple', []], I(1)]], ['tuple', [I(1), I(2)]], ['tuple', []]],
            [['cont', 'while_cond', ['cont', 'quit', 7], ['cont', 'quit', 7], ['cont', 'quit', 7]], I(3)]]


def h_enabled(pool):
    from pytoniq_core.boc import Cell
    from pytoniq_core.tlb.vm_stack import VmTuple
    ev = []
    n = len(pool)
    vals = [i for i in range(n) if not (isinstance(pool[i], tuple) and pool[i][0] == 'RES')]
    for i in vals:
        ev.append(['ser_value', i])
    ev.append(['ser_stack', vals[:6]])
    ev.append(['ser_stack', [0, 0]])
    ev.append(['ser_stack', [1, 0, 1]])
    for i in vals:
        if isinstance(pool[i], VmTuple):
            ev.append(['ser_tuple', i])
            if len(pool[i].list):
                ev.append(['t_pop', i])             # the caller shrinks / edits its own tuple through every public way
                ev.append(['t_edit', i])
                ev.append(['t_poison', i])          # ... puts a value no stack can hold into it (serialising must refuse), repairs it later (t_edit)
            for j in (1, 3, 0):
                if j < n and j in vals and (j < i or not isinstance(pool[j], VmTuple)):      # never build a cyclic value
                    ev.append(['t_append', i, j])
    from pytoniq_core.tlb.vm_stack import VmCont
    for i in vals:
        if isinstance(pool[i], VmCont) and getattr(pool[i], 'type_', '') == 'vmc_while_cond' and getattr(getattr(pool[i], 'cond', None), 'type_', '') == 'vmc_quit':
            ev.append(['c_edit', i])                # the caller edits ONE child of a continuation it got from the parser
    from pytoniq_core.boc import Builder, Slice
    for i in vals:
        if isinstance(pool[i], Builder) and len(pool[i].refs) < 4:
            ev.append(['b_store_ref', i])           # the caller goes on using its own builder / slice after it was serialised
            ev.append(['b_store_bits', i])
        elif isinstance(pool[i], Slice) and pool[i].remaining_bits:
            ev.append(['s_load_bit', i])
    for i in range(n):
        if isinstance(pool[i], tuple) and pool[i][0] == 'RES' and pool[i][1] == 'stack':
            ev.append(['deser', i])
    return ev


def h_apply(pool, ev):
    """returns (observation, logical expectation or None)"""
    from pytoniq_core.tlb.vm_stack import VmStack, VmStackValue, VmTuple
    op = ev[0]
    if op == 'ser_value':
        c = VmStackValue.serialize(pool[ev[1]])
        pool.append(('RES', 'value', c))
        return c.hash.hex()
    if op == 'ser_stack':
        c = VmStack.serialize([pool[i] for i in ev[1]])
        pool.append(('RES', 'stack', c))
        return c.hash.hex()
    if op == 'ser_tuple':
        c = VmTuple.serialize(pool[ev[1]])
        pool.append(('RES', 'tuple', c))
        return c.hash.hex()
    if op == 't_append':
        pool[ev[1]].append(pool[ev[2]])
        return 'ok'
    if op == 't_pop':
        pool[ev[1]].pop()
        return 'ok'
    if op == 't_edit':
        pool[ev[1]].list[0] = 424242
        return 'ok'
    if op == 't_poison':
        pool[ev[1]].list[0] = 1 << 256      # outside the 257-bit signed range
        return 'ok'
    if op == 'c_edit':
        c = pool[ev[1]]
        before = lv_lib(c)
        c.cond.exit_code = (c.cond.exit_code + 1) % 1000
        after = lv_lib(c)
        want = before[:2] + (('cont', 'quit', c.cond.exit_code),) + before[3:]
        if after != want:
            raise ChildAliased(f'editing the cond child of a parsed while_cond continuation changed other parts of it too: {str(after)[:200]} instead of {str(want)[:200]}')
        return 'ok'
    if op == 'b_store_ref':
        from pytoniq_core.boc import Builder
        pool[ev[1]].store_ref(Builder().store_uint(0xC17, 12).end_cell())
        return 'ok'
    if op == 'b_store_bits':
        pool[ev[1]].store_bits('101')
        return 'ok'
    if op == 's_load_bit':
        pool[ev[1]].load_bit()
        return 'ok'
    if op == 'deser':
        vals = VmStack.deserialize(pool[ev[1]][2].begin_parse())
        for v in vals[:3]:
            pool.append(v)
        return repr(tuple(lv_lib(v) for v in vals))[:2000]
    raise ValueError(ev)


def h_canon(pool):
    out = []
    for o in pool:
        if isinstance(o, tuple) and o[0] == 'RES':
            # a produced cell is a value: its (cached) hash AND its actual content
            out.append(('RES', o[1], o[2].hash.hex(), lib_canon(o[2]).hex()))
        else:
            out.append(lv_lib(o))
    return tuple(out)


H_MEMO = {}
class ChildAliased(Exception):
    pass


CALLER_EDITS = ('c_edit', 't_append', 't_pop', 't_edit', 't_poison', 'b_store_ref', 'b_store_bits', 's_load_bit')


def unserialisable(c):
    """does the logical value hold an integer outside the 257-bit signed range (the one thing in the pool no VM stack can hold)"""
    if isinstance(c, tuple):
        if len(c) == 2 and c[0] == 'int':
            return not -(1 << 256) <= c[1] < (1 << 256)
        return any(unserialisable(x) for x in c)
    return False


def run_history(rec, hist, check=True):
    """replay hist on fresh objects, checking after every event that no value other than the target of a
    caller-side append changed.  returns (pool, problem)"""
    pool = build_pool()
    for step, ev in enumerate(hist):
        before = h_canon(pool)
        try:
            rec.trans()
            obs = h_apply(pool, ev)
        except RecursionError as e:
            return pool, ('raises:' + ev[0], f'step {step} {ev}: raised RecursionError')
        except ChildAliased as e:
            return pool, ('aliased:' + ev[0], f'step {step} {ev}: {e}')
        except Exception as e:
            if ev[0] in CALLER_EDITS:
                raise
            src = tuple(before[i] for i in ev[1]) if ev[0] == 'ser_stack' else (before[ev[1]] if ev[0].startswith('ser') else None)
            if src is not None and unserialisable(src):
                # a refused call: nothing the caller holds may have changed, and nothing may be remembered of it (later events go on)
                rec.covered('history:refused-call')
                after = h_canon(pool)[:len(before)]
                if after != before:
                    i = next(i for i, (a, b) in enumerate(zip(before, after)) if a != b)
                    return pool, ('consumed:' + ev[0], f'step {step} {ev} (refused): caller-held value #{i} changed from {str(before[i])[:160]} to {str(after[i])[:160]}')
                continue
            return pool, ('raises:' + ev[0], f'step {step} {ev}: raised {exc_name(e)}: {e}')
        if ev[0].startswith('ser'):
            src0 = tuple(before[i] for i in ev[1]) if ev[0] == 'ser_stack' else before[ev[1]]
            if unserialisable(src0):
                return pool, ('accepted-unserialisable:' + ev[0], f'step {step} {ev}: a value holding an integer outside the 257-bit range was serialised')
        after = h_canon(pool)[:len(before)]
        if ev[0] in CALLER_EDITS:
            # intended change: exactly the object ev[1] (and every tuple containing that same object) changes; the cells
            # produced earlier are values and stay what they were
            for i, (a, b) in enumerate(zip(before, after)):
                if a != b and a[0] == 'RES':
                    return pool, ('result-changed:' + ev[0], f'step {step} {ev}: the cell produced earlier (#{i}, {a[1]}) changed when the caller went on using its own value')
            continue
        if after != before:
            i = next(i for i, (a, b) in enumerate(zip(before, after)) if a != b)
            return pool, ('consumed:' + ev[0], f'step {step} {ev}: caller-held value #{i} changed from {str(before[i])[:160]} to {str(after[i])[:160]}')
        if ev[0].startswith('ser'):
            # history independence: the result is a function of the logical values serialised
            src = tuple(before[i] for i in ev[1]) if ev[0] == 'ser_stack' else before[ev[1]]
            k = (ev[0], src)
            if k in H_MEMO:
                rec.covered('history:rearrival')
                if H_MEMO[k] != obs:
                    return pool, ('history-dependent:' + ev[0], f'step {step} {ev}: equal values serialised to a different cell than before ({obs[:16]} vs {H_MEMO[k][:16]})')
            else:
                H_MEMO[k] = obs
            # and it is what the schema says
            try:
                res = pool[-1][2]
                if ev[0] == 'ser_stack':
                    got = tuple(lv_ref(x) for x in ref_decode_stack(from_lib(res)))
                    if got != src:
                        return pool, ('schema-value:history', f'step {step} {ev}: serialised stack decodes to {str(got)[:200]}, expected {str(src)[:200]}')
                elif ev[0] == 'ser_value':
                    got = lv_ref(ref_decode_value(from_lib(res)))
                    if got != src:
                        return pool, ('schema-value:history', f'step {step} {ev}: serialised value decodes to {str(got)[:200]}, expected {str(src)[:200]}')
                rec.trace()
            except (RTLB.TlbError, KeyError, IndexError) as e:
                return pool, ('schema:history', f'step {step} {ev}: result does not follow the schema: {exc_name(e)}: {e}')
        if ev[0] == 'deser':
            src = pool[ev[1]][2]
            want = tuple(lv_ref(x) for x in ref_decode_stack(from_lib(src)))
            if obs != repr(want)[:2000]:
                return pool, ('parse:history', f'step {step} {ev}: parsed {obs[:200]}, reference {repr(want)[:200]}')
    return pool, None


def shard_history(rec, first):
    import collections
    depth = 3 if rec.tier == 'quick' else 4
    rec.covered('history:alias')
    init = build_pool()
    evs0 = h_enabled(init)
    seen = {h_canon(init)}
    frontier = collections.deque()
    for i, ev in enumerate(evs0):
        if i % first[1] == first[0]:
            frontier.append([ev])
    bad = set()
    while frontier:
        hist = frontier.popleft()
        rec.case('history')
        pool, prob = run_history(rec, hist)
        rec.depth(len(hist))
        if prob:
            if prob[0] not in bad:
                bad.add(prob[0])
                rec.violation(prob[0], f'history {hist}: {prob[1]}', 'case_history', {'hist': hist})
            rec.outcome('VIOLATION')
            continue
        rec.outcome('ok')
        k = h_canon(pool)
        rec.state(k)
        if k in seen and len(hist) > 1:
            continue
        seen.add(k)
        rec.nontriv(k)
        if len(hist) >= depth or len(pool) > 11:
            continue
        for ev in h_enabled(pool):
            frontier.append(hist + [ev])
    if first[0] == 0:
        rec.sample({'history': [['ser_tuple', 0], ['ser_stack', [0, 0]], ['deser', 7]], 'pool': 'tuple aliasing a partly consumed slice, builder, int, continuation, empty tuple'})


def case_history(rec, hist):
    pool, prob = run_history(rec, hist)
    if prob:
        rec.violation(prob[0], f'history {hist}: {prob[1]}', 'case_history', {'hist': hist})


def selftest():
    S = schema()
    # the reference encoder and the schema-driven decoder agree on the whole alphabet, in both forms
    for s in value_alphabet('quick'):
        for alt in (False, True):
            b, r = enc_stack([s], alt)
            got = tuple(lv_ref(x) for x in ref_decode_stack(RC.RCell(b, r)))
            assert got == (lv_spec(s),), (s, alt, got)


def case_deep(rec, n, kind):
    """stacks / tuples of many values, the library calls under the interpreter's DEFAULT recursion limit: a stack list is one cell deep per value
    (valid up to 1022 values), a tuple holds up to 255 entries"""
    from pytoniq_core.tlb.vm_stack import VmStack, VmTuple
    from .common import user_recursion_limit
    rec.case('deep')
    args = {'n': n, 'kind': kind}
    specs = [I((i * 7919) % 100003 - 50000) for i in range(n)]
    if kind == 'tuple':
        specs = [['tuple', specs], I(1)]
    if kind == 'nest':          # a tuple nested n levels deep (one cell level per nesting level: valid up to about 1000 levels)
        t = ['tuple', [I(5)]]
        for _ in range(n):
            t = ['tuple', [t]]
        specs = [t, I(1)]
    want = tuple(lv_spec(s) for s in specs)
    vals = [to_lib(s) for s in specs]
    rec.state(('deep', n, kind))
    rec.nontriv(('deep', n, kind))
    try:
        rec.trans(3)
        with user_recursion_limit():
            c1 = VmStack.serialize(vals)
            c2 = VmStack.serialize(vals)
            back = VmStack.deserialize(c1.begin_parse())
    except Exception as e:
        if kind == 'nest':
            rec.violation(f'deep:nest:{n}:raises:{exc_name(e)}', f'a tuple nested {n} levels deep: {exc_name(e)}: {str(e)[:100]} (under the default recursion limit)', 'case_deep', args)
            return
        rec.violation(f'deep:{kind}:raises', f'a {kind} of {n} small integers: {exc_name(e)}: {str(e)[:100]} (under the default recursion limit)', 'case_deep', args)
        return
    rec.trace()
    got = tuple(lv_lib(v) for v in back)
    try:
        ref = tuple(lv_ref(x, []) for x in ref_decode_stack(from_lib(c1)))
    except RecursionError:
        if kind != 'nest':
            raise
        # the schema interpreter needs about eight Python frames per nesting level: beyond what the harness itself can follow the
        # library's own parse (compared with the values above) is the only oracle left for this depth
        ref = want
        rec.covered('deep:nest:schema-decode-skipped')
    except (RTLB.TlbError, KeyError, IndexError) as e:
        rec.violation(f'deep:{kind}:schema', f'a {kind} of size / depth {n}: the serialised stack does not follow the schema: {exc_name(e)}: {e}', 'case_deep', args)
        return
    if c1.hash != c2.hash or got != want or ref != want or len(vals) != len(specs):
        rec.violation(f'deep:{kind}:value', f'a {kind} of {n} small integers does not round-trip / decode per schema / serialise twice to the same cell', 'case_deep', args)
        return
    rec.covered(f'deep:{kind}')
    rec.outcome('deep-ok')


def shard_deep(rec):
    for n in (254, 255, 256, 500, 989, 990, 991, 1000, 1021, 1022):
        case_deep(rec, n, 'stack')
    for n in (128, 254, 255):
        case_deep(rec, n, 'tuple')
    for n in (1, 50, 200, 300, 500, 700):
        case_deep(rec, n, 'nest')
    rec.sample({'stack_values': 1022, 'oracle': 'schema decode + library parse + second serialisation, default recursion limit'})


def shards(tier, seed):
    out = [{'fn': 'shard_deep', 'args': {}, 'prio': 2}, {'fn': 'shard_stacks', 'args': {'depth': 0, 'part': 0, 'parts': 1}}, {'fn': 'shard_stacks', 'args': {'depth': 1, 'part': 0, 'parts': 1}}]
    for p in range(16):
        out.append({'fn': 'shard_stacks', 'args': {'depth': 2, 'part': p, 'parts': 16}, 'prio': 2})
    for p in range(8):
        out.append({'fn': 'shard_stacks', 'args': {'depth': 3, 'part': p, 'parts': 8}, 'prio': 1})
    if tier == 'thorough':
        for p in range(16):
            out.append({'fn': 'shard_stacks', 'args': {'depth': 4, 'part': p, 'parts': 16}, 'prio': 1})
    for p in range(8):
        out.append({'fn': 'shard_history', 'args': {'first': [p, 8]}, 'prio': 3})
    return out
