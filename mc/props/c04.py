"""C04 - emitted bag-of-cells bytes conform to the TON BoC wire format (explorer E).
Same DAG family and option sets as C03; the oracle is the STRICT reference decoder."""
from ..ref import cell as RC
from ..ref import boc as RB
from . import bocfam
from .c03 import _find
from .common import to_lib, exc_name

ID = 'C04'
TITLE = 'Emitted bag-of-cells bytes conform to the TON BoC wire format'
EXPLORER = 'E (small-scope enumeration: DAG family x 6 option sets; strict independent decoder as oracle)'
RULE = ('same DAG family as C03 (all shapes up to the node bound, content alphabet, exotic trees, every header-width boundary) x the 6 valid '
        'option sets; the bytes returned by Cell.to_boc must be accepted by the strict reference serialized_boc decoder and decode there to '
        'the same DAG; separately verified per case: flags byte exact, size/offset widths sufficient, every reference index > own index, each '
        'distinct cell exactly once and all reachable, index = cumulative end offsets (x2 with cache bits), CRC-32C over everything before it, '
        'no trailing bytes, level mask in d1. non-trivial = more than one cell or unaligned data; states = distinct (DAG, option set); '
        'transitions = to_boc calls; traces = emitted byte strings decoded by the reference decoder')
LEVEL_TEXT = ('Bounded-exhaustive: every DAG of the family under every valid option set is serialised by the real code and the bytes are decoded '
              'by an independent strict implementation of serialized_boc that was itself validated on a node-written main-net block (index + '
              'cache bits + CRC). A self-consistent but non-conforming writer/reader pair cannot pass.')
LEVEL_NOTE = 'trusted: mc/ref/boc.py strict decoder (pinned: empty-cell BoC bytes, 301-cell main-net block written by a TON node with idx+cache+crc)'
TECHNIQUE = 'small-scope exhaustive enumeration of DAGs x options, emitted bytes decoded by an independent strict reference decoder'
ASSUMPTIONS = ['the reference decoder is the arbiter of the wire format; it accepts the node-written main-net block fixture']
NOT_ASSERTED = ['minimality of the chosen widths (the format allows wider fields)', 'the value of the per-cell cache flag bit']


def BOUNDS(tier):
    return {'dag_nodes': 3 if tier == 'quick' else 4, 'option_sets': 6, 'max_cells': 257 if tier == 'quick' else 65537, 'exhaustive': True}


def selftest():
    import os
    RB.selftest()
    blk = open(os.path.join(os.path.dirname(os.path.dirname(__file__)), 'fixtures', 'mainnet_block.boc'), 'rb').read()
    roots, info = RB.decode(blk)
    assert roots[0].hash().hex() == 'b0c09b7c116f951092b3d1b258fb98adc01c698a227b3b2e268469c24173eeb2'
    assert info['has_idx'] and info['has_cache'] and info['has_crc'] and info['n'] == 301


def REQUIRED_COVER(tier):
    return {'opt:plain', 'opt:idx', 'opt:idx+cache', 'opt:+crc', 'opt:idx+crc', 'opt:idx+crc+cache', 'exotic', 'cells:257', 'payload:65536', 'shared'}


def shards(tier, seed):
    from . import c03
    return c03.shards(tier, seed)


def case_dag(rec, name, opt_i, tier=None):
    tier = tier or rec.tier
    rc = _find('thorough' if name.startswith('cells:6') or name.startswith('shape:4') else tier, rec.seed, name)()
    opts = bocfam.OPTION_SETS[opt_i]
    on = bocfam.opt_name(opts)
    args = {'name': name, 'opt_i': opt_i, 'tier': tier}
    rec.case('emit')
    try:
        data = to_lib(rc).to_boc(**opts)
        rec.trans()
    except Exception as e:
        rec.violation(f'serialize:{on}', f'{name}: to_boc({on}) raised {exc_name(e)}: {e}', 'case_dag', args)
        return
    rec.covered(f'opt:{on}')
    rec.state((name, on))
    if rc.refs or len(rc.bits) % 8:
        rec.nontriv((name, on))
    if not isinstance(data, (bytes, bytearray)):
        rec.violation('type', f'to_boc returned {type(data).__name__}', 'case_dag', args)
        return
    try:
        roots, info = RB.decode(bytes(data))
        rec.trace()
    except RB.BocFormatError as e:
        what = str(e).split('[')[0].split(' ')[0]
        rec.violation(f'format:{on}:{what}', f'{name}: bytes emitted with {on} are rejected by the strict decoder: {e}', 'case_dag', args)
        rec.outcome(f'REJECTED:{what}')
        return
    if len(roots) != 1 or roots[0].hash() != rc.hash() or RC.canon(roots[0]) != RC.canon(rc):
        rec.violation(f'dag:{on}', f'{name}: emitted bytes decode to a different DAG', 'case_dag', args)
        return
    if bool(info['has_idx']) != opts['has_idx'] or bool(info['has_crc']) != opts['hash_crc32'] or bool(info['has_cache']) != opts['has_cache_bits']:
        rec.violation(f'flags:{on}', f'{name}: flags byte does not reflect the requested options: {info["has_idx"], info["has_crc"], info["has_cache"]}', 'case_dag', args)
    n = len(RC.topo([rc]))
    if info['n'] != n:
        rec.violation(f'count:{on}', f'{name}: {info["n"]} cells written, DAG has {n} distinct cells', 'case_dag', args)
    if n < sum(len(c.refs) for c in info['cells']) + 1:
        rec.covered('shared')
    if any(c.special for c in info['cells'][:60]):
        rec.covered('exotic')
    if name in ('cells:257', 'payload:65536'):
        rec.covered(name)
    rec.outcome(f'accepted:size={info["size"]},off={info["off"]}')


def shard_names(rec, part, parts):
    fam = bocfam.family(rec.tier, rec.seed)
    for i, (name, mk) in enumerate(fam):
        if i % parts != part or name.startswith('cells:6') or name.startswith('payload:6') or name.startswith('payload:3'):
            continue
        for oi in range(6):
            case_dag(rec, name, oi)
        if i < 2:
            rec.sample({'dag': name, 'option_sets': [bocfam.opt_name(o) for o in bocfam.OPTION_SETS], 'oracle': 'strict reference decoder'})


def shard_one(rec, name):
    for oi in range(6):
        case_dag(rec, name, oi)
    rec.sample({'dag': name, 'option_sets': 'all 6'})
