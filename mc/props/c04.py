"""C04 - emitted bag-of-cells bytes conform to the TON BoC wire format (explorer E).
Same DAG family and option sets as C03; the oracle is the STRICT reference decoder."""
from ..ref import cell as RC
from ..ref import boc as RB
from . import bocfam
from .c03 import _find
from .common import to_lib, exc_name, user_recursion_limit

ID = 'C04'
TITLE = 'Emitted bag-of-cells bytes conform to the TON BoC wire format'
EXPLORER = 'E (small-scope enumeration: DAG family x 6 option sets; strict independent decoder as oracle)'
RULE = ('same DAG family as C03 (all shapes up to the node bound, content alphabet, exotic trees, every header-width boundary) x the 6 valid '
        'option sets; the bytes returned by Cell.to_boc must be accepted by the strict reference serialized_boc decoder and decode there to '
        'the same DAG; separately verified per case: flags byte exact, size/offset widths sufficient, every reference index > own index, each '
        'distinct cell exactly once and all reachable, index = cumulative end offsets (x2 with cache bits), CRC-32C over everything before it, '
        'no trailing bytes, level mask in d1. non-trivial = more than one cell or unaligned data; states = distinct (DAG, option set); '
        'transitions = to_boc calls; traces = emitted byte strings decoded by the reference decoder')
RULE += ' Fifth session: the requests to_boc(has_cache_bits=True) without has_idx (with and without CRC) are option sets too: whatever is emitted must be a conforming bag (flags byte: the index is implied).'
LEVEL_TEXT = ('Bounded-exhaustive: every DAG of the family under every valid option set is serialised by the real code and the bytes are decoded '
              'by an independent strict implementation of serialized_boc that was itself validated on a node-written main-net block (index + '
              'cache bits + CRC). A self-consistent but non-conforming writer/reader pair cannot pass.')
LEVEL_NOTE = 'trusted: mc/ref/boc.py strict decoder (pinned: empty-cell BoC bytes, 301-cell main-net block written by a TON node with idx+cache+crc)'
TECHNIQUE = 'small-scope exhaustive enumeration of DAGs x options, emitted bytes decoded by an independent strict reference decoder'
RULE += ' Object-graph cases (every shape of the family that has references): (i) the same DAG built so that equal sub-cells are DISTINCT Python objects, all 6 option sets; (ii) serialise histories on ONE object graph: for every ordered pair of nodes (i, j) to_boc(i), to_boc(j), to_boc(i) under 4 option pairs - each result must be the conforming serialisation of that sub-DAG whatever was serialised before (also for the distinct-object build).'
LEVEL_TEXT += ' Additionally every ordered pair of sub-DAG serialisations on one object graph and the distinct-object build of every shape.'
ASSUMPTIONS = ['the reference decoder is the arbiter of the wire format; it accepts the node-written main-net block fixture']
NOT_ASSERTED = ['minimality of the chosen widths (the format allows wider fields)', 'the value of the per-cell cache flag bit']


def BOUNDS(tier):
    return {'dag_nodes': 3 if tier == 'quick' else 4, 'option_sets': 6, 'max_cells': 257 if tier == 'quick' else 65537, 'exhaustive': True}


def selftest():
    import os
    RB.selftest()
    blk = open(os.path.join(os.path.dirname(os.path.dirname(__file__)), 'fixtures', 'mainnet_block.boc'), 'rb').read()
    roots, info = RB.decode(blk)
    assert roots[0].hash().hex() == 'b0c09b7c116f951092b3d1b258fb98adc01c698a227b3b2e268469c24173eeb2'
    assert info['has_idx'] and info['has_cache'] and info['has_crc'] and info['n'] == 301


def REQUIRED_COVER(tier):
    return {'opt:plain', 'opt:idx', 'opt:idx+cache', 'opt:+crc', 'opt:idx+crc', 'opt:idx+crc+cache', 'exotic', 'cells:257', 'payload:65536', 'shared', 'unshared', 'history'}


def shards(tier, seed):
    from . import c03
    out = c03.shards(tier, seed, objects=False)
    k = 8 if tier == 'quick' else 32
    out += [{'fn': 'shard_objects', 'args': {'part': p, 'parts': k}} for p in range(k)]
    return out


def _check_bytes(rec, data, rc, on, key, label, fn, args):
    """data must be a conforming serialisation of exactly the DAG rc"""
    rec.trans()
    try:
        roots, info = RB.decode(bytes(data))
        rec.trace()
    except RB.BocFormatError as e:
        what = str(e).split('[')[0].split(' ')[0]
        rec.violation(f'{key}:{on}:{what}', f'{label}: bytes emitted with {on} are rejected by the strict decoder: {e}', fn, args)
        rec.outcome(f'REJECTED:{what}')
        return False
    if len(roots) != 1 or roots[0].hash() != rc.hash() or RC.canon(roots[0]) != RC.canon(rc):
        rec.violation(f'{key}:{on}:dag', f'{label}: emitted bytes decode to a different DAG', fn, args)
        rec.outcome('OTHER-DAG')
        return False
    if info['n'] != len(RC.topo([rc])):
        rec.violation(f'{key}:{on}:count', f'{label}: {info["n"]} cells written, DAG has {len(RC.topo([rc]))} distinct cells', fn, args)
        return False
    rec.outcome('accepted')
    return True


HIST_OPTS = (0, 5, 2)        # plain, idx+crc+cache, idx+cache


def case_unshared(rec, name, opt_i):
    """the same DAG built so that equal sub-cells are DISTINCT Python objects (each occurrence built separately)"""
    rc = _find('thorough' if name.startswith('shape:4') else rec.tier, rec.seed, name)()
    opts = bocfam.OPTION_SETS[opt_i]
    on = bocfam.opt_name(opts)
    args = {'name': name, 'opt_i': opt_i}
    rec.case('unshared')
    rec.state(('unshared', name, on))
    try:
        data = bocfam.to_lib_unshared(rc).to_boc(**opts)
    except Exception as e:
        rec.violation(f'unshared:serialize:{on}', f'{name} (equal sub-cells as distinct objects): to_boc({on}) raised {exc_name(e)}: {e}', 'case_unshared', args)
        return
    if _check_bytes(rec, data, rc, on, 'unshared', f'{name} (equal sub-cells as distinct objects)', 'case_unshared', args):
        rec.covered('unshared')
        if len(RC.topo([rc])) < sum(len(c.refs) for c in RC.topo([rc])) + 1:
            rec.nontriv(('unshared', name, on))


def case_history(rec, name, i, j, opt_i, opt_j, unshared=False):
    """serialise the sub-DAG rooted at node i, then the one rooted at node j, of ONE object graph: the second result
    (and the first) must be the conforming serialisation of that sub-DAG whatever was serialised before"""
    rc = _find('thorough' if name.startswith('shape:4') else rec.tier, rec.seed, name)()
    root = bocfam.to_lib_unshared(rc) if unshared else to_lib(rc)
    nodes = bocfam.lib_nodes(root)
    from .common import from_lib
    args = {'name': name, 'i': i, 'j': j, 'opt_i': opt_i, 'opt_j': opt_j, 'unshared': unshared}
    rec.case('history')
    rec.state(('history', name, i, j, opt_i, opt_j, unshared))
    rec.nontriv(('history', name, i, j, opt_i, opt_j, unshared))
    for step, (k, oi) in enumerate(((i, opt_i), (j, opt_j), (i, opt_i))):
        opts = bocfam.OPTION_SETS[oi]
        on = bocfam.opt_name(opts)
        want = from_lib(nodes[k])
        try:
            data = nodes[k].to_boc(**opts)
        except Exception as e:
            rec.violation(f'history:serialize:{on}', f'{name}: to_boc({on}) of node {k} as call #{step + 1} of the sequence nodes {[i, j, i]} raised {exc_name(e)}: {e}', 'case_history', args)
            return
        if not _check_bytes(rec, data, want, on, 'history', f'{name}: to_boc of node {k} as call #{step + 1} of the sequence nodes {[i, j, i]} on one object graph', 'case_history', args):
            return
    rec.covered('history')


def shard_objects(rec, part, parts):
    fam = [(n, mk) for n, mk in bocfam.family(rec.tier, rec.seed) if n.startswith('shape:') or n.startswith('exotic1') or n in ('update', 'library')]
    for idx, (name, mk) in enumerate(fam):
        if idx % parts != part:
            continue
        rc = mk()
        if not rc.refs:
            continue
        for oi in range(len(bocfam.OPTION_SETS)):
            case_unshared(rec, name, oi)
        n = len(bocfam.lib_nodes(to_lib(rc)))
        for i in range(n):
            for j in range(n):
                if i != j:
                    for oi, oj in ((0, 0), (5, 5), (0, 5), (2, 0)):
                        case_history(rec, name, i, j, oi, oj)
        nu = len(bocfam.lib_nodes(bocfam.to_lib_unshared(rc)))
        if nu != n and nu <= 8:
            for i in range(nu):
                for j in range(nu):
                    if i != j:
                        case_history(rec, name, i, j, 0, 0, unshared=True)
    if part == 0:
        rec.sample({'object_graph_cases': 'every DAG shape: equal sub-cells as distinct objects; every ordered pair of nodes serialised one after the other'})


def case_dag(rec, name, opt_i, tier=None):
    tier = tier or rec.tier
    rc = _find('thorough' if name.startswith('cells:6') or name.startswith('shape:4') else tier, rec.seed, name)()
    opts = bocfam.OPTION_SETS[opt_i]
    on = bocfam.opt_name(opts)
    args = {'name': name, 'opt_i': opt_i, 'tier': tier}
    rec.case('emit')
    try:
        with user_recursion_limit():
            data = to_lib(rc).to_boc(**opts)
        rec.trans()
    except Exception as e:
        rec.violation(f'serialize:{on}', f'{name}: to_boc({on}) raised {exc_name(e)}: {e}', 'case_dag', args)
        return
    rec.covered(f'opt:{on}')
    rec.state((name, on))
    if rc.refs or len(rc.bits) % 8:
        rec.nontriv((name, on))
    if not isinstance(data, (bytes, bytearray)):
        rec.violation('type', f'to_boc returned {type(data).__name__}', 'case_dag', args)
        return
    try:
        roots, info = RB.decode(bytes(data))
        rec.trace()
    except RB.BocFormatError as e:
        what = str(e).split('[')[0].split(' ')[0]
        rec.violation(f'format:{on}:{what}', f'{name}: bytes emitted with {on} are rejected by the strict decoder: {e}', 'case_dag', args)
        rec.outcome(f'REJECTED:{what}')
        return
    if len(roots) != 1 or roots[0].hash() != rc.hash() or RC.canon(roots[0]) != RC.canon(rc):
        rec.violation(f'dag:{on}', f'{name}: emitted bytes decode to a different DAG', 'case_dag', args)
        return
    if bool(info['has_idx']) != (opts['has_idx'] or opts['has_cache_bits']) or bool(info['has_crc']) != opts['hash_crc32'] or bool(info['has_cache']) != opts['has_cache_bits']:
        rec.violation(f'flags:{on}', f'{name}: flags byte does not reflect the requested options: {info["has_idx"], info["has_crc"], info["has_cache"]}', 'case_dag', args)
    n = len(RC.topo([rc]))
    if info['n'] != n:
        rec.violation(f'count:{on}', f'{name}: {info["n"]} cells written, DAG has {n} distinct cells', 'case_dag', args)
    if n < sum(len(c.refs) for c in info['cells']) + 1:
        rec.covered('shared')
    if any(c.special for c in info['cells'][:60]):
        rec.covered('exotic')
    if name in ('cells:257', 'payload:65536'):
        rec.covered(name)
    rec.outcome(f'accepted:size={info["size"]},off={info["off"]}')


def shard_names(rec, part, parts):
    fam = bocfam.family(rec.tier, rec.seed)
    for i, (name, mk) in enumerate(fam):
        if i % parts != part or name.startswith('cells:6') or name.startswith('payload:6') or name.startswith('payload:3'):
            continue
        for oi in range(len(bocfam.OPTION_SETS)):
            case_dag(rec, name, oi)
        if i < 2:
            rec.sample({'dag': name, 'option_sets': [bocfam.opt_name(o) for o in bocfam.OPTION_SETS], 'oracle': 'strict reference decoder'})


def shard_one(rec, name):
    for oi in range(len(bocfam.OPTION_SETS)):
        case_dag(rec, name, oi)
    rec.sample({'dag': name, 'option_sets': 'all 6'})
