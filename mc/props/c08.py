"""C08 - cells are immutable values; derived objects are isolated snapshots; no hidden state.

Explorer S: breadth-first search over operation histories on a pool of live objects.  A state is the
event history that reaches it; every transition replays the history on FRESH real objects and, in
lock-step, on a purely functional reference pool (history-independent by construction).  Invariants
are evaluated on every ARRIVAL (also arrivals at already-seen states):
  (i)+(ii) the canonical form of the real pool (bits, refs, reported hash of every object) and the
           outcome of every event equal the reference pool's;
  (iii)    an observer battery (hash, to_boc under the 6 option sets, order() with and without an
           argument; each evaluated twice) is a function of the canonical state: memoised per state, every
           later arrival - through whatever history - must reproduce it, and it must leave the pool
           unchanged.  Process-wide hidden state survives the replays inside a worker, which is what
           makes (iii) bite; forward and reversed frontier orders must produce identical batteries.
"""
import collections, hashlib, itertools
from ..ref import cell as RC
from ..ref import bits as RBITS
from ..ref import hashmap as RH
from ..ref import boc as RB
from .common import to_lib, exc_name
from . import bocfam

ID = 'C08'
TITLE = 'Cells are immutable values; derived objects are isolated snapshots'
EXPLORER = 'S (explicit-state BFS over operation histories; real pool replayed from fresh objects, functional reference pool in lock-step)'
RULE = ('initial pools: {cell from a Builder (7 unaligned bits, 2 refs) + a leaf; the same parsed from a BoC; the same built from a plain bitarray; '
        'a dictionary cell; a message cell}. events (parameterised by pool indexes): derive (begin_parse, copy, to_builder, to_cell, to_slice, '
        'end_cell), consume (load_bit/uint/bits/ref, skip_bits, HashMap.parse, MessageAny.deserialize), mutate derived objects (store_uint/ref/'
        'cell/slice, store_bits(other.bits), in-place mutation of returned bit arrays and of a slice\'s / builder\'s own bits and refs '
        'containers). BFS to the depth bound with pool cap 6; a state = canonical form of the pool; every transition replays the whole history '
        'on fresh objects. non-trivial = history of length >= 2; states = distinct canonical pools; transitions = history replays (arrivals); '
        'traces = arrivals whose real pool, event outcomes and observer battery were compared with the reference pool / memo')
RULE += ' Fifth session: state merge key = canonical pool + set of non-mutating calls made per object; observation twice on first arrival, once afterwards; parse battery additions: VM stack with slice windows narrower than their cells, one account read with and without anycast info (earlier value re-inspected), every parse input compared with a snapshot taken before anything was parsed.'
LEVEL_TEXT = ('Explicit-state model checking of the real objects: all operation histories up to the depth bound over a pool of cells, slices, builders '
              'and returned bit arrays derived from one another are executed on fresh objects; after every step the whole pool must equal a purely '
              'functional reference pool (immutability + isolation), and an observer battery must be a function of the canonical state alone '
              '(no state carried between calls, observation is idempotent and side-effect free).')
LEVEL_NOTE = ('trusted: the functional reference pool (mc/props/c08.py model functions over mc/ref/cell.py); canonical state keeps every observable field '
              '(no symmetry reduction, so no soundness argument is needed for the abstraction)')
TECHNIQUE = 'explicit-state BFS over operation histories on the real objects with a lock-step functional reference model and a memoised observer battery'
RULE += (" Observation schedules: for the initial pools and every state reachable in <= 3 (thorough 4) events that holds a new set of cells, ALL sequences of "
         "2..3 (4) observations over (cell x {to_boc, order}) and the deserialize() call of two Boc parser objects, and all of 2 (3) over (cell x {to_boc, to_boc "
         "with index+CRC+cache bits, order(), order({}), hash/repr/depth}), run on a fresh replay: each result must equal the same observation made alone.")
RULE += " Parse battery: on the first arrival at every canonical state the library's parsers (VmStack, MessageAny, StateInit, CurrencyCollection, HashMap.parse, load_dict, TL deserialize) run on fixed immutable inputs written by the reference encoders; every result must equal the first one obtained in the process."
ASSUMPTIONS = ['histories longer than the depth bound and pools larger than 6 objects are not explored']
NOT_ASSERTED = ['direct mutation of a cell\'s own bits/refs containers from outside (an attack on the value, not a use of it)',
                'mutation of the caller\'s array after it was handed to the Cell constructor']

MAXPOOL = 6
POOLS = ['builder', 'boc', 'plain', 'dict', 'msg']
RULE += " Sixth session: constructor schedules - all sequences of <= 3 (thorough 4) constructor calls over twin cells (equal data bits: ordinary vs library / pruned branch) through six routes, every produced cell compared with the reference when made and after every later call; observer order_into (the dictionary order() returned is handed on to another cell's order()); the dictionary pool's root edge has a non-empty label."


def BOUNDS(tier):
    return {'depth': 4 if tier == 'quick' else 5, 'observation_schedules': {'base_states_depth': 3 if tier == 'quick' else 4, 'schedule_length': 3 if tier == 'quick' else 4}, 'max_pool': MAXPOOL, 'initial_pools': POOLS, 'frontier_orders': ['forward', 'reversed'], 'exhaustive': True}


def REQUIRED_COVER(tier):
    return {'pool:plain', 'pool:dict', 'pool:msg', 'ev:store_bits_of', 'ev:a_append', 'ev:s_refs_pop', 'battery-rearrival', 'order:reversed', 'schedules', 'ctor-schedule'}


# ------------------------------------------------------------------ reference (functional) pool
MC = collections.namedtuple('MC', 'rc')                       # cell
MS = collections.namedtuple('MS', 'bits refs off type')       # slice: refs = full tuple of RCell, off = consumed refs
MB = collections.namedtuple('MB', 'bits refs')                # builder
MA = collections.namedtuple('MA', 'bits')                     # returned bit array

LEAF = RC.RCell('101')
LEAF2 = RC.RCell('10101011')
ROOT_BITS = '1100101'


def dict_root():
    # all keys begin with the bit 1: the ROOT edge has a non-empty label (a parser that accumulates prefixes between calls shows on it)
    return RH.build({133: RBITS.uint(500, 16), 135: RBITS.uint(700, 16), 200: RBITS.uint(9, 16)}, 8)


def msg_root():
    # ext_in_msg_info$10 src:addr_none dest:addr_std(0, 11..) import_fee:0  init:nothing body: left, 8 bits
    dest = RBITS.addr_std(0, bytes([0x11]) * 32)
    return RC.RCell('10' + '00' + dest + RBITS.coins(0) + '0' + '0' + '10100101')


def model_initial(kind):
    if kind in ('builder', 'boc', 'plain'):
        return [MC(RC.RCell(ROOT_BITS, (LEAF, LEAF2))), MC(LEAF)]
    if kind == 'dict':
        return [MC(dict_root()), MC(LEAF)]
    if kind == 'msg':
        return [MC(msg_root()), MC(LEAF)]
    raise ValueError(kind)


def real_initial(kind):
    from bitarray import bitarray
    from pytoniq_core.boc import Cell, Builder
    leaf = Builder().store_bits(LEAF.bits).end_cell()
    leaf2 = Builder().store_bits(LEAF2.bits).end_cell()
    if kind == 'builder':
        root = Builder().store_bits(ROOT_BITS).store_ref(leaf).store_ref(leaf2).end_cell()
    elif kind == 'boc':
        root = Cell.one_from_boc(Builder().store_bits(ROOT_BITS).store_ref(leaf).store_ref(leaf2).end_cell().to_boc())
    elif kind == 'plain':
        root = Cell(bitarray(ROOT_BITS), [leaf, leaf2], -1)
    elif kind == 'dict':
        root = to_lib(dict_root())
    elif kind == 'msg':
        root = to_lib(msg_root())
    return [root, leaf]


class Exc(Exception):
    pass


def mkind(o):
    return type(o).__name__[1]      # 'C', 'S', 'B', 'A'


def enabled(mpool, kind):
    ev = []
    room = len(mpool) < MAXPOOL
    for i, o in enumerate(mpool):
        k = mkind(o)
        if k == 'C':
            if room:
                ev += [('begin_parse', i), ('copy', i), ('to_builder', i), ('to_slice', i)]
        elif k == 'S':
            ev += [('load_bit', i), ('load_uint', i, 3), ('load_ref', i), ('skip', i, 1), ('s_bits_append', i), ('s_refs_pop', i)]
            if room:
                ev += [('load_bits', i, 2), ('preload_bits', i, 2), ('s_to_cell', i), ('s_copy', i), ('s_to_builder', i)]
            if kind == 'dict':
                ev += [('parse_dict', i)]
            if kind == 'msg':
                ev += [('parse_msg', i)]
        elif k == 'B':
            ev += [('store_uint', i, 5, 3), ('b_bits_append', i), ('b_refs_pop', i)]
            if room:
                ev += [('end_cell', i), ('b_to_slice', i)]
            for j, p in enumerate(mpool):
                if mkind(p) == 'C':
                    ev += [('store_ref', i, j), ('store_cell', i, j)]
                if mkind(p) == 'S':
                    ev += [('store_slice', i, j), ('store_bits_of', i, j)]
        elif k == 'A':
            ev += [('a_append', i), ('a_invert', i)]
    return ev


def m_apply(mpool, ev):
    """functional semantics; returns (new pool, outcome).  outcome 'EXC' when the operation must fail."""
    op = ev[0]
    i = ev[1]
    o = mpool[i]
    p = list(mpool)

    def ret(out, new=None, repl=None):
        if repl is not None:
            p[i] = repl
        if new is not None:
            p.append(new)
        return p, out
    if op in ('begin_parse', 'to_slice'):
        return ret('ok', MS(o.rc.bits, o.rc.refs, 0, o.rc.type))
    if op == 'copy':
        return ret('ok', MC(o.rc))
    if op == 'to_builder':
        if o.rc.special:
            return ret('EXC')
        return ret('ok', MB(o.rc.bits, o.rc.refs))
    if op == 'load_bit':
        if not o.bits:
            return ret('EXC')
        return ret(int(o.bits[0]), repl=o._replace(bits=o.bits[1:]))
    if op == 'load_uint':
        n = ev[2]
        if len(o.bits) < n:
            return ret('EXC')
        return ret(int(o.bits[:n], 2), repl=o._replace(bits=o.bits[n:]))
    if op == 'load_bits':
        n = ev[2]
        if len(o.bits) < n:
            return ret('EXC')
        return ret(o.bits[:n], new=MA(o.bits[:n]), repl=o._replace(bits=o.bits[n:]))
    if op == 'preload_bits':
        n = ev[2]
        return ret(o.bits[:n], new=MA(o.bits[:n]))
    if op == 'load_ref':
        if o.off >= len(o.refs) or o.off < 0:
            return ret('EXC')
        return ret(o.refs[o.off].hash().hex(), repl=o._replace(off=o.off + 1))
    if op == 'skip':
        n = ev[2]
        if len(o.bits) < n:
            return ret('EXC')
        return ret('ok', repl=o._replace(bits=o.bits[n:]))
    if op == 's_to_cell':
        try:
            return ret('ok', MC(RC.RCell(o.bits, o.refs[o.off:], o.type != -1)))
        except RC.RefCellError:
            return ret('EXC')
    if op == 's_copy':
        return ret('ok', MS(o.bits, o.refs[o.off:], 0, o.type))
    if op == 's_to_builder':
        if o.type != -1:
            return ret('EXC')
        return ret('ok', MB(o.bits, o.refs[o.off:]))
    if op == 's_bits_append':
        if len(o.bits) >= 1023:
            return ret('EXC')
        return ret('ok', repl=o._replace(bits=o.bits + '1'))
    if op == 's_refs_pop':
        if not o.refs:
            return ret('EXC')
        return ret('ok', repl=o._replace(refs=o.refs[:-1]))
    if op == 'parse_dict':
        try:
            if o.type != -1:
                return ret('None')
            leaves, _ = RH.parse(RC.RCell(o.bits, o.refs[o.off:]), 8)
            # HashMap.parse consumes the slice it is given (label + refs)
            lab, pos, _k = RH.read_label(o.bits, 0, 8)
            fork = len(lab) < 8
            return ret(str(sorted((k, v[0]) for k, v in leaves.items())),
                       repl=o._replace(bits=o.bits[pos:], off=o.off + (2 if fork else 0)))
        except (RH.RefDictError, RC.RefCellError, IndexError):
            return ret('?EXC')       # not a well-formed dictionary any more: behaviour unspecified, history not explored
    if op == 'parse_msg':
        root = msg_root()
        if o.bits != root.bits or o.off != 0 or o.refs != root.refs:
            return ret('?EXC')       # only the pristine message slice is a well-formed Message
        return ret('ExternalMsgInfo:0:10100101:True', repl=o._replace(bits='10100101'))
    if op == 'store_uint':
        if len(o.bits) + ev[3] > 1023:
            return ret('EXC')
        return ret('ok', repl=o._replace(bits=o.bits + format(ev[2], f'0{ev[3]}b')))
    if op == 'b_bits_append':
        if len(o.bits) >= 1023:
            return ret('EXC')
        return ret('ok', repl=o._replace(bits=o.bits + '1'))
    if op == 'b_refs_pop':
        if not o.refs:
            return ret('EXC')
        return ret('ok', repl=o._replace(refs=o.refs[:-1]))
    if op == 'end_cell':
        try:
            return ret('ok', MC(RC.RCell(o.bits, o.refs)))
        except RC.RefCellError:
            return ret('EXC')
    if op == 'b_to_slice':
        return ret('ok', MS(o.bits, o.refs, 0, -1))
    if op == 'store_ref':
        c = mpool[ev[2]]
        if len(o.refs) >= 4:
            return ret('EXC')
        return ret('ok', repl=o._replace(refs=o.refs + (c.rc,)))
    if op == 'store_cell':
        c = mpool[ev[2]].rc
        if len(o.refs) + len(c.refs) > 4 or len(o.bits) + len(c.bits) > 1023:
            return ret('EXC')
        return ret('ok', repl=MB(o.bits + c.bits, o.refs + c.refs))
    if op == 'store_slice':
        s = mpool[ev[2]]
        rem = s.refs[s.off:] if s.off <= len(s.refs) else ()
        if s.off > len(s.refs):
            return ret('?EXC')       # slice with a negative number of remaining refs: unspecified
        if len(o.refs) + len(rem) > 4 or len(o.bits) + len(s.bits) > 1023:
            return ret('EXC')
        return ret('ok', repl=MB(o.bits + s.bits, o.refs + rem))
    if op == 'store_bits_of':
        s = mpool[ev[2]]
        if len(o.bits) + len(s.bits) > 1023:
            return ret('EXC')
        return ret('ok', repl=o._replace(bits=o.bits + s.bits))
    if op == 'a_append':
        return ret('ok', repl=MA(o.bits + '1'))
    if op == 'a_invert':
        return ret('ok', repl=MA(''.join('1' if c == '0' else '0' for c in o.bits)))
    raise AssertionError(op)


def r_apply(pool, ev):
    """the same event on the real objects; returns outcome"""
    from pytoniq_core.boc import HashMap
    op = ev[0]
    o = pool[ev[1]]
    try:
        if op == 'begin_parse':
            pool.append(o.begin_parse()); return 'ok'
        if op == 'to_slice':
            pool.append(o.to_slice()); return 'ok'
        if op == 'copy':
            pool.append(o.copy()); return 'ok'
        if op == 'to_builder':
            pool.append(o.to_builder()); return 'ok'
        if op == 'load_bit':
            return int(o.load_bit())
        if op == 'load_uint':
            return o.load_uint(ev[2])
        if op == 'load_bits':
            b = o.load_bits(ev[2]); pool.append(b); return b.to01()
        if op == 'preload_bits':
            b = o.preload_bits(ev[2]); pool.append(b); return b.to01()
        if op == 'load_ref':
            return o.load_ref().hash.hex()
        if op == 'skip':
            o.skip_bits(ev[2]); return 'ok'
        if op == 's_to_cell':
            pool.append(o.to_cell()); return 'ok'
        if op == 's_copy':
            pool.append(o.copy()); return 'ok'
        if op == 's_to_builder':
            pool.append(o.to_builder()); return 'ok'
        if op == 's_bits_append':
            o.bits.append(1); return 'ok'
        if op == 's_refs_pop':
            o.refs.pop(); return 'ok'
        if op == 'parse_dict':
            d = HashMap.parse(o, 8)
            if d is None:
                return 'None'
            return str(sorted((k, v.bits.to01()) for k, v in d.items()))
        if op == 'parse_msg':
            from pytoniq_core.tlb.transaction import MessageAny
            m = MessageAny.deserialize(o)
            return f'{type(m.info).__name__}:{m.info.dest.wc}:{m.body.bits.to01()}:{m.init is None}'
        if op == 'store_uint':
            o.store_uint(ev[2], ev[3]); return 'ok'
        if op == 'b_bits_append':
            o.bits.append(1); return 'ok'
        if op == 'b_refs_pop':
            o.refs.pop(); return 'ok'
        if op == 'end_cell':
            pool.append(o.end_cell()); return 'ok'
        if op == 'b_to_slice':
            pool.append(o.to_slice()); return 'ok'
        if op == 'store_ref':
            o.store_ref(pool[ev[2]]); return 'ok'
        if op == 'store_cell':
            o.store_cell(pool[ev[2]]); return 'ok'
        if op == 'store_slice':
            o.store_slice(pool[ev[2]]); return 'ok'
        if op == 'store_bits_of':
            o.store_bits(pool[ev[2]].bits); return 'ok'
        if op == 'a_append':
            o.append(1); return 'ok'
        if op == 'a_invert':
            o.invert(); return 'ok'
    except Exception as e:
        return 'EXC'
    raise AssertionError(op)


def r_canon(pool):
    from pytoniq_core.boc import Cell, Slice, Builder
    out = []
    for o in pool:
        if isinstance(o, Cell):
            out.append(('C', o.bits.to01(), tuple(r.hash.hex() for r in o.refs), o.type_, o.hash.hex()))
        elif isinstance(o, Slice):
            out.append(('S', o.bits.to01(), tuple(r.hash.hex() for r in o.refs), o.ref_offset, o.type_))
        elif isinstance(o, Builder):
            out.append(('B', o.bits.to01(), tuple(r.hash.hex() for r in o.refs)))
        else:
            out.append(('A', o.to01()))
    return tuple(out)


def m_canon(mpool):
    out = []
    for o in mpool:
        k = mkind(o)
        if k == 'C':
            out.append(('C', o.rc.bits, tuple(r.hash().hex() for r in o.rc.refs), o.rc.type, o.rc.hash().hex()))
        elif k == 'S':
            out.append(('S', o.bits, tuple(r.hash().hex() for r in o.refs), o.off, o.type))
        elif k == 'B':
            out.append(('B', o.bits, tuple(r.hash().hex() for r in o.refs)))
        else:
            out.append(('A', o.bits))
    return tuple(out)


def battery(pool, mpool, parse=True):
    """observations on every cell of the pool, each twice; returns (digest, problems)"""
    from pytoniq_core.boc import Cell
    h = hashlib.blake2b(digest_size=12)
    probs = []
    for idx, o in enumerate(pool):
        if not isinstance(o, Cell):
            continue
        rc = mpool[idx].rc
        reach = {c.hash() for c in RC.topo([rc])}
        h_rep = [hashlib.blake2b(digest_size=12), hashlib.blake2b(digest_size=12)]
        # observed twice on the first arrival at a state (idempotence; longer observation sequences are the schedules' subject), once afterwards
        for rep in ((0, 1) if parse else (0,)):
            hx = h_rep[rep]
            hx.update(o.hash)
            if o.hash != rc.hash():
                probs.append(f'cell #{idx}: hash differs from the reference')
            for opts in bocfam.OPTION_SETS:
                hx.update(o.to_boc(**opts))
            try:
                default_boc = o.to_boc()
                roots, _ = RB.decode(default_boc)
                if roots[0].hash() != rc.hash():
                    probs.append(f'cell #{idx}: to_boc() encodes another cell')
                # every keyword of to_boc is part of the request: the 2-bit `flags` value goes into the header byte and
                # nothing else changes; a plain call afterwards is unaffected (no per-object state between calls)
                for fl in (1, 2, 3):
                    fb = o.to_boc(flags=fl)
                    hx.update(fb)
                    if fb[:4] + fb[5:] != default_boc[:4] + default_boc[5:] or fb[4] != default_boc[4] | (fl << 3):
                        probs.append(f'cell #{idx}: to_boc(flags={fl}) does not differ from to_boc() exactly by the flags bits (result depends on earlier calls?)')
                if o.to_boc() != default_boc:
                    probs.append(f'cell #{idx}: to_boc() after to_boc(flags=..) differs from the call before')
            except RB.BocFormatError as e:
                probs.append(f'cell #{idx}: to_boc() malformed: {e}')
            for mode in ('arg', 'noarg'):
                d = o.order({}) if mode == 'arg' else o.order()
                keys = [c.hash for c in d]
                hx.update(b''.join(keys))
                if set(keys) != reach or len(keys) != len(reach):
                    probs.append(f'cell #{idx}: order({"{}" if mode == "arg" else ""}) returns {len(keys)} cells, the cell has {len(reach)} '
                                 f'reachable cells (entries leaked between calls)' if len(keys) > len(reach) else
                                 f'cell #{idx}: order() misses cells')
            hx.update(repr(o).encode())
        h.update(h_rep[0].digest())
        if parse and h_rep[0].digest() != h_rep[1].digest():
            probs.append(f'cell #{idx}: observing (hash / to_boc / order / repr) a second time gives other results than the first time')
    # parsing is a function of the input: the same immutable cells / bytes parse to the same values, now and whenever the
    # battery ran before in this process (whatever was parsed, edited or serialised in between)
    # (run on the first arrival at each canonical state: ~45 000 times per search, interleaved with every event kind)
    if parse:
        for name, val in parse_battery().items():
            base = _PARSE_BASE.setdefault(name, val)
            if val != base:
                probs.append(f'parser result for the fixed input "{name}" differs from an earlier parse of the same input: {str(val)[:300]} vs {str(base)[:300]}')
            if name == 'addresses' and (val[3][1] is not True or val[4][1:] != (True, True, True)):
                probs.append(f'load_address: a value handed out earlier changed when another cell was read, or anycast info is on the wrong value: {val[3:]}')
        # parsing leaves its input untouched: every input cell still is the cell the reference encoder wrote
        for name, c in parse_inputs().items():
            if hasattr(c, 'to_boc'):
                snap = _PARSE_SNAP[name]
                if (c.hash, lib_struct(c)) != snap or c.copy().hash != c.hash:
                    probs.append(f'parsing changed its input: the cell tree "{name}" no longer is what it was (bits / references of a cell of the tree were modified)')
    return h.hexdigest(), probs


_PARSE_INPUTS = {}
_PARSE_SNAP = {}


def parse_inputs():
    """immutable inputs (cells / bytes written by the reference encoders) for the parse battery, built once per process"""
    if _PARSE_INPUTS:
        return _PARSE_INPUTS
    from . import c17, c15, c14
    b, r = c17.enc_stack([['tuple', []], ['tuple', [c17.I(7)]], ['tuple', [c17.I(1), c17.I(2)]], c17.I(1 << 70), ['null']], False)
    _PARSE_INPUTS['vmstack'] = to_lib(RC.RCell(b, r))
    # slices whose window is narrower than their cell (bits and references cut at both ends), in the alternative valid forms
    b, r = c17.enc_stack([['slice', 1, 3, 1], ['tuple', [['slice', 1, 3, 1], c17.I(5)]], ['slice', 1, 0, 0]], True)
    _PARSE_INPUTS['vmstack-slices'] = to_lib(RC.RCell(b, r))
    acct = bytes(range(7, 39))
    _PARSE_INPUTS['addr-plain'] = to_lib(RC.RCell(RBITS.addr_std(0, acct)))
    _PARSE_INPUTS['addr-anycast'] = to_lib(RC.RCell(RBITS.addr_std(0, acct, (3, 5))))
    h = c15.headers()[2]
    m = dict(c15.placements(h, c15.inits()[32], c15.body_cell(40, 1, 0), 0))
    _PARSE_INPUTS['message'] = to_lib(next(iter(m.values())))
    ib, ir = c15.enc_init(c15.inits()[32])
    _PARSE_INPUTS['stateinit'] = to_lib(RC.RCell(ib, ir))
    eb, er = c15.enc_extra({'3': 9, '70000': 1 << 200})
    _PARSE_INPUTS['currencies'] = to_lib(RC.RCell(RBITS.coins(12345) + eb, er))
    _PARSE_INPUTS['dict'] = to_lib(dict_root())
    _PARSE_INPUTS['tl'] = c14.ref_schema().encode({'@type': 'adnl.message.query', 'query_id': bytes(range(32)).hex(),
                                                   'query': {'@type': 'dht.ping', 'random_id': 0x1122334455667788}}, True)
    for name, c in _PARSE_INPUTS.items():
        if hasattr(c, 'to_boc'):
            _PARSE_SNAP[name] = (c.hash, lib_struct(c))      # taken before anything was parsed
    return _PARSE_INPUTS


def parse_battery():
    """the library's parsers on fixed immutable inputs: -> {name: structural description of the result}"""
    from pytoniq_core.boc import HashMap
    from pytoniq_core.tlb.vm_stack import VmStack
    from pytoniq_core.tlb.transaction import MessageAny
    from pytoniq_core.tlb.account import StateInit
    from pytoniq_core.tlb.block import CurrencyCollection
    from .common import deep_repr
    from . import c14
    inp = parse_inputs()
    out = {}
    out['vmstack'] = deep_repr(VmStack.deserialize(inp['vmstack'].begin_parse()))
    out['vmstack-slices'] = deep_repr(VmStack.deserialize(inp['vmstack-slices'].begin_parse()))
    # two encodings of one account, with and without anycast info: a value handed out earlier stays as it was returned
    a1 = inp['addr-plain'].begin_parse().load_address()
    r1 = deep_repr(a1)
    a2 = inp['addr-anycast'].begin_parse().load_address()
    r2 = deep_repr(a2)
    a3 = inp['addr-plain'].begin_parse().preload_address()
    out['addresses'] = (r1, r2, deep_repr(a3), ('earlier value now', deep_repr(a1) == r1), ('anycast', a1.anycast is None, a3.anycast is None, a2.anycast is not None))
    out['message'] = deep_repr(MessageAny.deserialize(inp['message'].begin_parse()))
    out['stateinit'] = deep_repr(StateInit.deserialize(inp['stateinit'].begin_parse()))
    out['currencies'] = deep_repr(CurrencyCollection.deserialize(inp['currencies'].begin_parse()))
    out['dict'] = deep_repr(HashMap.parse(inp['dict'].begin_parse(), 8, None, lambda s: s.load_uint(16)))
    out['load_dict'] = deep_repr(to_lib(RC.RCell('1', (dict_root(),))).begin_parse().load_dict(8, None, lambda s: s.load_uint(16)))
    out['tl'] = deep_repr(c14.lib_registry().deserialize(inp['tl'], boxed=True))
    return out


_PARSE_BASE = {}


def lib_struct(c):
    """the tree below a library cell as the objects hold it NOW (bits and reference lists read from the attributes, not from cached hashes)"""
    out, stack, n = [], [c], 0
    while stack and n < 400:
        x = stack.pop()
        n += 1
        out.append((x.bits.to01(), len(x.refs), x.type_))
        stack.extend(x.refs)
    return tuple(out)


def run_history(kind, hist):
    """replay on fresh objects and on the model; returns dict with verdict fields"""
    pool = real_initial(kind)
    mpool = model_initial(kind)
    outcomes = []
    for step, ev in enumerate(hist):
        mpool, mo = m_apply(mpool, ev)
        ro = r_apply(pool, ev)
        outcomes.append((ro, mo))
        if mo == '?EXC':
            return {'skip': True}
        if mo != '?' and str(ro) != str(mo):
            return {'bad': f'step {step} {ev}: returned {ro!r}, reference {mo!r}', 'what': f'outcome:{ev[0]}'}
        if mo == 'EXC':
            # a failed operation may leave the *target* half-written (not asserted); stop exploring this history
            return {'stop': True, 'pool': pool, 'mpool': mpool, 'outcomes': outcomes}
        rc_, mc_ = r_canon(pool), m_canon(mpool)
        if rc_ != mc_:
            diff = next((i for i, (a, b) in enumerate(zip(rc_, mc_)) if a != b), min(len(rc_), len(mc_)))
            kindc = rc_[diff][0] if diff < len(rc_) else '?'
            return {'bad': f'after step {step} {ev}: object #{diff} is {rc_[diff] if diff < len(rc_) else None}, reference {mc_[diff] if diff < len(mc_) else None}',
                    'what': f'pool:{kindc}-changed-by:{ev[0]}'}
    return {'pool': pool, 'mpool': mpool, 'outcomes': outcomes}


# operations that do not change the canonical form of the object they are called on: whether they were called is invisible in the pool
NON_MUTATING = {'begin_parse', 'to_slice', 'copy', 'to_builder', 'preload_bits', 's_to_cell', 's_copy', 's_to_builder', 'end_cell', 'b_to_slice',
                'parse_dict', 'parse_msg'}

MEMO = {}   # per worker process: canonical state -> (battery digest, outcome of last event)


def case_history(rec, kind, hist, use_memo=True):
    hist = [tuple(e) for e in hist]
    rec.case('arrival')
    rec.trans()
    args = {'kind': kind, 'hist': [list(e) for e in hist], 'use_memo': False}
    res = run_history(kind, hist)
    if res.get('skip'):
        return None
    if 'bad' in res:
        rec.violation(res['what'], f'pool {kind}, history {hist}: {res["bad"]}', 'case_history', args)
        rec.outcome('DIVERGED')
        return None
    if res.get('stop'):
        rec.outcome('refused')
        rec.trace()
        return None
    pool, mpool = res['pool'], res['mpool']
    canon = m_canon(mpool)
    try:
        dig, probs = battery(pool, mpool, parse=(kind, canon) not in MEMO or not use_memo)
    except Exception as e:
        rec.violation('battery-raises', f'pool {kind}, history {hist}: observer raised {exc_name(e)}: {e}', 'case_history', args)
        return None
    if probs:
        what = 'order-leak' if 'order' in probs[0] else 'observe'
        rec.violation(f'battery:{what}', f'pool {kind}, history {hist}: {probs[0]}', 'case_history', args)
        rec.outcome('BATTERY')
    after = r_canon(pool)
    if after != canon:
        rec.violation('battery:mutates', f'pool {kind}, history {hist}: observing (hash/to_boc/order/repr) changed the pool', 'case_history', args)
    rec.trace()
    key = (kind, canon)
    if use_memo:
        if key in MEMO:
            rec.covered('battery-rearrival')
            if MEMO[key] != dig:
                rec.violation('battery:history-dependent', f'pool {kind}: state reached by {hist} observes differently than when first reached '
                              f'(results depend on earlier calls)', 'case_history', args)
        else:
            MEMO[key] = dig
    rec.outcome('ok')
    return canon, dig, mpool


def shard_bfs(rec, kind, depth, reverse, part=0, parts=1):
    seen = {(m_canon(model_initial(kind)), frozenset())}
    r0 = case_history(rec, kind, [])
    frontier = collections.deque([[]])
    digests = {}
    level = {}
    if r0:
        digests[r0[0]] = r0[1]
        level[r0[0]] = 0
    while frontier:
        hist = frontier.popleft()
        if len(hist) >= depth:
            continue
        # the model pool decides which events are enabled
        mpool = model_initial(kind)
        ok = True
        for ev in hist:
            mpool, mo = m_apply(mpool, ev)
        evs = enabled(mpool, kind)
        if not hist:
            evs = [e for n, e in enumerate(evs) if n % parts == part]
        if reverse:
            evs = evs[::-1]
        for ev in evs:
            rec.covered(f'ev:{ev[0]}')
            r = case_history(rec, kind, hist + [ev])
            rec.depth(len(hist) + 1)
            if r is None:
                continue
            canon, dig, _ = r
            digests.setdefault(canon, dig)
            level.setdefault(canon, len(hist) + 1)
            # two histories are merged only if they reach the same canonical pool AND have called the same methods on the same objects
            # (as a set; only the methods that leave their target's canonical form as it is matter - the others show in the pool):
            # a canonical form alone merges [begin_parse, s_to_cell] with [begin_parse, copy], and state hidden inside the
            # slice by its first to_cell() would never be exercised by the continuation explored from the other history
            skey = (canon, frozenset((e[0], e[1]) for e in hist + [ev] if e[0] in NON_MUTATING))
            if skey not in seen:
                seen.add(skey)
                rec.state((kind, canon))
                if len(hist) + 1 >= 2:
                    rec.nontriv((kind, canon))
                frontier.append(hist + [ev])
    rec.covered(f'pool:{kind}')
    if reverse:
        rec.covered('order:reversed')
    for cut in (depth, depth - 1):
        sel = sorted((repr(c), d) for c, d in digests.items() if level[c] <= cut)
        summary = hashlib.blake2b(repr(sel).encode(), digest_size=12).hexdigest()
        rec.notes[f'batteries:{kind}:{part}:{"rev" if reverse else "fwd"}:{cut}'] = [len(sel), summary]
    if not reverse:
        rec.sample({'pool': kind, 'history': [['begin_parse', 0], ['load_bits', 2, 2], ['a_append', 3], ['s_to_cell', 2]],
                    'checked': 'pool == reference pool after every step; battery memoised per state'})


def finalize(merged):
    """cross-shard invariant: the forward and the reversed search saw the same states with the same batteries"""
    out = []
    notes = merged['notes']
    for kind, part in [(k, p) for k in POOLS for p in range(8)]:
        for cut in range(1, 8):
            a, b = notes.get(f'batteries:{kind}:{part}:fwd:{cut}'), notes.get(f'batteries:{kind}:{part}:rev:{cut}')
            if a and b:
                break
        if a and b and a != b:
            out.append({'key': 'battery:order-dependent', 'msg': f'pool {kind}: forward search saw {a}, reversed search saw {b}: observations depend on '
                        f'the order in which histories are executed', 'replay': {'fn': 'shard_bfs', 'args': {'kind': kind, 'depth': 3, 'reverse': True}}})
            break
    return out


def shards(tier, seed):
    depth = 4 if tier == 'quick' else 5
    out = []
    parts = 8           # the root has 8 events (4 per cell): one sub-tree per shard
    for kind in POOLS:
        for part in range(parts):
            out.append({'fn': 'shard_bfs', 'args': {'kind': kind, 'depth': depth, 'reverse': False, 'part': part, 'parts': parts}, 'prio': 2})
            out.append({'fn': 'shard_bfs', 'args': {'kind': kind, 'depth': depth - 1 if tier == 'quick' else depth, 'reverse': True, 'part': part, 'parts': parts}, 'prio': 1})
        sp = 2 if tier == 'quick' else 8
        for part in range(sp):
            out.append({'fn': 'shard_schedules', 'args': {'kind': kind, 'depth': 3 if tier == 'quick' else 4, 'length': 3 if tier == 'quick' else 4, 'part': part, 'parts': sp}, 'prio': 1})
    for kind in ('lib', 'pruned'):
        cp = 2 if tier == 'quick' else 8
        for part in range(cp):
            out.append({'fn': 'shard_ctor_schedules', 'args': {'kind': kind, 'length': 3 if tier == 'quick' else 4, 'part': part, 'parts': cp}, 'prio': 1})
    return out


# ------------------------------------------------------------------ construction schedules (sixth session)
# Cells with the SAME data bits that are different cells (an ordinary cell and a library / pruned-branch cell holding exactly the same
# bits), made one after the other through every constructor the library has: nothing may be carried from one construction to the next
# (an interning table, a memo of hashes ...), whatever the order.  All sequences of <= L constructor calls; every sequence works on
# content no earlier sequence has used, every produced cell is compared with the reference model when it is made and again at the end.
CTOR_ROUTES = ['builder', 'ctor', 'ctor_plain', 'boc', 'slice', 'copy']


def _construct(route, bits, special):
    from bitarray import bitarray
    from pytoniq_core.boc import Cell, Builder
    from pytoniq_core.boc.tvm_bitarray import TvmBitarray
    t = int(bits[:8], 2) if special else -1
    if route == 'builder':
        return (Builder(type_=t) if special else Builder()).store_bits(bits).end_cell()
    if route == 'ctor':
        ba = TvmBitarray(1023)
        ba.extend(bits)
        return Cell(ba, [], t)
    if route == 'ctor_plain':
        return Cell(bitarray(bits), [], t)
    if route == 'boc':
        return Cell.one_from_boc(RB.encode([RC.RCell(bits, (), special)]))
    base = (Builder(type_=t) if special else Builder()).store_bits(bits).end_cell()
    if route == 'slice':
        return base.begin_parse().to_cell()
    if route == 'copy':
        return base.copy()
    raise ValueError(route)


def _twin_bits(kind, tag, seed):
    from .common import filler
    h = ''.join(format(b, '08b') for b in filler(seed, f'c08-twin-{tag}', 32))
    if kind == 'lib':
        return '00000010' + h
    return '00000001' + '00000001' + h + format(7, '016b')


def case_ctor_schedule(rec, kind, seq, tag=None):
    """seq: list of [route, special]"""
    rec.case('ctor-schedule')
    tag = tag if tag is not None else '/'.join(f'{r}{int(sp)}' for r, sp in seq)
    bits = _twin_bits(kind, tag, rec.seed)
    args = {'kind': kind, 'seq': [list(x) for x in seq], 'tag': tag}
    made = []
    rec.state(('ctor-schedule', kind, tuple(tuple(x) for x in seq)))
    rec.nontriv(('ctor-schedule', kind, tuple(tuple(x) for x in seq)))

    def describe(c):
        return (c.type_, c.is_exotic, c.bits.to01(), c.hash, c.level_mask.mask, tuple(c.get_hash(l) for l in range(4)), tuple(c.get_depth(l) for l in range(4)),
                bytes(c.to_boc()))

    def expected(special):
        r = RC.RCell(bits, (), bool(special))
        return ((r.type if special else -1), bool(special), bits, r.hash(), r.mask, tuple(r.hash(l) for l in range(4)), tuple(r.depth(l) for l in range(4)),
                bytes(RB.encode([r])))
    for k, (route, special) in enumerate(seq):
        rec.trans()
        try:
            c = _construct(route, bits, special)
            got = describe(c)
        except Exception as e:
            rec.violation(f'ctor-schedule:raises:{route}', f'{kind} twin, constructor calls {seq}: call #{k} raised {exc_name(e)}: {e}', 'case_ctor_schedule', args)
            return
        made.append((c, special, route))
        for j, (cj, spj, rj) in enumerate(made):
            want = expected(spj)
            got = describe(cj)
            if got != want:
                what = next(n for n, a, b in zip(('type_', 'is_exotic', 'bits', 'hash', 'level mask', 'hash(l)', 'depth(l)', 'to_boc'), got, want) if a != b)
                rec.violation(f'ctor-schedule:{what}', f'{kind} twin ({"exotic" if spj else "ordinary"} cell made by {rj} as call #{j}), constructor calls {seq}: after call #{k} its {what} is '
                              f'not the one of that cell (something is carried over between constructions of cells with equal data bits)', 'case_ctor_schedule', args)
                rec.outcome('CARRIED-OVER')
                return
        rec.trace()
    rec.covered('ctor-schedule')
    rec.outcome('ctor-ok')


def shard_ctor_schedules(rec, kind, length, part, parts):
    calls = [[r, sp] for r in CTOR_ROUTES for sp in (False, True)]
    i = 0
    for n in range(2, length + 1):
        for seq in itertools.product(calls, repeat=n):
            i += 1
            if i % parts != part:
                continue
            if len({sp for _, sp in seq}) < 2:
                continue        # the schedule has to make both twins
            case_ctor_schedule(rec, kind, [list(x) for x in seq])
    rec.sample({'ctor_schedule': [['builder', False], ['builder', True]], 'twin': kind})


# ------------------------------------------------------------------ observation schedules
# The battery above observes every cell the same number of times in the same order, so hidden state that only shows when two
# observers / two roots are called in a PARTICULAR multiplicity (a per-object traversal counter, a parser object that keeps its
# read position) is invisible to it.  Here the observations themselves are the events: for every base state (the initial pools and
# every state reachable in <= 2 steps that holds a new set of cells) ALL sequences of <= L observations over (object, observer)
# run on a fresh replay; every single result must equal the result of the same observation made alone on a fresh replay
# (which the battery compares with the reference model), and the pool must stay as it was.
OBS_CELL = ['boc', 'order', 'boc_full', 'order_arg', 'hash', 'order_into']
OBS_CELL_LEAN = ['boc', 'order']


def _obs(pool, bocs, ev):
    kind, i, name = ev
    if kind == 'P':
        from pytoniq_core.boc import Cell, Slice
        roots = bocs[i].deserialize(Cell if name == 'deser' else None)
        return tuple((type(r).__name__, r.hash, r.bits.to01(), len(r.refs)) for r in roots)
    o = pool[i]
    if name == 'boc':
        return o.to_boc()
    if name == 'boc_full':
        return o.to_boc(has_idx=True, hash_crc32=True, has_cache_bits=True)
    if name == 'order':
        return tuple(c.hash for c in o.order())
    if name == 'order_arg':
        return tuple(c.hash for c in o.order({}))
    if name == 'hash':
        return (o.hash, hash(o), repr(o), o.get_depth(), o.calculate_representation_hash())
    if name == 'order_into':
        # the dictionary order() RETURNED is the caller's: it is handed on as the `result` argument of another cell's order() (which fills
        # it further) and emptied afterwards - none of which is the first cell's business
        from pytoniq_core.boc import Cell
        d = o.order()
        other = next((p for j, p in enumerate(pool) if j != i and isinstance(p, Cell)), o)
        other.order(d)
        res = tuple(c.hash for c in d)
        d.clear()
        return res
    raise AssertionError(name)


def _sched_pool(kind, hist):
    from pytoniq_core.boc.deserialize import Boc
    res = run_history(kind, hist)
    if 'pool' not in res or res.get('stop') or 'bad' in res:
        return None
    pool, mpool = res['pool'], res['mpool']
    # parser objects over bytes written by the REFERENCE encoder (no library call made to obtain them)
    cells = [m.rc for m in mpool if mkind(m) == 'C']
    bocs = [Boc(RB.encode([cells[0]])), Boc(RB.encode([cells[-1], cells[0]], has_crc=True, has_idx=True).hex())]
    return pool, mpool, bocs


def sched_events(mpool, lean):
    ev = []
    for i, m in enumerate(mpool):
        if mkind(m) == 'C':
            ev += [('C', i, n) for n in (OBS_CELL_LEAN if lean else OBS_CELL)]
    ev += [('P', 0, 'deser'), ('P', 1, 'deser')] + ([] if lean else [('P', 0, 'deser_default')])
    return ev


def case_schedules(rec, kind, hist, length, lean):
    hist = [tuple(e) for e in hist]
    args = {'kind': kind, 'hist': [list(e) for e in hist], 'length': length, 'lean': lean}
    rec.case('schedules')
    first = _sched_pool(kind, hist)
    if first is None:
        return
    evs = sched_events(first[1], lean)
    base = {}
    def again():
        res = _sched_pool(kind, hist)
        if res is None:
            # the same history, replayed on fresh objects, went through the first time and does not now: something outlived the replay
            rec.violation('schedule:replay-diverged', f'pool {kind}, history {hist}: replaying the history on fresh objects succeeded once and fails / diverges from the '
                          f'reference model the next time (state carried between replays)', 'case_schedules', args)
        return res
    for ev in evs:
        res = again()
        if res is None:
            return
        pool, mpool, bocs = res
        try:
            base[ev] = _obs(pool, bocs, ev)
        except Exception as e:
            rec.violation(f'schedule:raises:{ev[2]}', f'pool {kind}, history {hist}: observation {ev} alone raised {exc_name(e)}: {e}', 'case_schedules', args)
            return
    canon = m_canon(first[1])
    n = 0
    for L in range(2, length + 1):
        for seq in itertools.product(evs, repeat=L):
            if len(set(seq)) == 1 and L > 2:
                continue
            res = again()
            if res is None:
                return
            pool, mpool, bocs = res
            rec.trans()
            n += 1
            for k, ev in enumerate(seq):
                try:
                    got = _obs(pool, bocs, ev)
                except Exception as e:
                    got = ('RAISED', exc_name(e), str(e)[:80])
                if got != base[ev]:
                    rec.violation(f'schedule:{ev[2]}', f'pool {kind}, history {hist}: observation #{k} {ev} of the schedule {list(seq)} gives another result '
                                  f'than the same observation made alone ({str(got)[:120]} vs {str(base[ev])[:120]}): results depend on earlier calls',
                                  'case_schedules', args)
                    rec.outcome('SCHEDULE')
                    return
            if r_canon(pool) != canon:
                rec.violation('schedule:mutates', f'pool {kind}, history {hist}: observations {list(seq)} changed the pool', 'case_schedules', args)
                return
            rec.trace()
    rec.state(('sched', kind, canon))
    rec.nontriv(('sched', kind, canon))
    rec.covered('schedules', f'schedules:L{length}')
    rec.notes['schedules'] = rec.notes.get('schedules', 0) + n
    rec.outcome('sched-ok')


def sched_bases(kind, depth):
    """histories of <= depth events (model only) that reach a new multiset of cells"""
    out, seen = [], set()
    frontier = collections.deque([[]])
    seen_states = set()
    while frontier:
        hist = frontier.popleft()
        mpool = model_initial(kind)
        skip = False
        for ev in hist:
            mpool, mo = m_apply(mpool, ev)
            if mo in ('EXC', '?EXC'):
                skip = True
        if skip:
            continue
        canon = m_canon(mpool)
        if canon in seen_states:
            continue
        seen_states.add(canon)
        cells = tuple(c for c in canon if c[0] == 'C')
        if cells not in seen:
            seen.add(cells)
            out.append(hist)
        if len(hist) < depth:
            for ev in enabled(mpool, kind):
                frontier.append(hist + [ev])
    return out


def shard_schedules(rec, kind, depth, length, part, parts):
    bases = sched_bases(kind, depth)
    for n, hist in enumerate(bases):
        if n % parts == part:
            ln = length if len(hist) <= 3 else length - 1             # the deepest base states of the thorough tier get one observation less
            case_schedules(rec, kind, hist, ln, True)                 # few observers, long schedules
            case_schedules(rec, kind, hist, ln - 1, False)            # all observers, shorter schedules
    rec.notes[f'sched-bases:{kind}:{depth}'] = len(bases)
    if part == 0:
        rec.sample({'pool': kind, 'base_history': bases[-1], 'schedules': f'all sequences of 2..{length} observations over (cell x {OBS_CELL_LEAN}) + Boc.deserialize, of 2..{length - 1} over (cell x {OBS_CELL})',
                    'oracle': 'each result equals the observation made alone on a fresh replay; pool unchanged'})
