"""C06 - typed Builder stores and Slice loads are mutually inverse and bit-exact (explorers E + S)."""
import itertools
from ..ref import bits as RBITS
from . import typed
from .common import filler, exc_name

ID = 'C06'
TITLE = 'Typed Builder stores and Slice loads are mutually inverse and bit-exact'
EXPLORER = 'E (value alphabet per type, every width / byte-length class) + S (BFS over store sequences, replayed on fresh builders)'
RULE = ('values: uint/int for EVERY width 1..256/257 x boundary values (all values for widths <= 8); var_uint/var_int with 3/4/5-bit length '
        'fields for EVERY byte-length class x {min, max, top-bit-set} of both signs, plus all integers in a centred range; coins boundaries; '
        'bit strings / byte strings / UTF-8 strings of every length; snake strings for EVERY start offset 0..1023 x length classes around the '
        'cell capacity; addr_none, addr_extern of lengths {0,1,8,9,255,511}, addr_std for workchains {-128,-1,0,127} with and without anycast '
        '(every depth 1..30 x boundary prefixes), textual address forms; optional refs and dicts. sequences: every sequence of <= depth ops '
        'over a 30-op alphabet that fits a cell (BFS; the state is the op history, replayed on a fresh Builder). Oracle per case: '
        'end_cell().bits == concatenated reference TL-B bits; loading in order returns the values; each preload_* returns the same value and '
        'leaves the slice unchanged; nothing is left unread. non-trivial = sequence length >= 2 or a boundary value; states = distinct op '
        'histories; transitions = store/load/peek calls; traces = sequences compared with the reference encoding')
RULE += ' Fifth session: zero-width integers in the sequence alphabet.'
LEVEL_TEXT = ('Bounded-exhaustive: every width and every variable-length class of every typed store is exercised with boundary values, and every '
              'interleaving of typed stores up to the depth bound is stored, compared bit-for-bit with independent TL-B reference encodings, and '
              'read back with peek = read checks.')
LEVEL_NOTE = 'trusted: mc/ref/bits.py (TL-B primitives from block.tlb); values inside a width class by boundary representatives'
TECHNIQUE = 'small-scope exhaustive enumeration of typed values plus explicit-state BFS over store sequences against reference encodings'
RULE += ' After loading, the stored cell DAG must be structurally unchanged (reading is not writing - e.g. continuation cells of a snake string) and a second reader of the same cell must get the same values.'
ASSUMPTIONS = ['interior values of wide integers are represented by boundary values; all widths and length classes are complete']
NOT_ASSERTED = ['addr_var (MsgAddressInt$11): the library refuses it explicitly', 'integer width 0 (the property quantifies widths 1..257)']
RULE += ' Sixth session: address routes (Address.to_cell, the copy constructor; with and without anycast), address-text histories (the first object parsed from a text is edited by the caller, the text is used again), failing peeks (9 malformed / cut-off fields x 13 preload_* calls x refs x offsets: whatever the peek does, the slice is afterwards what it was).'


def BOUNDS(tier):
    return {'uint_widths': '1..256', 'int_widths': '1..257', 'var_len_bits': [3, 4, 5], 'var_small_range': 1100 if tier == 'quick' else 70000,
            'snake_offsets': '0..1023', 'sequence_depth': 3 if tier == 'quick' else 4, 'sequence_alphabet': len(ALPHABET), 'exhaustive': True}


def REQUIRED_COVER(tier):
    return {'uint:256', 'int:257', 'var_int:topbit', 'snake:multi', 'addr:anycast', 'addr:ext', 'addr:route', 'addr:history', 'failing-peek', 'builder-readback', 'seq:depth2', 'dict', 'string:utf8', 'snake:long'}


HASH32 = 'ed1691307050047117b998b561d8de82d31fbf84910ced6eb5fc92e7485ef8a7'


# ------------------------------------------------------------------ single sequence case (replayable)
def case_seq(rec, descs, sub='value'):
    rec.case(sub)
    try:
        if sub == 'snake-long':
            # as in a user's program: under the interpreter's default recursion limit (a chain may be ~1000 cells long)
            from .common import user_recursion_limit
            try:
                with user_recursion_limit():
                    probs, cell = typed.run_sequence(descs)
            except RecursionError:
                probs, cell = [('snake', 'recursion', 'RecursionError under the default recursion limit (one frame per cell of the chain?)')], None
        else:
            probs, cell = typed.run_sequence(descs)
    except RBITS.RefRangeError as e:
        raise AssertionError(f'harness generated an invalid value {descs}: {e}')
    rec.trans(2 * len(descs) + 1)
    rec.trace()
    if probs:
        ck, what, _ = probs[0]
        rec.violation(f'{ck}:{what}', f'sequence {str(descs)[:300]}: ' + '; '.join(m for _, _, m in probs[:3]), 'case_seq', {'descs': descs, 'sub': sub})
        rec.outcome(f'PROBLEM:{ck}:{what}')
    else:
        rec.outcome('ok')
    rec.state(('seq', str(descs)))


def _vals(rec, sub, descs_iter, nontrivial=True):
    for d in descs_iter:
        case_seq(rec, [list(d)], sub)
        if nontrivial:
            rec.nontriv(('v', str(d)))


# ------------------------------------------------------------------ value shards
def shard_uint(rec, lo, hi):
    for w in range(lo, hi + 1):
        if w <= 8:
            vals = range(1 << w)
        else:
            vals = sorted({0, 1, 2, (1 << (w - 1)) - 1, 1 << (w - 1), (1 << w) - 2, (1 << w) - 1, int('10' * w, 2) >> w})
        _vals(rec, 'uint', (('uint', v, w) for v in vals))
        if w == 256:
            rec.covered('uint:256')
    rec.sample(['uint', (1 << (hi - 1)), hi])


def shard_int(rec, lo, hi):
    for w in range(lo, hi + 1):
        if w <= 8:
            vals = range(-(1 << (w - 1)), 1 << (w - 1))
        else:
            vals = sorted({-(1 << (w - 1)), -(1 << (w - 1)) + 1, -2, -1, 0, 1, 2, (1 << (w - 1)) - 2, (1 << (w - 1)) - 1, -(1 << (w - 2)), 1 << (w - 2)})
        _vals(rec, 'int', (('int', v, w) for v in vals))
        if w == 257:
            rec.covered('int:257')
    rec.sample(['int', -(1 << (hi - 1)), hi])


def var_values(lb, signed):
    maxlen = (1 << lb) - 1
    out = [0]
    for L in range(1, maxlen + 1):
        bits = 8 * L
        if signed:
            out += [(1 << (bits - 1)) - 1,              # max positive of the class
                    (1 << (bits - 8)) if L > 1 else 1,   # smallest positive needing L bytes: 2^(8(L-1)-1)... see below
                    (1 << (bits - 9)) if bits >= 9 else 1,
                    -(1 << (bits - 1)),                  # min negative of the class
                    -(1 << (bits - 9)) - 1 if bits >= 9 else -1,   # largest-magnitude-below: first negative needing L bytes
                    (1 << (bits - 2)), -(1 << (bits - 2)) - 1]
        else:
            out += [(1 << bits) - 1, 1 << (bits - 1), (1 << (bits - 8)) if L > 1 else 1, (1 << (bits - 1)) - 1 if bits > 8 else 127]
    return sorted(set(out))


def shard_var(rec, lb, signed, small):
    kind = 'var_int' if signed else 'var_uint'
    vals = set(var_values(lb, signed))
    vals |= set(range(-small if signed else 0, small + 1))
    for v in (127, 128, 255, 256, 32767, 32768, 65535, 65536, -128, -129, -32768, -32769):
        if signed or v >= 0:
            vals.add(v)
    for v in sorted(vals):
        try:
            RBITS.var_sint_l(v, lb) if signed else RBITS.var_uint_l(v, lb)
        except RBITS.RefRangeError:
            continue
        case_seq(rec, [[kind, v, lb]], kind)
        if signed and v > 0 and v.bit_length() % 8 == 0:
            rec.covered('var_int:topbit')
        rec.nontriv((kind, v, lb))
    rec.sample([kind, 128, lb])


def shard_coins(rec):
    vals = {0, 1, 255, 256, 10 ** 9, (1 << 120) - 1, 1 << 119, (1 << 64), (1 << 64) - 1}
    for L in range(1, 16):
        vals |= {(1 << (8 * L)) - 1, 1 << (8 * L - 1), 1 << (8 * (L - 1))}
    _vals(rec, 'coins', (('coins', v) for v in sorted(vals)))
    rec.sample(['coins', (1 << 120) - 1])


def shard_bits_bytes(rec, part):
    seed = rec.seed
    if part == 0:
        for n in range(0, 1024):
            fb = ''.join(f'{x:08b}' for x in filler(seed, f'c06b{n}', (n + 7) // 8))[:n]
            case_seq(rec, [['bits', fb]], 'bits')
            if n % 8:
                rec.nontriv(('bits', n))
        for v in (0, 1):
            case_seq(rec, [['bit', v], ['bool', v], ['bit', 1 - v]], 'bit')
    else:
        for n in range(0, 128):
            data = filler(seed, f'c06y{n}', n)
            case_seq(rec, [['bytes', data.hex()]], 'bytes')
            case_seq(rec, [['uint', 5, 3], ['bytes', data.hex()]] if n < 127 else [['bytes', data.hex()]], 'bytes')
            text = ''.join(chr(0x61 + (b % 26)) for b in data)
            case_seq(rec, [['string', text]], 'string')
            case_seq(rec, [['string_rest', text]], 'string')
            # multi-byte UTF-8 of exactly n bytes where possible
            u = ('é' * (n // 2)) + ('x' if n % 2 else '')
            case_seq(rec, [['string', u]], 'string')
            u3 = ('€' * (n // 3)) + 'y' * (n % 3)
            case_seq(rec, [['uint', 1, 7], ['string', u3]] if n < 127 else [['string', u3]], 'string')
            rec.nontriv(('bytes', n))
        rec.covered('string:utf8')
    rec.sample(['string', '€€y'])


def shard_snake(rec, lo, hi):
    seed = rec.seed
    for off in range(lo, hi + 1):
        cap = (1023 - off) // 8
        lens = sorted({0, 1, max(0, cap - 1), cap, cap + 1, cap + 126, cap + 127, cap + 128, cap + 127 + 127, cap + 2 * 127 + 1})
        for L in lens:
            data = filler(seed, f'snake{off}-{L}', L)
            pre = [['bits', ('10' * 512)[:off]]] if off else []
            case_seq(rec, pre + [['snake', data.hex()]], 'snake')
            if L > cap:
                rec.covered('snake:multi')
            rec.nontriv(('snake', off, L))
        if off % 64 == 0:
            text = '€' * (cap // 3 + 50)
            case_seq(rec, ([['bits', ('10' * 512)[:off]]] if off else []) + [['snake_string', text]], 'snake')
    rec.sample(['bits(offset 13)', 'snake(len = capacity + 128)'])


def shard_snake_long(rec):
    """snake strings "of any length": up to the longest chain the cell depth limit allows (head + 1023 continuation cells)"""
    for cells in (100, 500, 900, 990, 1000, 1022, 1023):
        for off, extra in ((0, 0), (0, 1), (8, 126), (1000, 5)):
            head = (1023 - off) // 8
            n = head + 127 * (cells - 1) + extra
            pre = [['bits', ('10' * 512)[:off]]] if off else []
            if extra and cells == 1023:
                continue                    # one cell more than the depth limit allows
            case_seq(rec, pre + [['snake_gen', n]], 'snake-long')
            rec.nontriv(('snake-long', cells, off, extra))
    rec.covered('snake:long')


def shard_addr(rec):
    seed = rec.seed
    accs = [bytes(32).hex(), (b'\xff' * 32).hex(), HASH32, filler(seed, 'acc', 32).hex()]
    case_seq(rec, [['addr_none']], 'addr')
    for ln in (0, 1, 2, 7, 8, 9, 64, 255, 256, 511):
        for v in {0, 1, (1 << ln) - 1, (1 << ln) >> 1}:
            if v < (1 << ln) or (ln == 0 and v == 0):
                case_seq(rec, [['addr_ext', v, ln]], 'addr_ext')
                case_seq(rec, [['uint', 1, 1], ['addr_ext', v, ln], ['uint', 2, 2]], 'addr_ext')
                rec.covered('addr:ext')
    for wc in (-128, -1, 0, 1, 127):
        for acc in accs:
            case_seq(rec, [['addr_std', wc, acc, None]], 'addr_std')
            case_seq(rec, [['addr_str', wc, acc, 0]], 'addr_str')
            case_seq(rec, [['addr_str', wc, acc, 1]], 'addr_str')
            case_seq(rec, [['addr_std', wc, acc, None], ['addr_none'], ['addr_std', wc, acc, None]], 'addr_std')
    for depth in range(1, 31):
        for pfx in {0, 1, (1 << depth) - 1, 1 << (depth - 1)}:
            if pfx < (1 << depth):
                for wc in (-1, 0):
                    case_seq(rec, [['addr_std', wc, accs[2], [depth, pfx]]], 'addr_anycast')
                    case_seq(rec, [['bit', 1], ['addr_std', wc, accs[3], [depth, pfx]], ['coins', 5]], 'addr_anycast')
                    rec.covered('addr:anycast')
                    rec.nontriv(('anycast', depth, pfx, wc))
    # sixth session: Address objects through to_cell() / the copy constructor (with and without anycast), and address TEXTS whose first
    # parsed object the caller edits afterwards (every use of the text still denotes the plain address)
    n = 0
    for wc in (-1, 0, 127):
        for anycast in (None, [1, 1], [5, 19], [30, (1 << 30) - 1]):
            for route in ('to_cell', 'to_cell_slice', 'copy', 'copy_to_cell'):
                case_seq(rec, [['uint', 1, 1], ['addr_route', wc, accs[3], anycast, route], ['uint', 2, 2]], 'addr_route')
                rec.covered('addr:route')
        for friendly in (0, 1):
            for edit in ('anycast', 'wc', 'hash', 'loaded-anycast'):
                for k in range(2):
                    n += 1
                    acc = filler(seed, f'addr-hist-{n}', 32).hex()      # a text nobody has parsed before in this process
                    case_seq(rec, [['addr_hist', wc, acc, friendly, [3, 5], edit], ['addr_hist', wc, acc, friendly, [3, 5], edit]], 'addr_hist')
                    rec.covered('addr:history')
    # the same values handed over in their other accepted argument forms
    for v in (0, 1):
        for form in ('int', 'bool', 'str', 'tvm'):
            case_seq(rec, [['bit_form', v, form], ['uint', 5, 3], ['bit_form', 1 - v, form]], 'bit')
    for ln in (8, 9, 16, 255):
        for v in {1, (1 << ln) - 1, (1 << ln) >> 1}:
            for form in ('hex', 'bytes'):
                case_seq(rec, [['addr_ext_form', v, ln, form], ['bit', 1]], 'addr_ext')
    for text in ('', 'a', 'snake' * 30, 'é' * 100):
        case_seq(rec, [['uint', 3, 8], ['snake_string_prefixed', text]], 'snake')
    for tag in (None, 1, 200):
        case_seq(rec, [['maybe_ref', tag]], 'maybe_ref')
        case_seq(rec, [['dict', tag]], 'dict')
        case_seq(rec, [['maybe_ref', tag], ['dict', tag], ['ref', 3], ['maybe_ref', 7 if tag else None]], 'maybe_ref')
    rec.covered('dict')
    rec.sample(['addr_std', -1, HASH32, [30, (1 << 30) - 1]])


def shard_failing_peeks(rec):
    """sixth session (wave 9): a peek is non-consuming ALSO WHEN IT FAILS.  For slices whose next field is malformed, unsupported or cut short
    for the peek in question: whatever the peek does (raise, return something), the slice is afterwards exactly what it was - same remaining
    bits, same remaining references - and reading on gives the stored data."""
    from pytoniq_core.boc import Builder
    leaf = Builder().store_uint(5, 3).end_cell()
    acc = format(int(HASH32, 16), '0256b')
    fields = {
        'addr_var tag': '11' + '0' * 40,
        'addr_std cut short': '100' + '00000000' + acc[:100],
        'addr_std with anycast cut short': '101' + '00011' + '1',
        'addr_extern longer than the rest': '01' + format(400, '09b') + '1' * 20,
        'tag only': '1',
        'var_uint longer than the rest': '1111' + '1' * 30,
        'coins longer than the rest': '1110' + '1' * 50,
        'maybe-ref bit without a reference': '1' + '0' * 7,
        'nothing left': '',
    }
    peeks = [('preload_address', lambda s: s.preload_address()), ('preload_var_uint(4)', lambda s: s.preload_var_uint(4)), ('preload_var_int(4)', lambda s: s.preload_var_int(4)),
             ('preload_coins', lambda s: s.preload_coins()), ('preload_maybe_ref', lambda s: s.preload_maybe_ref()), ('preload_dict(8)', lambda s: s.preload_dict(8)),
             ('preload_uint(64)', lambda s: s.preload_uint(64)), ('preload_int(64)', lambda s: s.preload_int(64)), ('preload_bits(64)', lambda s: s.preload_bits(64)),
             ('preload_bytes(8)', lambda s: s.preload_bytes(8)), ('preload_bit', lambda s: s.preload_bit()), ('preload_ref', lambda s: s.preload_ref()),
             ('preload_string(9)', lambda s: s.preload_string(9))]
    for fname, bits in fields.items():
        for nrefs in (0, 1):
            for skip in (0, 3):
                for pname, peek in peeks:
                    rec.case('failing-peek')
                    b = Builder().store_bits('101'[:skip]).store_bits(bits)
                    for _ in range(nrefs):
                        b.store_ref(leaf)
                    s = b.end_cell().begin_parse()
                    if skip:
                        s.skip_bits(skip)
                    before = (s.bits.to01(), s.remaining_refs, s.ref_offset)
                    rec.trans()
                    try:
                        peek(s)
                        out = 'returned'
                    except Exception as e:
                        out = exc_name(e)
                    after = (s.bits.to01(), s.remaining_refs, s.ref_offset)
                    rec.state(('failing-peek', fname, nrefs, skip, pname))
                    rec.nontriv(('failing-peek', fname, nrefs, skip, pname))
                    rec.trace()
                    if after != before or before[0] != bits:
                        rec.violation(f'peek-consumed:{pname.split("(")[0]}', f'{pname} on a slice holding "{fname}" ({len(bits)} bits, {nrefs} refs; it {out}): the slice went from '
                                      f'{len(before[0])} bits / {before[1]} refs to {len(after[0])} bits / {after[1]} refs', 'shard_failing_peeks', {})
                        rec.outcome('PEEK-CONSUMED')
                        continue
                    try:
                        rest = s.load_bits(len(bits)).to01() if bits else ''
                    except Exception as e:
                        rest = f'raised {exc_name(e)}'
                    if rest != bits:
                        rec.violation(f'peek-consumed:{pname.split("(")[0]}', f'{pname} on a slice holding "{fname}" (it {out}): reading on gives other data than was stored', 'shard_failing_peeks', {})
                        continue
                    rec.outcome('peek-left-slice-alone')
    rec.covered('failing-peek')


def shard_builder_readback(rec):
    """wave 10: the builder is read back through to_slice() - and goes on being used.  For every typed value: store it (and a guard field),
    take a slice of the BUILDER, load everything back from that slice, then: the builder's cell still holds the stored bits, a second
    to_slice() reads the same values again, and a further store lands after them."""
    from pytoniq_core.boc import Builder
    descs = [['uint', 200, 8], ['int', -3, 7], ['var_uint', 300, 4], ['var_int', -129, 5], ['coins', 10 ** 9], ['bits', '10110'], ['bytes', 'deadbeef'],
             ['addr_none'], ['addr_ext', 0x1ff, 9], ['addr_std', -1, HASH32, None], ['addr_std', 0, HASH32, [3, 5]], ['maybe_ref', 9], ['dict', 77], ['ref', 1], ['bit', 1]]
    for d in descs:
        for pre in (0, 5):
            rec.case('builder-readback')
            rec.state(('readback', str(d), pre))
            rec.nontriv(('readback', str(d), pre))
            op = typed.mk(*d)
            guard = typed.mk('uint', 0x2a, 6)
            b = Builder()
            if pre:
                b.store_uint(21, pre)
            op.store(b)
            guard.store(b)
            want_bits = ('10101' if pre else '') + op.bits + guard.bits
            rec.trans(4)
            args = {'desc': d, 'pre': pre}
            try:
                for round_ in (1, 2):
                    sl = b.to_slice()
                    if pre:
                        sl.load_uint(pre)
                    v = op.load(sl)
                    g = guard.load(sl)
                    if not op.eq(v, op.value) or g != 0x2a or sl.remaining_bits or sl.remaining_refs:
                        rec.violation('builder-readback:value', f'{d}: read back through Builder.to_slice() (time #{round_}) gives {str(v)[:80]} / guard {g}, {sl.remaining_bits} bits left', 'shard_builder_readback', args)
                        break
                    got = b.end_cell().bits.to01()
                    if got != want_bits or len(b.bits) != len(want_bits) or len(b.refs) != op.nrefs:
                        rec.violation('builder-readback:builder-changed', f'{d}: after its slice was read (time #{round_}) the builder holds {len(b.bits)} bits / {len(b.refs)} refs '
                                      f'instead of {len(want_bits)} / {op.nrefs} (reading a slice of the builder changed the builder)', 'shard_builder_readback', args)
                        break
                else:
                    b.store_uint(5, 3)
                    if b.end_cell().bits.to01() != want_bits + '101':
                        rec.violation('builder-readback:store-after', f'{d}: a store after the read-back does not land after the stored fields', 'shard_builder_readback', args)
                    else:
                        rec.outcome('ok')
                        rec.trace()
            except Exception as e:
                rec.violation('builder-readback:raises', f'{d}: {exc_name(e)}: {e}', 'shard_builder_readback', args)
    rec.covered('builder-readback')


# ------------------------------------------------------------------ sequences (S)
ALPHABET = [
    ['bit', 1], ['bool', 0], ['uint', 0, 0], ['int', 0, 0], ['uint', 1, 1], ['uint', 200, 8], ['uint', (1 << 64) - 1, 64], ['uint', 1 << 255, 256],
    ['int', -1, 1], ['int', -3, 7], ['int', -(1 << 256), 257], ['int', 12345, 33],
    ['var_uint', 0, 4], ['var_uint', 300, 4], ['var_uint', (1 << 120) - 1, 4], ['var_int', -129, 5], ['var_int', 128, 3],
    ['coins', 0], ['coins', 10 ** 9],
    ['bits', '101'], ['bits', '1' * 300], ['bytes', 'deadbeef'], ['string', 'héllo'],
    ['ref', 1], ['ref', 2], ['maybe_ref', None], ['maybe_ref', 9], ['dict', None], ['dict', 77],
    ['addr_none'], ['addr_ext', 0x1ff, 9], ['addr_std', -1, HASH32, None], ['addr_std', 0, HASH32, [3, 5]],
]
TERMINALS = [['snake', 'aa' * 200], ['string_rest', 'tail']]


def _size(desc):
    op = typed.mk(*desc)
    return len(op.bits), op.nrefs


def shard_sequences(rec, first, depth):
    """BFS over op histories starting with ALPHABET[first]; a history is extended while it fits a cell.
    Each history is replayed on a fresh Builder (run_sequence)."""
    sizes = {str(d): _size(d) for d in ALPHABET}
    frontier = [[ALPHABET[first]]]
    level = 1
    while frontier:
        nxt = []
        for hist in frontier:
            case_seq(rec, hist, f'seq:{len(hist)}')
            rec.depth(len(hist))
            if len(hist) >= 2:
                rec.nontriv(('seq', str(hist)))
                rec.covered('seq:depth2')
            b = sum(sizes[str(d)][0] for d in hist)
            r = sum(sizes[str(d)][1] for d in hist)
            if len(hist) < depth:
                for d in ALPHABET:
                    db, dr = sizes[str(d)]
                    if b + db <= 1023 and r + dr <= 4:
                        nxt.append(hist + [d])
            # terminal ops may close any history
            if len(hist) <= depth and (b % 8 == 0 or True):
                for t in TERMINALS:
                    if t[0] == 'string_rest' and b + 32 > 1023:
                        continue
                    if t[0] == 'snake' and r >= 4 and (1023 - b) // 8 < 200:
                        continue
                    if len(hist) < depth:
                        case_seq(rec, hist + [t], f'seq-terminal')
        frontier = nxt
        level += 1
    if first == 0:
        rec.sample({'history': [ALPHABET[0], ALPHABET[12], ALPHABET[30], TERMINALS[0]]})


def shards(tier, seed):
    out = []
    for lo in range(1, 257, 32):
        out.append({'fn': 'shard_uint', 'args': {'lo': lo, 'hi': min(256, lo + 31)}})
        out.append({'fn': 'shard_int', 'args': {'lo': lo, 'hi': min(257, lo + 31) if lo + 31 < 256 else 257}})
    small = 1100 if tier == 'quick' else 70000
    for lb in (3, 4, 5):
        for signed in (False, True):
            out.append({'fn': 'shard_var', 'args': {'lb': lb, 'signed': signed, 'small': small}, 'prio': 2})
    out.append({'fn': 'shard_coins', 'args': {}})
    out.append({'fn': 'shard_failing_peeks', 'args': {}})
    out.append({'fn': 'shard_builder_readback', 'args': {}})
    out.append({'fn': 'shard_bits_bytes', 'args': {'part': 0}})
    out.append({'fn': 'shard_bits_bytes', 'args': {'part': 1}})
    for lo in range(0, 1024, 64):
        out.append({'fn': 'shard_snake', 'args': {'lo': lo, 'hi': min(1023, lo + 63)}, 'prio': 3})
    out.append({'fn': 'shard_addr', 'args': {}})
    out.append({'fn': 'shard_snake_long', 'args': {}, 'prio': 2})
    depth = 3 if tier == 'quick' else 4
    for first in range(len(ALPHABET)):
        out.append({'fn': 'shard_sequences', 'args': {'first': first, 'depth': depth}, 'prio': 4})
    return out
