"""Typed store/load operation table shared by C06 (inverse + bit-exact), C07 (capacity / ranges) and C08.

An Op describes one typed value: how to store it with the real Builder, the reference TL-B bits and
number of references it occupies, and how to load / peek it back with the real Slice.
"""
from ..ref import bits as RBITS
from ..ref import cell as RC


class Op:
    __slots__ = ('name', 'store', 'bits', 'nrefs', 'load', 'peek', 'value', 'eq', 'terminal')

    def __init__(self, name, store, bits, nrefs, load, peek, value, eq=None, terminal=False):
        self.name = name          # printable / replayable description
        self.store = store        # f(builder)
        self.bits = bits          # reference encoding (str of 0/1)
        self.nrefs = nrefs        # references consumed in the builder
        self.load = load          # f(slice) -> value
        self.peek = peek          # f(slice) -> value, must not consume; or None
        self.value = value
        self.eq = eq or (lambda a, b: a == b and type(a) == type(b))
        self.terminal = terminal  # must be the last op of a sequence (reads "the rest")


def _addr_eq(a, b):
    if a is None or b is None:
        return a is None and b is None
    if type(a).__name__ != type(b).__name__:
        return False
    if type(a).__name__ == 'ExternalAddress':
        return a.external_address == b.external_address and a.len == b.len
    an = getattr(a, 'anycast', None)
    bn = getattr(b, 'anycast', None)
    anv = (an.depth, an.rewrite_pfx) if an is not None else None
    bnv = (bn.depth, bn.rewrite_pfx) if bn is not None else None
    return a.wc == b.wc and a.hash_part == b.hash_part and anv == bnv


def mk(kind, *a):
    """build an Op from a JSON-able description (kind, args...) - this is what replay records hold"""
    from pytoniq_core.boc import Address, ExternalAddress, Builder
    from .common import to_lib
    desc = [kind] + list(a)
    if kind == 'uint':
        v, w = a
        return Op(desc, lambda b: b.store_uint(v, w), RBITS.uint(v, w), 0, lambda s: s.load_uint(w), lambda s: s.preload_uint(w), v)
    if kind == 'int':
        v, w = a
        return Op(desc, lambda b: b.store_int(v, w), RBITS.sint(v, w), 0, lambda s: s.load_int(w), lambda s: s.preload_int(w), v)
    if kind == 'var_uint':
        v, lb = a
        return Op(desc, lambda b: b.store_var_uint(v, lb), RBITS.var_uint_l(v, lb), 0, lambda s: s.load_var_uint(lb), lambda s: s.preload_var_uint(lb), v)
    if kind == 'var_int':
        v, lb = a
        return Op(desc, lambda b: b.store_var_int(v, lb), RBITS.var_sint_l(v, lb), 0, lambda s: s.load_var_int(lb), lambda s: s.preload_var_int(lb), v)
    if kind == 'coins':
        v, = a
        return Op(desc, lambda b: b.store_coins(v), RBITS.coins(v), 0, lambda s: s.load_coins(), lambda s: s.preload_coins(), v)
    if kind == 'bit':
        v, = a
        return Op(desc, lambda b: b.store_bit(v), str(v), 0, lambda s: s.load_bit(), lambda s: s.preload_bit(), v, eq=lambda x, y: int(x) == int(y))
    if kind == 'bit_form':      # store_bit accepts an int, a bool, a one-character string and a bit array
        v, form = a

        def arg():
            if form == 'bool':
                return bool(v)
            if form == 'str':
                return str(v)
            if form == 'tvm':
                from pytoniq_core.boc.tvm_bitarray import TvmBitarray
                t = TvmBitarray()
                t.extend(str(v) + '01')          # only its first bit is the value
                return t
            return v
        return Op(desc, lambda b: b.store_bit(arg()), str(v), 0, lambda s: s.load_bit(), lambda s: s.preload_bit(), v, eq=lambda x, y: int(x) == int(y))
    if kind == 'bool':
        v, = a
        return Op(desc, lambda b: b.store_bool(bool(v)), str(int(v)), 0, lambda s: s.load_bool(), lambda s: s.preload_bool(), bool(v))
    if kind == 'bits':
        bits, = a
        n = len(bits)
        return Op(desc, lambda b: b.store_bits(bits), bits, 0, lambda s: s.load_bits(n).to01(), lambda s: s.preload_bits(n).to01(), bits)
    if kind == 'bytes':
        hx, = a
        data = bytes.fromhex(hx)
        return Op(desc, lambda b: b.store_bytes(data), RBITS.bytes_bits(data), 0, lambda s: s.load_bytes(len(data)), lambda s: s.preload_bytes(len(data)), data)
    if kind == 'string':
        text, = a
        data = text.encode()
        n = len(data)
        if n == 0:
            return Op(desc, lambda b: b.store_string(text), '', 0, lambda s: '', None, '')
        return Op(desc, lambda b: b.store_string(text), RBITS.bytes_bits(data), 0, lambda s: s.load_string(n), lambda s: s.preload_string(n), text)
    if kind == 'string_rest':       # load_string() without a length reads the rest of the slice
        text, = a
        data = text.encode()
        return Op(desc, lambda b: b.store_string(text), RBITS.bytes_bits(data), 0, lambda s: s.load_string(), lambda s: s.preload_string(), text, terminal=True)
    if kind == 'ref':
        tag, = a
        rc = RC.RCell(format(tag, '08b'))
        return Op(desc, lambda b: b.store_ref(to_lib(rc)), '', 1, lambda s: s.load_ref().hash, lambda s: s.preload_ref().hash, rc.hash())
    if kind == 'maybe_ref':
        tag, = a
        if tag is None:
            return Op(desc, lambda b: b.store_maybe_ref(None), '0', 0, lambda s: s.load_maybe_ref(), lambda s: s.preload_maybe_ref(), None)
        rc = RC.RCell(format(tag, '08b'))
        hv = lambda c: None if c is None else c.hash
        return Op(desc, lambda b: b.store_maybe_ref(to_lib(rc)), '1', 1, lambda s: hv(s.load_maybe_ref()), lambda s: hv(s.preload_maybe_ref()), rc.hash())
    if kind == 'dict':
        tag, = a
        if tag is None:
            return Op(desc, lambda b: b.store_dict(None), '0', 0, lambda s: s.load_dict(8), lambda s: s.preload_dict(8), None)
        # a one-entry dictionary with 8-bit key `tag` and 8-bit value: hml_long/short label of 8 bits then value
        from ..ref import hashmap as RH
        rc = RH.build({tag: RBITS.uint(tag ^ 0xff, 8)}, 8)
        norm = lambda d: None if d is None else {k: v.load_uint(8) for k, v in d.items()}
        return Op(desc, lambda b: b.store_dict(to_lib(rc)), '1', 1, lambda s: norm(s.load_dict(8)), lambda s: norm(s.preload_dict(8)), {tag: tag ^ 0xff})
    if kind == 'addr_none':
        return Op(desc, lambda b: b.store_address(None), '00', 0, lambda s: s.load_address(), lambda s: s.preload_address(), None, eq=_addr_eq)
    if kind == 'addr_ext':
        v, ln = a
        ea = ExternalAddress(v, ln)
        return Op(desc, lambda b: b.store_address(ea), RBITS.addr_extern(v, ln), 0, lambda s: s.load_address(), lambda s: s.preload_address(), ea, eq=_addr_eq)
    if kind == 'addr_ext_form':     # ExternalAddress built from hex text / bytes instead of an int
        v, ln, form = a
        raw = v.to_bytes((ln + 7) // 8, 'big')
        ea = ExternalAddress(raw.hex() if form == 'hex' else raw, ln)
        return Op(desc, lambda b: b.store_address(ea), RBITS.addr_extern(v, ln), 0, lambda s: s.load_address(), lambda s: s.preload_address(), ExternalAddress(v, ln), eq=_addr_eq)
    if kind == 'addr_std':
        wc, hx, anycast = a
        acc = bytes.fromhex(hx)
        ad = Address((wc, acc))
        if anycast is not None:
            ad.set_anycast(anycast[0], anycast[1])
        return Op(desc, lambda b: b.store_address(ad), RBITS.addr_std(wc, acc, tuple(anycast) if anycast else None), 0,
                  lambda s: s.load_address(), lambda s: s.preload_address(), ad, eq=_addr_eq)
    if kind == 'addr_str':      # store_address accepts the textual forms too
        wc, hx, friendly = a
        acc = bytes.fromhex(hx)
        ad = Address((wc, acc))
        text = ad.to_str(is_user_friendly=bool(friendly))
        return Op(desc, lambda b: b.store_address(text), RBITS.addr_std(wc, acc, None), 0, lambda s: s.load_address(), lambda s: s.preload_address(), ad, eq=_addr_eq)
    if kind == 'addr_route':    # the same address value through the other routes that serialise / copy an Address object
        wc, hx, anycast, route = a
        acc = bytes.fromhex(hx)
        ad = Address((wc, acc))
        if anycast is not None:
            ad.set_anycast(anycast[0], anycast[1])
        store = {'to_cell': lambda b: b.store_cell(ad.to_cell()),
                 'to_cell_slice': lambda b: b.store_slice(ad.to_cell().begin_parse()),
                 'copy': lambda b: b.store_address(Address(ad)),
                 'copy_to_cell': lambda b: b.store_cell(Address(ad).to_cell())}[route]
        return Op(desc, store, RBITS.addr_std(wc, acc, tuple(anycast) if anycast else None), 0,
                  lambda s: s.load_address(), lambda s: s.preload_address(), ad, eq=_addr_eq)
    if kind == 'addr_hist':     # an address text whose FIRST parse in the process is held by the caller and edited; later uses of the text
        wc, hx, friendly, anycast, edit = a
        acc = bytes.fromhex(hx)
        plain = Address((wc, acc))
        text = plain.to_str(is_user_friendly=bool(friendly))

        def store(b):
            held = Address(text)
            if edit == 'anycast':
                held.set_anycast(anycast[0], anycast[1])
            elif edit == 'wc':
                held.wc = (wc + 1) if wc < 127 else 0
            elif edit == 'hash':
                held.hash_part = bytes(32)
            elif edit == 'loaded-anycast':     # the object a slice handed out for these bits is edited
                Builder().store_address(text).end_cell().begin_parse().load_address().set_anycast(anycast[0], anycast[1])
            return b.store_address(text)
        return Op(desc, store, RBITS.addr_std(wc, acc, None), 0, lambda s: s.load_address(), lambda s: s.preload_address(), plain, eq=_addr_eq)
    if kind == 'snake':
        hx, = a
        data = bytes.fromhex(hx)
        return Op(desc, lambda b: b.store_snake_bytes(data), None, None, lambda s: s.load_snake_bytes(), None, data, terminal=True)
    if kind == 'snake_gen':         # a long snake byte string, given by its length (pattern data)
        n, = a
        data = bytes((i * 7 + 3) % 251 for i in range(n))
        return Op(desc, lambda b: b.store_snake_bytes(data), None, None, lambda s: s.load_snake_bytes(), None, data, terminal=True)
    if kind == 'snake_string_prefixed':     # need_prefix=True: a zero byte in front (the on-chain "snake" content format)
        text, = a
        return Op(desc, lambda b: b.store_snake_string(text, True), None, None, lambda s: s.load_snake_bytes(), None, b'\x00' + text.encode(), terminal=True)
    if kind == 'snake_string':
        text, = a
        return Op(desc, lambda b: b.store_snake_string(text), None, None, lambda s: s.load_snake_string(), None, text, terminal=True)
    raise ValueError(kind)


def run_sequence(descs):
    """store the described values in order, then load them back.  returns list of problem strings."""
    from pytoniq_core.boc import Builder
    ops = [mk(*d) for d in descs]
    probs = []
    b = Builder()
    want_bits = ''
    want_refs = 0
    snake_tail = None
    for i, op in enumerate(ops):
        if op.bits is None:       # snake: reference chunks depend on the fill level
            assert i == len(ops) - 1
            data = op.value.encode() if isinstance(op.value, str) else op.value
            chunks = RBITS.snake(data, 1023 - len(want_bits)) if data else [b'']
            want_bits += RBITS.bytes_bits(chunks[0])
            snake_tail = chunks[1:]
            if snake_tail:
                want_refs += 1
        else:
            want_bits += op.bits
            want_refs += op.nrefs
        try:
            op.store(b)
        except Exception as e:
            return [(op.name[0], 'store-raises', f'store #{i} {op.name} raised {type(e).__name__}: {e}')], None
    try:
        cell = b.end_cell()
    except Exception as e:
        return [('end_cell', 'raises', f'end_cell raised {type(e).__name__}: {e}')], None
    got_bits = cell.bits.to01()
    if got_bits != want_bits:
        # locate the first op whose segment differs
        pos = 0
        culprit = '?'
        ck = '?'
        for op in ops:
            seg = op.bits if op.bits is not None else want_bits[pos:]
            if got_bits[pos:pos + len(seg)] != seg:
                culprit = op.name
                ck = op.name[0]
                break
            pos += len(seg)
        probs.append((ck, 'bits', f'bits differ from the TL-B encoding at {culprit}: got {len(got_bits)} bits, reference {len(want_bits)} bits'))
    if len(cell.refs) != want_refs:
        probs.append((ops[-1].name[0], 'refs', f'{len(cell.refs)} refs, reference {want_refs}'))
    if snake_tail:
        # the chain: each tail cell holds the chunk and (except the last) one reference
        c = cell.refs[-1] if cell.refs else None
        for j, chunk in enumerate(snake_tail):
            if c is None:
                probs.append(('snake', 'chain', 'snake chain too short'))
                break
            if c.bits.to01() != RBITS.bytes_bits(chunk) or len(c.refs) != (1 if j < len(snake_tail) - 1 else 0):
                probs.append(('snake', 'chain', f'snake chain cell {j + 1} differs from the reference chunking'))
                break
            c = c.refs[0] if c.refs else None
    # load back
    from .common import lib_canon
    snapshot = lib_canon(cell)
    s = cell.begin_parse()
    for i, op in enumerate(ops):
        if op.peek is not None:
            before = (s.bits.to01(), s.remaining_refs)
            try:
                pv = op.peek(s)
            except Exception as e:
                probs.append((op.name[0], 'peek-raises', f'peek #{i} {op.name} raised {type(e).__name__}: {e}'))
                pv = None
            else:
                if not op.eq(pv, op.value):
                    probs.append((op.name[0], 'peek-value', f'peek #{i} {op.name} returned {pv!r}, stored {op.value!r}'))
            if (s.bits.to01(), s.remaining_refs) != before:
                probs.append((op.name[0], 'peek-consumes', f'peek #{i} {op.name} consumed data'))
        try:
            v = op.load(s)
        except Exception as e:
            probs.append((op.name[0], 'load-raises', f'load #{i} {op.name} raised {type(e).__name__}: {e}'))
            return probs, cell
        if not op.eq(v, op.value):
            probs.append((op.name[0], 'load-value', f'load #{i} {op.name} returned {v!r}, stored {op.value!r}'))
    if s.remaining_bits or s.remaining_refs:
        probs.append((ops[-1].name[0], 'leftover', f'{s.remaining_bits} bits / {s.remaining_refs} refs left unread'))
    # reading is not writing: the stored cells (the whole DAG, e.g. the continuation cells of a snake string) are what
    # they were, and a second reader of the same cell gets the same values
    if lib_canon(cell) != snapshot:
        probs.append((ops[-1].name[0], 'load-mutates', 'loading the values back changed the cell (or a cell it references)'))
    s2 = cell.begin_parse()
    for i, op in enumerate(ops):
        try:
            v = op.load(s2)
        except Exception as e:
            probs.append((op.name[0], 'reload-raises', f'second read of the same cell: load #{i} {op.name} raised {type(e).__name__}: {e}'))
            break
        if not op.eq(v, op.value):
            probs.append((op.name[0], 'reload-value', f'second read of the same cell: load #{i} {op.name} returned {v!r}, stored {op.value!r}'))
            break
    return probs, cell
