"""C16 - transaction, account and block parsers read exactly what block.tlb specifies (explorer D).

For every covered TL-B type the schema-driven reference generator (mc/ref/tlbgen.py on the bundled
block.tlb + mc/ref/tlb_addenda.tlb) produces the default value and EVERY value within k deviations
(constructor alternatives, Maybe/Either/conditional presence, dictionary sizes, boundary values of every
integer field) - with each constructor of the type forced as the root and under two default
polarities (sparse / dense).  The encoded cell is handed to the library parser; every field of the
returned object must carry the encoded value and the slice must be consumed exactly.
"""
import os
from .. import engine
from ..ref import cell as RC
from ..ref import tlb as RTLB
from ..ref import tlbgen as RG
from ..ref import boc as RBOC
from .common import to_lib as cell_to_lib, from_lib, exc_name

ID = 'C16'
TITLE = 'Transaction, account and block parsers read exactly what block.tlb specifies'
EXPLORER = 'D (deviation-bounded enumeration over lazily discovered choice points of schema-generated TL-B values; every root constructor forced; two default polarities)'
RULE = ('covered types: Transaction, TransactionDescr (all kinds), the five phases, AccStatusChange, ComputeSkipReason, SplitMergeInfo, Account, ShardAccount, StorageInfo, '
        'StorageUsed(Short), AccountStorage, AccountState, AccountStatus, InMsg, OutMsg, MsgEnvelope (v1, v2), IntermediateAddress, MsgMetadata, ImportFees, BlockInfo, ShardIdent, '
        'ExtBlkRef, BlkPrevInfo, GlobalVersion, BlkMasterInfo, ValueFlow, ShardDescr, FutureSplitMerge, ValidatorSet, ValidatorDescr, SigPubKey, CatchainConfig, '
        'CurrencyCollection, DepthBalanceInfo, KeyExtBlkRef, KeyMaxLt, Counters, CreatorStats. Choice points of the schema-driven generator: constructor alternative, '
        'Maybe/Either, dictionary size, integer field value in {filler, min, max, max-1, 2^(w-1), 2^(w-1)-1}. For every root constructor of the type and both default '
        'polarities: the default value and all values with <= k deviations (k=1 quick, k=2 thorough). Oracle: a generic field-by-field comparison of the parsed '
        'object with the schema value (names as in block.tlb modulo a documented rename table; values exact, unsigned stay unsigned) and 0 bits / 0 refs left in the '
        'slice. The bundled main-net block is decoded by both sides and compared the same way. non-trivial = value with at least one deviation; states = distinct '
        '(type, root constructor, polarity, plan); transitions = deserialize calls; traces = field comparisons against the schema value')
RULE += " Fifth session: failure histories per type (base value of every root constructor in both polarities; every single-cell damage of each - cut to 0 bits / half / minus one bit, last reference dropped - fed to the parser; base values again: verdicts unchanged); constructors of one type are told apart by the parsed object's (class, type_) marker."
LEVEL_TEXT = ('Bounded-exhaustive in the deviation metric: every constructor tag, every optional field and every field width of the covered types is exercised alone '
              '(and pairwise in the thorough tier) on cells written by an independent interpreter of the schema text, and every parsed field is compared.')
LEVEL_NOTE = ('trusted: mc/ref/tlb.py + tlbgen.py (interpret the bundled block.tlb; the decoder consumes the complete main-net block; generator output is re-decoded on every case), '
              'the rename table in this module (attribute names are API, values are what is compared)')
TECHNIQUE = 'deviation-bounded exhaustive enumeration of schema-generated TL-B values (explorer D) with a field-by-field reference comparison'
ASSUMPTIONS = ['attribute names of the library are taken as given (rename table); only values are compared', 'the bundled block.tlb (+ addenda copied from upstream for newer constructors) is the specification']
NOT_ASSERTED = ['addr_var addresses (refused by the library by design)', 'fields the library documents as kept raw (cells / slices): compared by hash / remaining bits']


def BOUNDS(tier):
    return {'deviations': 1 if tier == 'quick' else 2, 'polarities': 2, 'root_constructors': 'all', 'types': len(TYPES), 'exhaustive': True}


def REQUIRED_COVER(tier):
    # (failure-histories: see case_failures)
    S = schema()
    need = {'type:' + t for t in TYPES} | {'mainnet-block'}
    for t in TYPES:                       # every constructor tag of every covered type must have been produced as a root
        for d in root_ctors(S, t):
            need.add('ctor:' + str(d['name']))
    return need


SCH = {}


def schema():
    if 'S' not in SCH:
        from .. import repo
        text = open(os.path.join(repo.REPO, 'pytoniq_core', 'tlb', 'schemas', 'block.tlb')).read()
        add = os.path.join(os.path.dirname(os.path.dirname(__file__)), 'ref', 'tlb_addenda.tlb')
        if os.path.exists(add):
            text += '\n' + open(add).read()
        SCH['S'] = RTLB.Schema(text)
    return SCH['S']


# type name -> (module, class, call style)
TYPES = {
    'Transaction': ('transaction', 'Transaction'),
    'TransactionDescr': ('transaction', 'TransactionDescr'),
    'TrStoragePhase': ('transaction', 'TrStoragePhase'),
    'TrCreditPhase': ('transaction', 'TrCreditPhase'),
    'TrComputePhase': ('transaction', 'TrComputePhase'),
    'TrActionPhase': ('transaction', 'TrActionPhase'),
    'TrBouncePhase': ('transaction', 'TrBouncePhase'),
    'AccStatusChange': ('transaction', 'AccStatusChange'),
    'ComputeSkipReason': ('transaction', 'ComputeSkipReason'),
    'SplitMergeInfo': ('transaction', 'SplitMergeInfo'),
    'Account': ('account', 'Account'),
    'ShardAccount': ('account', 'ShardAccount'),
    'StorageInfo': ('account', 'StorageInfo'),
    'StorageUsed': ('account', 'StorageUsed'),
    'StorageUsedShort': ('account', 'StorageUsedShort'),
    'AccountStorage': ('account', 'AccountStorage'),
    'AccountState': ('account', 'AccountState'),
    'AccountStatus': ('account', 'AccountStatus'),
    'InMsg': ('transaction', 'InMsg'),
    'OutMsg': ('transaction', 'OutMsg'),
    'MsgEnvelope': ('transaction', 'MsgEnvelope'),
    'IntermediateAddress': ('transaction', 'IntermediateAddress'),
    'ImportFees': ('transaction', 'ImportFees'),
    'MsgMetadata': ('transaction', 'MsgMetadata'),
    'BlockInfo': ('block', 'BlockInfo'),
    'ShardIdent': ('block', 'ShardIdent'),
    'ExtBlkRef': ('block', 'ExtBlkRef'),
    'GlobalVersion': ('block', 'GlobalVersion'),
    'BlkMasterInfo': ('block', 'BlkMasterInfo'),
    'ValueFlow': ('block', 'ValueFlow'),
    'ShardDescr': ('block', 'ShardDescr'),
    'FutureSplitMerge': ('block', 'FutureSplitMerge'),
    'CurrencyCollection': ('block', 'CurrencyCollection'),
    'DepthBalanceInfo': ('block', 'DepthBalanceInfo'),
    'KeyExtBlkRef': ('block', 'KeyExtBlkRef'),
    'KeyMaxLt': ('block', 'KeyMaxLt'),
    'Counters': ('block', 'Counters'),
    'CreatorStats': ('block', 'CreatorStats'),
    'McStateExtra': ('block', 'McStateExtra'),
    'BlockExtra': ('block', 'BlockExtra'),
    'McBlockExtra': ('block', 'McBlockExtra'),
    'ConfigParams': ('block', 'ConfigParams'),
    'ShardStateUnsplit': ('block', 'ShardStateUnsplit'),
    'ValidatorInfo': ('block', 'ValidatorInfo'),
    'BlockCreateStats': ('block', 'BlockCreateStats'),
    'AccountBlock': ('account', 'AccountBlock'),
    'LibRef': ('transaction', 'LibRef'),
    'ValidatorSet': ('config', 'ValidatorSet'),
    'ValidatorDescr': ('config', 'ValidatorDescr'),
    'SigPubKey': ('config', 'SigPubKey'),
    'CatchainConfig': ('config', 'CatchainConfig'),
}


def lib_class(t):
    import importlib
    mod, cls = TYPES[t]
    return getattr(importlib.import_module('pytoniq_core.tlb.' + mod), cls)


# ------------------------------------------------------------------------------------------ normalising the schema value
def nv(v):
    """schema value (interpreter / generator format) -> plain comparable tree"""
    if isinstance(v, dict):
        c = v.get('@c')
        if c in ('bool_true', 'bool_false'):
            return c == 'bool_true'
        if c == 'nothing':
            return None
        if c == 'just':
            return nv(v['value'])
        if c in ('left', 'right'):
            return nv(v['value'])
        if c in ('var_uint', 'var_int'):
            return v['value']
        if c == 'nanograms':
            return nv(v['amount'])
        if c == 'extra_currencies':
            if '@pruned' in v['dict']:
                return ('pruned', v['dict']['@pruned'])
            return {k: nv(x) for k, x in v['dict'].items()}
        if c == 'currencies':
            return {'@c': 'currencies', 'grams': nv(v['grams']), 'other': nv(v['other'])}
        if c == 'addr_none':
            return ('addr', 'none')
        if c == 'addr_extern':
            return ('addr', 'ext', v['len'], int(v['external_address'], 2) if v['external_address'] else 0)
        if c == 'addr_std':
            ac = nv(v['anycast'])
            return ('addr', 'std', v['workchain_id'], int(v['address'], 2), (ac['depth'], int(ac['rewrite_pfx'], 2) if ac['rewrite_pfx'] else 0) if ac else None)
        if '@pruned' in v:
            return ('pruned', v['@pruned'])
        out = {}
        for k, x in v.items():
            out[k] = x if k in ('@c', '@cell', '@raw') else nv(x)
        return out
    if isinstance(v, list):
        return [nv(x) for x in v]
    return v


# ------------------------------------------------------------------------------------------ normalising the library value
def lv(o, depth=0):
    """library object -> plain comparable tree"""
    from pytoniq_core.boc import Cell, Slice, Builder, Address
    from pytoniq_core.boc.address import ExternalAddress
    if depth > 40:
        return ('DEEP',)
    if o is None or isinstance(o, (bool, int, str)):
        return o
    if isinstance(o, (bytes, bytearray)):
        return ('bytes', bytes(o))
    if isinstance(o, Cell):
        return ('cell', o.hash.hex(), o)
    if isinstance(o, Slice):
        return ('slice', o.bits.to01(), tuple(r.hash.hex() for r in o.refs[o.ref_offset:]))
    if isinstance(o, Address):
        ac = o.anycast
        return ('addr', 'std', o.wc, int.from_bytes(o.hash_part, 'big'), (ac.depth, ac.rewrite_pfx) if ac is not None else None)
    if isinstance(o, ExternalAddress):
        return ('addr', 'ext', o.len, o.external_address if o.external_address is not None else 0)
    if isinstance(o, dict):
        return {k: lv(x, depth + 1) for k, x in o.items()}
    if isinstance(o, (list, tuple)):
        return [lv(x, depth + 1) for x in o]
    if hasattr(o, 'to01'):
        return ('bits', o.to01())
    if hasattr(o, '__dict__'):
        out = {'@class': type(o).__name__}
        for k, x in vars(o).items():
            out[k] = lv(x, depth + 1)
        return out
    return ('UNKNOWN', type(o).__name__)


# ------------------------------------------------------------------------------------------ comparison
# (constructor or '*', schema field) -> library attribute
RENAME = {
    ('*', 'seq_no'): 'seqno',
    ('*', 'vert_seq_no'): 'vert_seqno',
    ('merkle_update', 'old_depth'): None,        # not fields of the bundled schema's MERKLE_UPDATE (the depths of the real cell layout)
    ('merkle_update', 'new_depth'): None,
    ('catchain_config_new', 'flags'): None,      # constrained to 0 by the schema ({ flags = 0 }); carries no information
    ('account_active', '_'): 'state_init',
    ('msg_discard_fin', 'fwd_fee'): 'transit_fee',
}
# library-only attributes that are derived conveniences (never compared as missing on the schema side)
DERIVED = {'cell', 'account_addr_hex', 'value_coins', 'type_', '@class'}


class Cmp:
    def __init__(self, limit=8):
        self.problems = []
        self.ctor_map = {}
        self.limit = limit

    def bad(self, path, msg):
        if len(self.problems) < self.limit:
            self.problems.append(f'{path}: {msg}')

    def scalar(self, path, s, l):
        """s: schema scalar (int / bit string / bool / None); l: normalised library value"""
        if isinstance(s, bool) or s is None:
            if isinstance(l, int) and not isinstance(l, bool) and s is not None and l in (0, 1):
                l = bool(l)
            if s != l:
                self.bad(path, f'library {show(l)} vs schema {s}')
            return
        if isinstance(s, int):
            if isinstance(l, bool) or not isinstance(l, int):
                if isinstance(l, tuple) and l[0] == 'bytes' and int.from_bytes(l[1], 'big') == s:
                    return
                self.bad(path, f'library {show(l)} vs schema {s}')
            elif l != s:
                self.bad(path, f'library {l} vs schema {s}' + (' (unsigned field read as signed)' if l < 0 <= s and l + (1 << (s.bit_length() + (-s.bit_length()) % 8 or 8)) == s else ''))
            return
        if isinstance(s, str):      # bit string
            n = len(s)
            if isinstance(l, tuple) and l[0] == 'bytes':
                got = ''.join(format(b, '08b') for b in l[1])
                if got != s and not (n % 8 and got[:n] == s and set(got[n:]) <= {'0'}):
                    self.bad(path, f'library bytes {l[1].hex()[:40]} vs schema bits {hexbits(s)}')
            elif isinstance(l, tuple) and l[0] == 'bits':
                if l[1] != s:
                    self.bad(path, f'library bits {hexbits(l[1])} vs schema bits {hexbits(s)}')
            elif isinstance(l, str):
                try:
                    ok = n % 4 == 0 and int(l, 16) == (int(s, 2) if s else 0) and len(l) == n // 4
                except ValueError:
                    ok = l == s
                if not ok and l != s:
                    self.bad(path, f'library text {l[:40]!r} vs schema bits {hexbits(s)}')
            elif isinstance(l, int) and not isinstance(l, bool):
                if l != (int(s, 2) if s else 0):
                    self.bad(path, f'library {l} vs schema bits {hexbits(s)} (= {int(s, 2) if s else 0})')
            else:
                self.bad(path, f'library {show(l)} vs schema bits {hexbits(s)}')
            return
        self.bad(path, f'cannot compare schema {show(s)} with library {show(l)}')

    def cmp(self, path, s, l, ctx=None):
        # references kept raw by the library
        if isinstance(s, RC.RCell):
            if isinstance(l, tuple) and l[0] == 'cell':
                if l[1] != s.hash().hex():
                    self.bad(path, 'library cell differs from the encoded cell')
            elif isinstance(l, tuple) and l[0] == 'slice':
                if (l[1], l[2]) != (s.bits, tuple(r.hash().hex() for r in s.refs)):
                    self.bad(path, 'library slice differs from the encoded data')
            else:
                self.bad(path, f'library {show(l)} vs an encoded cell')
            return
        if isinstance(s, tuple) and s and s[0] == 'addr':
            if s[1] == 'none':
                if l is not None:
                    self.bad(path, f'library {show(l)} vs addr_none')
            elif l != s:
                self.bad(path, f'library {show(l)} vs schema {s}')
            return
        if isinstance(s, tuple) and s and s[0] == 'pruned':
            return
        if isinstance(s, dict) and {'dict', 'extras', 'root_extra'} <= set(s):       # augmented dictionary
            if '@pruned' in s['dict']:
                return
            if isinstance(l, list) and len(l) == 2 and isinstance(l[0], dict):
                self.mapping(path + '.dict', s['dict'], l[0])
                ex = [x for x in s['extras'] if not (isinstance(x, dict) and '@pruned' in x)]
                if s['dict'] and isinstance(l[1], list) and len(l[1]) == len(ex) == len(s['extras']):
                    for i, (a, b) in enumerate(zip(ex, l[1])):
                        self.cmp(f'{path}.extras[{i}]', a, b)
                return
            if isinstance(l, tuple) and l and l[0] == 'cell':
                if not s['dict']:
                    self.bad(path, 'library holds a root cell for an EMPTY augmented dictionary')
                return      # kept raw (pruned or special root, or a field the library does not parse: McBlockExtra.shard_fees)
            if l is None and not s['dict']:
                return      # an empty HashmapAugE kept as "no root"
            self.bad(path, f'library {show(l)} vs an augmented dictionary with {len(s["dict"])} entries')
            return
        if isinstance(s, dict) and '@c' in s:
            return self.obj(path, s, l)
        if isinstance(s, dict) and '@pruned' in s:
            return
        if isinstance(s, dict):          # dictionary {int key: value}
            return self.mapping(path, s, l)
        if isinstance(s, list):
            if not isinstance(l, list) or len(l) != len(s):
                self.bad(path, f'library {show(l)} vs schema list of {len(s)}')
                return
            for i, (a, b) in enumerate(zip(s, l)):
                self.cmp(f'{path}[{i}]', a, b)
            return
        return self.scalar(path, s, l)

    def mapping(self, path, s, l):
        if l is None and not s:
            return
        if isinstance(l, dict) and '@class' in l and 'dict' in l:
            l = l['dict']
        if isinstance(l, list):
            if len(l) != len(s):
                self.bad(path, f'library list of {len(l)} vs schema dictionary with keys {sorted(s)[:6]}')
                return
            for (k, a), b in zip(sorted(s.items()), l):
                self.cmp(f'{path}[{k}]', a, b)
            return
        if not isinstance(l, dict):
            self.bad(path, f'library {show(l)} vs schema dictionary with {len(s)} entries')
            return
        lk = {}
        for k, x in l.items():
            if isinstance(k, str) and set(k) <= {'0', '1'} and k:
                k = int(k, 2)
            if isinstance(k, int) and k < 0:
                # dictionary keys are bit strings; a parser may present them as signed integers (config parameter ids)
                for w in (8, 16, 32, 64, 256):
                    if -(1 << (w - 1)) <= k and (k + (1 << w)) in s:
                        k += 1 << w
                        break
            lk[k] = x
        if set(lk) != set(s):
            self.bad(path, f'library keys {sorted(lk, key=str)[:6]} vs schema keys {sorted(s)[:6]}')
            return
        for k in s:
            self.cmp(f'{path}[{k}]', s[k], lk[k])

    def obj(self, path, s, l):
        c = s['@c']
        if c == 'currencies':
            if not (isinstance(l, dict) and 'grams' in l):
                self.bad(path, f'library {show(l)} vs a CurrencyCollection')
                return
            self.scalar(path + '.grams', s['grams'], l['grams'])
            other = l.get('other')
            od = other.get('dict') if isinstance(other, dict) else other
            if not isinstance(s['other'], tuple):        # a pruned dictionary is not compared
                self.mapping(path + '.other', s['other'], od)
            return
        fields = [k for k in s if k not in ('@c', '@cell', '@raw')]
        if isinstance(l, tuple) and l and l[0] == 'cell' and '@cell' in s:
            # the library keeps this reference raw: it must be the encoded cell
            if l[1] != s['@cell'].hash().hex():
                self.bad(path, 'library keeps a raw cell that is not the encoded reference')
            return
        if isinstance(l, tuple) and l and l[0] == 'slice' and '@raw' in s:
            # a dictionary value the library keeps as an unparsed slice: it must be the encoded value
            if (l[1], l[2]) != (s['@raw'][0], tuple(r.hash().hex() for r in s['@raw'][1])):
                self.bad(path, 'library keeps a raw slice that is not the encoded dictionary value')
            return
        if c in ('bt_leaf', 'bt_fork') and isinstance(l, dict) and 'list' in l:
            leaves = []

            def flat(x):
                if x['@c'] == 'bt_leaf':
                    leaves.append(x['leaf'])
                else:
                    flat(x['left'])
                    flat(x['right'])
            flat(s)
            ll = [x for x in l['list']]
            if len(ll) != len(leaves):
                self.bad(path, f'library BinTree has {len(ll)} leaves, schema {len(leaves)}')
                return
            for i, (a, b) in enumerate(zip(leaves, ll)):
                if isinstance(a, tuple) and a and a[0] == 'pruned' or (isinstance(a, dict) and '@pruned' in a):
                    continue
                self.cmp(f'{path}.leaf[{i}]', a, b)
            return
        if not isinstance(l, dict):
            # a constructor without fields may be represented by a bare marker
            if not fields:
                self.ctor(path, c, l)
                return
            if len(fields) == 1:
                return self.cmp(path + '.' + fields[0], s[fields[0]], l)
            self.bad(path, f'library {show(l)} vs schema {c} with fields {fields}')
            return
        self.ctor(path, c, (l.get('@class'), l.get('type_')))
        for f in fields:
            key = RENAME.get((c, f), f if f in l else RENAME.get(('*', f), f))
            if key is None:
                continue
            if key not in l and f == '_':
                cand = [k for k in l if k not in DERIVED]
                if len(cand) == 1:
                    key = cand[0]
            if key not in l:
                # anonymous nesting (^[ ... ]) is flattened by both sides; a single-constructor wrapper may be flattened by the library
                sub = s[f]
                if isinstance(sub, dict) and '@c' in sub and all(k in l for k in sub if k != '@c') and len(sub) > 1:
                    for k in sub:
                        if k != '@c':
                            self.cmp(f'{path}.{f}.{k}', sub[k], l[k])
                    continue
                self.bad(path, f'field {f!r} of {c} is not an attribute of the parsed {l.get("@class")} (has {[k for k in l if k not in DERIVED][:12]})')
                continue
            self.cmp(f'{path}.{f}', s[f], l[key])

    def ctor(self, path, c, marker):
        self.ctor_map.setdefault(c, set()).add(repr(marker)[:80])


def show(x):
    r = repr(x)
    return r if len(r) < 90 else r[:87] + '...'


def hexbits(s):
    return (format(int(s, 2), f'0{(len(s) + 3) // 4}x') if s else '') + f'/{len(s)}b'


# ------------------------------------------------------------------------------------------ generation
class PolChooser(RG.Chooser):
    """dense polarity: structural choice points (constructor, Maybe/Either, dictionary size, one-bit flags) are enumerated in reverse order,
    so the default path takes the LAST alternative (just, right, biggest dictionary, last constructor).
    lean_from = L: every choice point with index > L that the plan does not fix takes the LEAN alternative (empty dictionary where the type
    allows it, first alternative otherwise) whatever the polarity - used to make a value fit a cell when the polarity default does not."""
    def __init__(self, plan, dense, lean_from=None, max_dict=3):
        super().__init__({i: a for i, a in plan.items() if isinstance(i, int)})
        self.dense = dense
        self.lean_from = plan.get('L', lean_from)
        # index of the smallest dictionary among the size alternatives, by their number: max_dict 3: HashmapE [1,0,2,3], Hashmap [1,2,3],
        # depth-limited HashmapE [1,0]; max_dict 2: HashmapE [1,0,2], Hashmap [1,2] (a depth-limited HashmapE [1,0] also has 2: its
        # lean choice is then 1 entry, which is still small)
        self.lean_dict = {4: 1, 3: 0, 2: 1} if max_dict >= 3 else {3: 1, 2: 0}

    def choose(self, label, n):
        i = len(self.points)
        last = label.rsplit('/', 1)[-1]
        if self.lean_from is not None and i > self.lean_from and i not in self.plan:
            self.points.append((label, n, 0))
            return self.lean_dict.get(n, 0) if last == 'dictsize' else 0
        a = super().choose(label, n)
        if self.dense and (':' in last or last in ('dictsize', 'cell', 'any') or n == 2):      # n == 2: one-bit fields and other binary choices
            return n - 1 - a
        return a


GEN_ERRORS = (RG.Invalid, RG.Overflow, RC.RefCellError)


def _attempt(gen_one, plan, dense, md=3):
    """generate the value of `plan`; when it does not fit a cell, once more with everything after the last planned choice lean.
    -> (plan actually used, chooser, result or exception)"""
    ch = PolChooser(plan, dense, max_dict=md)
    try:
        return plan, ch, gen_one(ch)
    except GEN_ERRORS as e:
        first = (ch, e)
    if not isinstance(first[1], RG.Overflow):
        return plan, first[0], first[1]
    imax = max([i for i in plan if isinstance(i, int)], default=-1)
    L0 = plan.get('L')
    if L0 is not None and L0 <= imax:
        return plan, first[0], first[1]
    p2 = dict(plan)
    p2['L'] = imax
    ch = PolChooser(p2, dense, max_dict=md)
    try:
        return p2, ch, gen_one(ch)
    except GEN_ERRORS as e:
        return plan, first[0], first[1]


def _dense_base(gen_one, base, dense, md=3):
    """the base value of an exploration: the polarity default if it fits, else the longest polarity-default PREFIX followed by a lean suffix"""
    plan, ch, res = _attempt(gen_one, base, dense, md)
    if not isinstance(res, Exception) and 'L' not in plan:
        return plan, ch, res
    ch0 = PolChooser(base, dense, max_dict=md)
    try:
        gen_one(ch0)
    except GEN_ERRORS:
        pass
    for L in range(len(ch0.points) - 1, max([i for i in base if isinstance(i, int)], default=-1), -1):
        p2 = dict(base)
        p2['L'] = L
        ch = PolChooser(p2, dense, max_dict=md)
        try:
            return p2, ch, gen_one(ch)
        except GEN_ERRORS:
            continue
    return plan, ch, res


def is_structural(label, n):
    last = label.rsplit('/', 1)[-1]
    return ':' in last or last in ('dictsize', 'cell', 'any') or n == 2


# second-level departures (thorough tier) per type: 'all' = every pair of choice points; 'struct-first' = the first of the two is a structural
# point (constructor, Maybe / Either / conditional presence, dictionary size, one-bit flag), the second any; 'struct-both' = both structural
# (container types whose content types are explored as roots themselves)
PAIR_RULE = {'BlockExtra': 'struct-both', 'AccountBlock': 'struct-both', 'ShardStateUnsplit': 'struct-both', 'McBlockExtra': 'struct-first', 'McStateExtra': 'struct-first',
             'InMsg': 'struct-both', 'OutMsg': 'struct-both', 'Transaction': 'struct-first', 'TransactionDescr': 'struct-first', 'MsgEnvelope': 'struct-first',
             'ValueFlow': 'struct-first', 'ShardDescr': 'struct-first', 'BlockCreateStats': 'struct-first'}


def explore(gen_one, k, dense, forced, md=3, part=0, parts=1, pair_rule='all'):
    """deviation-bounded enumeration with a polarity and a forced first choice (root constructor): the base, then every value
    with <= k departures from it; a departure that makes the value overflow a cell is retried with a lean suffix (see _attempt)"""
    def rec(plan, start, left, is_base=False):
        plan, ch, res = _dense_base(gen_one, plan, dense, md) if is_base else _attempt(gen_one, plan, dense, md)
        yield plan, ch, res
        if left == 0:
            return
        for i in range(start, len(ch.points)):
            if is_base and i % parts != part:          # the first-level departures are dealt out to the parts of a split shard
                continue
            label, n, a = ch.points[i]
            if left >= 2 and pair_rule != 'all' and not is_structural(label, n):
                # a value departure that will not be combined with another one: evaluate it alone (below), do not descend
                for alt in range(1, n):
                    p = {j: v for j, v in plan.items() if isinstance(j, int) and j < i}
                    if 'L' in plan:
                        p['L'] = plan['L']
                    p[i] = alt
                    yield from rec(p, i + 1, 0)
                continue
            if not is_base and pair_rule == 'struct-both' and not is_structural(label, n):
                continue
            for alt in range(1, n):
                p = {j: v for j, v in plan.items() if isinstance(j, int) and j < i}
                if 'L' in plan:
                    p['L'] = plan['L']
                p[i] = alt
                yield from rec(p, i + 1, left - 1)
    base = dict(forced)
    yield from rec(base, len(base), k, is_base=True)


def root_ctors(S, T):
    return [d for d in S.types[T] if d['tag'] is not None]


MAX_DICT = {'quick': 2, 'thorough': 3}      # entries of the biggest generated dictionary (label kinds / deeper tries are C10's subject)


def gen_case(S, T, ch, seed, max_dict=3):
    b = RG.B()
    g = RG.Gen(S, seed, skip_ctors=('addr_var',), max_dict=max_dict)
    v = g.gen(T, b, {}, ch, T)
    return v, b.cell()


def check_case(rec, T, cell, sval, args, what):
    """one encoded value through the library parser"""
    cls = lib_class(T)
    rec.case(T)
    try:
        rec.trans()
        sl = cell_to_lib(cell, {}).begin_parse()
        obj = cls.deserialize(sl)
    except Exception as e:
        rec.violation(f'{T}:raises:{ctor_of(sval)}', f'{what}: {TYPES[T][1]}.deserialize raised {exc_name(e)}: {e}', 'case_value', args)
        rec.outcome('raised')
        return
    rec.trace()
    c = Cmp()
    c.cmp(T, nv(sval), lv(obj))
    if c.problems:
        first = c.problems[0]
        fld = first.split(':')[0]
        rec.violation(f'{T}:field:{strip_idx(fld)}', f'{what}: {first}' + (f' (+{len(c.problems) - 1} more)' if len(c.problems) > 1 else ''), 'case_value', args)
        rec.outcome('field differs')
        return
    if sl.remaining_bits or sl.remaining_refs:
        rec.violation(f'{T}:left:{ctor_of(sval)}', f'{what}: parser left {sl.remaining_bits} bits / {sl.remaining_refs} refs unread', 'case_value', args)
        rec.outcome('not consumed')
        return
    for k, v in c.ctor_map.items():
        rec.notes[f'ctor-marker:{k}'] = sorted(v)[0]
    rec.outcome('ok')


def strip_idx(p):
    import re
    return re.sub(r'\[[^\]]*\]', '[]', p)


def ctor_of(v):
    return v.get('@c') if isinstance(v, dict) else '?'


def shard_type(rec, T, ri, dense, part=0, parts=1):
    S = schema()
    k = 1 if rec.tier == 'quick' else 2
    md = MAX_DICT[rec.tier]
    rec.covered('type:' + T)
    roots = root_ctors(S, T)
    forced = {}
    if len(roots) > 1:
        forced = {0: (len(roots) - 1 - ri) if dense else ri}
    seen = set()
    for plan, ch, res in explore(lambda ch: gen_case(S, T, ch, rec.seed, md), k, dense, forced, md, part, parts, PAIR_RULE.get(T, 'all')):
        if isinstance(res, Exception):
            # the departure cannot be encoded (e.g. a maximal amount next to other maximal fields of the same cell), even with a lean suffix
            rec.sub['plans:infeasible'] += 1
            rec.outcome('infeasible value')
            continue
        rec.sub['plans:feasible'] += 1
        if 'L' in plan:
            rec.sub['plans:feasible-with-lean-suffix'] += 1
        v, cell = res
        h = cell.hash()
        if h in seen:
            continue
        seen.add(h)
        # oracle honesty: the schema decoder reads the generated cell back completely
        s2 = RTLB.Slice(cell)
        back = S.decode(T, s2)
        assert s2.bits_left() == 0 and s2.refs_left() == 0, ('generator/decoder disagree', T, plan)
        rec.covered('ctor:' + str(ctor_of(back)))
        pk = tuple(sorted((str(i), a) for i, a in plan.items()))
        rec.state((T, ri, dense, pk))
        if len(plan) > len(forced):
            rec.nontriv((T, ri, dense, pk))
        devs = [(p[0], p[2]) for i, p in enumerate(ch.points) if p[2] and i not in forced]
        args = {'T': T, 'dense': dense, 'plan': {str(i): a for i, a in plan.items()}, 'md': md}
        check_case(rec, T, cell, back, args, f'{T} root={ctor_of(back)} {"dense" if dense else "sparse"} deviations {devs}')
    if T == 'Transaction' and not dense:
        rec.sample({'type': T, 'root': 'transaction', 'deviations': [['Transaction.transaction/description:TransactionDescr', 3]], 'checked': 'every field of the parsed object vs the schema value; slice consumed'})


# ------------------------------------------------------------------------------------------ failure histories
def _verdict(T, cell, sval):
    """None if the library parser reads the encoded value completely and field by field, else a short description"""
    cls = lib_class(T)
    try:
        sl = cell_to_lib(cell, {}).begin_parse()
        obj = cls.deserialize(sl)
    except Exception as e:
        return f'raised {exc_name(e)}: {e}'
    c = Cmp()
    c.cmp(T, nv(sval), lv(obj))
    if c.problems:
        return c.problems[0]
    if sl.remaining_bits or sl.remaining_refs:
        return f'left {sl.remaining_bits} bits / {sl.remaining_refs} refs unread'
    return None


def damaged_variants(root, limit=80):
    """the tree with ONE cell damaged: truncated to 0 bits, to half, by one bit; its last reference dropped - for each of the first `limit` cells"""
    paths, stack = [], [((), root)]
    while stack and len(paths) < limit:
        path, c = stack.pop()
        paths.append((path, c))
        for i, r in enumerate(c.refs):
            stack.append((path + (i,), r))

    def rebuild(c, path, new):
        if not path:
            return new
        refs = list(c.refs)
        refs[path[0]] = rebuild(refs[path[0]], path[1:], new)
        return RC.RCell(c.bits, tuple(refs), c.special)
    for path, c in paths:
        if c.special:
            continue
        cuts = sorted({0, len(c.bits) // 2, len(c.bits) - 1} - {len(c.bits), -1})
        news = [RC.RCell(c.bits[:n], c.refs) for n in cuts]
        if c.refs:
            news.append(RC.RCell(c.bits, c.refs[:-1]))
        for new in news:
            try:
                yield path, rebuild(root, path, new)
            except RC.RefCellError:
                continue


def case_failures(rec, T):
    """a parser carries nothing over from calls that FAILED: the base values of every root constructor (both polarities) are parsed, then every
    single-cell damage of each of them is fed to the parser (most are refused, some parse - either is fine), then the base values again:
    their verdicts must be what they were"""
    S = schema()
    md = MAX_DICT[rec.tier]
    rec.case('failures')
    args = {'T': T}
    bases = []
    roots = root_ctors(S, T)
    for ri in range(len(roots)):
        for dense in (False, True):
            forced = {0: (len(roots) - 1 - ri) if dense else ri} if len(roots) > 1 else {}
            for plan, ch, res in explore(lambda ch: gen_case(S, T, ch, rec.seed, md), 0, dense, forced, md, 0, 1, 'all'):
                if isinstance(res, Exception):
                    continue
                v, cell = res
                bases.append((ri, dense, cell, S.decode(T, RTLB.Slice(cell))))
    before = [_verdict(T, cell, back) for ri, dense, cell, back in bases]
    fed = refused = 0
    cls = lib_class(T)
    for ri, dense, cell, back in bases:
        for path, bad in damaged_variants(cell):
            fed += 1
            rec.trans()
            try:
                with rec.limit(20):
                    cls.deserialize(cell_to_lib(bad, {}).begin_parse())
            except engine.CaseTimeout:
                rec.violation(f'{T}:damaged-hangs', f'{T}: a damaged encoding (cell at path {path} cut) kept the parser busy for 20 s', 'case_failures', args)
                return
            except Exception:
                refused += 1
    after = [_verdict(T, cell, back) for ri, dense, cell, back in bases]
    rec.trace(len(bases))
    for (ri, dense, cell, back), b, a in zip(bases, before, after):
        if a != b:
            rec.violation(f'{T}:after-failures', f'{T} root={ctor_of(back)} {"dense" if dense else "sparse"}: parsed {"correctly" if b is None else "(" + str(b)[:80] + ")"} before, but after {fed} parses of damaged '
                          f'encodings ({refused} refused) the same valid encoding gives: {str(a)[:200]} - the parser carries state over from failed calls', 'case_failures', args)
            rec.outcome('AFTER-FAILURES')
            return
    rec.state(('failures', T))
    rec.nontriv(('failures', T))
    rec.covered('failure-histories')
    rec.notes['damaged_fed'] = rec.notes.get('damaged_fed', 0) + fed
    rec.notes['damaged_refused'] = rec.notes.get('damaged_refused', 0) + refused
    rec.outcome('failures-ok')


def shard_failures(rec, part, parts):
    for i, T in enumerate(TYPES):
        if i % parts == part:
            case_failures(rec, T)
    if part == 0:
        rec.sample({'type': 'TransactionDescr', 'history': 'base values; every single-cell damage (cut to 0 / half / minus one bit; last reference dropped) of each; base values again',
                    'oracle': 'verdicts of the valid encodings unchanged'})


def case_value(rec, T, dense, plan, md=3):
    S = schema()
    ch = PolChooser({(i if i == 'L' else int(i)): a for i, a in plan.items()}, dense, max_dict=md)
    v, cell = gen_case(S, T, ch, rec.seed, md)
    back = S.decode(T, RTLB.Slice(cell))
    check_case(rec, T, cell, back, {'T': T, 'dense': dense, 'plan': plan, 'md': md}, f'{T} root={ctor_of(back)} plan {plan}')


def shard_mainnet(rec):
    """the bundled real block: both sides decode it; every mapped field agrees"""
    from pytoniq_core.tlb.block import Block
    rec.covered('mainnet-block')
    S = schema()
    data = open(os.path.join(os.path.dirname(os.path.dirname(__file__)), 'fixtures', 'mainnet_block.boc'), 'rb').read()
    roots, _ = RBOC.decode(data)
    s = RTLB.Slice(roots[0])
    sval = S.decode('Block', s)
    assert s.bits_left() == 0 and s.refs_left() == 0
    rec.case('mainnet')
    rec.trans()
    from pytoniq_core.boc import Cell
    try:
        blk = Block.deserialize(Cell.one_from_boc(data).begin_parse())
    except Exception as e:
        rec.violation('mainnet:raises', f'Block.deserialize of the bundled block raised {exc_name(e)}: {e}', 'shard_mainnet', {})
        return
    c = Cmp()
    c.cmp('Block', nv(sval), lv(blk))
    rec.trace()
    rec.state('mainnet')
    rec.nontriv('mainnet')
    if c.problems:
        rec.violation(f'mainnet:field:{strip_idx(c.problems[0].split(":")[0])}', f'bundled main-net block: {c.problems[0]} (+{len(c.problems) - 1} more)', 'shard_mainnet', {})
    rec.sample({'mainnet_block': 'seq_no ' + str(sval['info']['seq_no']), 'checked': 'all mapped fields of Block.deserialize vs the schema decode'})


def case_ctor_markers(rec, T):
    """replayable form of the constructor-marker rule (see finalize): the base value of every root constructor of T"""
    S = schema()
    md = MAX_DICT[rec.tier]
    rec.case('ctor-markers')
    roots = root_ctors(S, T)
    seen = {}
    for ri in range(len(roots)):
        forced = {0: ri} if len(roots) > 1 else {}
        for plan, ch, res in explore(lambda ch: gen_case(S, T, ch, rec.seed, md), 0, False, forced, md, 0, 1, 'all'):
            if isinstance(res, Exception):
                continue
            v, cell = res
            back = S.decode(T, RTLB.Slice(cell))
            try:
                obj = lib_class(T).deserialize(cell_to_lib(cell, {}).begin_parse())
            except Exception:
                continue
            name, m = ctor_of(back), repr((type(obj).__name__, getattr(obj, 'type_', None)))
            if getattr(obj, 'type_', None) is None:
                continue
            if m in seen and seen[m] != name:
                rec.violation(f'{T}:ctor-marker:{name}', f'{T}: the constructors {seen[m]} and {name} are both returned as {m}: the parsed object does not say which one was read',
                              'case_ctor_markers', {'T': T})
            seen.setdefault(m, name)


def finalize(merged):
    """the parsed object tells the constructors of one type apart: two different constructors of a type are never returned with the same
    (class, type_) marker (e.g. msg_export_deq_short parsed as 'msg_export_deq')"""
    out = []
    S = schema()
    notes = merged['notes']
    for T, decls in S.types.items():
        seen = {}
        for d in decls:
            name = d.get('name') or d.get('ctor')
            m = notes.get(f'ctor-marker:{name}')
            if not m or m.endswith('None)') or not m.startswith('('):
                continue          # no type_ marker on this class (constructors told apart by other means, compared field by field)
            if m in seen and seen[m] != name:
                out.append({'key': f'{T}:ctor-marker:{name}', 'msg': f'{T}: the constructors {seen[m]} and {name} are both returned as {m}: the parsed object does not say which one was read',
                            'replay': {'fn': 'case_ctor_markers', 'args': {'T': T}}})
            seen.setdefault(m, name)
    return out


def selftest():
    S = schema()
    for T in TYPES:
        assert T in S.types, T
        lib_class(T)


def shards(tier, seed):
    S = schema()
    out = [{'fn': 'shard_mainnet', 'args': {}}]
    out += [{'fn': 'shard_failures', 'args': {'part': p, 'parts': 8}, 'prio': 2} for p in range(8)]
    heavy = ('InMsg', 'OutMsg', 'Transaction', 'ValueFlow', 'TransactionDescr', 'MsgEnvelope')
    # shards whose values are big (dense polarity of the container types) are split: the first-level departures are dealt out to the parts
    split = {'BlockExtra': 32, 'AccountBlock': 8, 'ShardStateUnsplit': 6, 'Transaction': 6, 'TransactionDescr': 4, 'InMsg': 4, 'OutMsg': 4, 'McBlockExtra': 2,
             'McStateExtra': 2, 'MsgEnvelope': 2}
    mult = 1 if tier == 'quick' else 6
    for T in TYPES:
        for ri in range(len(root_ctors(S, T))):
            for dense in (False, True):
                parts = split.get(T, 1) * mult if (dense or tier == 'thorough') else (4 if T == 'BlockExtra' else 1)
                if T not in split:
                    parts = 1
                for p in range(parts):
                    out.append({'fn': 'shard_type', 'args': {'T': T, 'ri': ri, 'dense': dense, 'part': p, 'parts': parts}, 'prio': (4 if T == 'BlockExtra' else 3) if T in heavy or T in split else 1})
    return out
