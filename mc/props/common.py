"""Helpers shared by the property modules: seed-derived filler bytes, conversion between the
reference cell model and library cells, structural comparison."""
import hashlib, sys
from ..ref import cell as RC

sys.setrecursionlimit(20000)


class user_recursion_limit:
    """run library calls under the interpreter's DEFAULT recursion limit (1000 frames above the caller), as a user's
    program would: the harness raises the limit for its own recursive reference code, which must not hide a library
    routine that recurses once per level of a (legally up to 1023 levels deep) cell tree"""
    DEFAULT = 1000

    def __enter__(self):
        self.old = sys.getrecursionlimit()
        depth = 0
        f = sys._getframe()
        while f is not None:
            depth += 1
            f = f.f_back
        sys.setrecursionlimit(depth + self.DEFAULT)
        return self

    def __exit__(self, *a):
        sys.setrecursionlimit(self.old)
        return False


def filler(seed, tag, n: int) -> bytes:
    """n deterministic opaque bytes for (seed, tag): the only thing VERIF_SEED influences"""
    out = b''
    i = 0
    while len(out) < n:
        out += hashlib.sha256(f'{seed}|{tag}|{i}'.encode()).digest()
        i += 1
    return out[:n]


def filler_bits(seed, tag, n: int) -> str:
    b = filler(seed, tag, (n + 7) // 8)
    return ''.join(f'{x:08b}' for x in b)[:n]


def exc_name(e):
    return type(e).__name__


# ---------------------------------------------------------------- reference -> library
def to_lib(rc: RC.RCell, memo=None, route='builder'):
    """build the library cell that the reference cell describes (children first).
    route: 'builder' (Builder.store_bits/store_ref/end_cell; exotic via Builder(type_=...)),
           'ctor' (Cell(TvmBitarray, refs, type))"""
    from pytoniq_core.boc import Cell, Builder
    from pytoniq_core.boc.tvm_bitarray import TvmBitarray
    if memo is None:
        memo = {}
    stack = [rc]
    # iterative post-order to survive 1023-deep chains
    while stack:
        c = stack[-1]
        k = (c.hash(), c.special, c.bits)
        if k in memo:
            stack.pop()
            continue
        pending = [r for r in c.refs if (r.hash(), r.special, r.bits) not in memo]
        if pending:
            stack.extend(pending)
            continue
        refs = [memo[(r.hash(), r.special, r.bits)] for r in c.refs]
        t = c.type if c.special else -1
        if route == 'builder':
            b = Builder(type_=t)
            b.store_bits(c.bits)
            for r in refs:
                b.store_ref(r)
            memo[k] = b.end_cell()
        else:
            ba = TvmBitarray(1023)
            ba.extend(c.bits)
            memo[k] = Cell(ba, list(refs), t)
        stack.pop()
    return memo[(rc.hash(), rc.special, rc.bits)]


def lib_canon(cell, memo=None):
    """structural canonical form of a library cell: (bits, special, children) nested tuples —
    same shape as ref.cell.canon"""
    if memo is None:
        memo = {}
    stack = [cell]
    while stack:
        c = stack[-1]
        if id(c) in memo:
            stack.pop()
            continue
        pend = [r for r in c.refs if id(r) not in memo]
        if pend:
            stack.extend(pend)
            continue
        memo[id(c)] = RC.canon_node(c.bits.to01(), c.type_ != -1, [memo[id(r)] for r in c.refs])
        stack.pop()
    return memo[id(cell)]


def from_lib(cell, memo=None):
    """library cell -> reference cell with the same structure (raises RefCellError if invalid)"""
    if memo is None:
        memo = {}
    stack = [cell]
    while stack:
        c = stack[-1]
        if id(c) in memo:
            stack.pop()
            continue
        pend = [r for r in c.refs if id(r) not in memo]
        if pend:
            stack.extend(pend)
            continue
        memo[id(c)] = RC.RCell(c.bits.to01(), tuple(memo[id(r)] for r in c.refs), c.type_ != -1)
        stack.pop()
    return memo[id(cell)]


def same_structure(libcell, rc):
    return lib_canon(libcell) == RC.canon(rc)


def lib_levels(cell):
    """(mask, [hash(l)], [depth(l)]) as the library reports them"""
    return (cell.level_mask.mask, [cell.get_hash(l) for l in range(4)], [cell.get_depth(l) for l in range(4)])


def ref_levels(rc):
    return (rc.mask, [rc.hash(l) for l in range(4)], [rc.depth(l) for l in range(4)])


def deep_repr(v, _path=None, _depth=0):
    """structural description of any value returned by the library (objects by class name and attributes, cells by hash,
    slices / builders by their remaining content, containers recursively; cycles and absurd depth are reported, not
    followed) - for comparing two results of the same call"""
    from pytoniq_core.boc import Cell, Slice, Builder
    if _path is None:
        _path = set()
    if v is None or isinstance(v, (bool, int, float, str, bytes)):
        return v
    if isinstance(v, bytearray):
        return bytes(v)
    if id(v) in _path:
        return ('CYCLE', type(v).__name__)
    if _depth > 60:
        return ('TOO-DEEP', type(v).__name__)
    _path.add(id(v))
    try:
        if isinstance(v, Cell):
            return ('Cell', v.hash.hex())
        if isinstance(v, Slice):
            return ('Slice', v.bits.to01(), tuple(r.hash.hex() for r in v.refs[v.ref_offset:]))
        if isinstance(v, Builder):
            return ('Builder', v.bits.to01(), tuple(r.hash.hex() for r in v.refs))
        if isinstance(v, dict):
            return ('dict', tuple((deep_repr(k, _path, _depth + 1), deep_repr(x, _path, _depth + 1)) for k, x in v.items()))
        if isinstance(v, (list, tuple)):
            return (type(v).__name__, tuple(deep_repr(x, _path, _depth + 1) for x in v))
        if hasattr(v, 'to01'):
            return ('bits', v.to01())
        d = getattr(v, '__dict__', None)
        if d is not None:
            return (type(v).__name__, tuple((k, deep_repr(x, _path, _depth + 1)) for k, x in sorted(d.items()) if not callable(x)))
        return ('repr', type(v).__name__, repr(v)[:200])
    finally:
        _path.discard(id(v))
