"""C03 - bag-of-cells serialisation round-trips for every DAG and option set (explorer E)."""
import base64
from ..ref import cell as RC
from . import bocfam
from .common import to_lib, lib_canon, exc_name, user_recursion_limit

ID = 'C03'
TITLE = 'Bag-of-cells serialisation round-trips for every DAG and option set'
EXPLORER = 'E (small-scope enumeration: DAG family x 6 option sets x 3 input encodings x 3 entry points)'
RULE = ('DAG family: every DAG shape with <= N distinct cells x payload variants; content lengths {0,1,7,8,9,1023} with filler/zero/ones/'
        'padding-look-alike data; exotic trees (pruned/library/Merkle proof/update, nested to 3 levels); size-field boundaries (255/256/257 '
        'cells, cell-data sections of 127/128/255/256/257/32767/32768/65535/65536/65537 bytes; thorough: 65535/65536/65537 cells). Each is '
        'serialised with each of the 6 valid option sets and parsed back from bytes, hex and base64 through Cell, Slice and Builder entry '
        'points; the parsed root must have the same hash and the same structure (bits, types, refs, recursively). non-trivial = more than '
        'one cell or unaligned data; states = distinct (DAG, option set); transitions = serialise/parse calls; traces = round trips compared '
        'with the reference structure')
RULE += ' Fifth session: hex text in upper and mixed case; the requests to_boc(has_cache_bits=True) without has_idx (two more option sets).'
LEVEL_TEXT = ('Bounded-exhaustive round-trip exploration of the real serialiser and parser: all DAG shapes up to the node bound, the content '
              'alphabet, exotic trees and every header-width boundary, under all 6 option sets, 3 encodings and 3 entry points, with structural '
              'comparison against the reference description of the DAG (not only hash equality).')
LEVEL_NOTE = 'trusted: reference cell model for the expected structure; DAG payload contents by representatives'
TECHNIQUE = 'small-scope exhaustive enumeration of DAGs x serialisation options, round trip compared with a reference model'
RULE += " Depth-limit DAGs: single-reference chains of depth 512/1000/1023 and double-reference ladders of depth 999/1022; every library call runs under the interpreter's DEFAULT recursion limit."
ASSUMPTIONS = ['payload bytes are representatives; shapes/option sets/width boundaries are complete up to the bound']
NOT_ASSERTED = ['has_cache_bits without has_idx (not a valid option combination)', 'Builder entry point for exotic roots (refused by design)']

ENCODINGS = ['bytes', 'hex', 'b64', 'HEX (upper case)', 'hEx (mixed case)']
ENTRIES = ['Cell', 'Slice', 'Builder']
RULE += ' Sixth session: bags holding a cell together with the pruned branch that stands for it (updates pruned old side / full new side, two proofs of one tree, a sub-tree pruned in one slot and kept in another); failure histories - each of 12 damaged bags (refused at different points of the parse) followed by a valid bag, x option sets x 5 entry points / input forms: the valid bag parses to its tree.'


def BOUNDS(tier):
    return {'dag_nodes': 3 if tier == 'quick' else 4, 'option_sets': 6, 'encodings': ENCODINGS, 'entry_points': ENTRIES,
            'max_cells': 257 if tier == 'quick' else 65537, 'exhaustive': True}


def REQUIRED_COVER(tier):
    return {'opt:plain', 'opt:idx+crc+cache', 'enc:b64', 'enc:HEX', 'entry:Builder', 'entry:Slice', 'exotic', 'cells:257', 'payload:65536', 'objects', 'failure-history', 'builder-reuse'}


def shards(tier, seed, objects=True):
    fam = bocfam.family(tier, seed)
    names = [n for n, _ in fam]
    heavy = [n for n in names if n.startswith('cells:6') or n.startswith('payload:6') or n.startswith('payload:3')]
    light = [n for n in names if n not in heavy]
    k = 16 if tier == 'quick' else 64
    out = [{'fn': 'shard_names', 'args': {'part': p, 'parts': k}} for p in range(k)]
    out += [{'fn': 'shard_one', 'args': {'name': n}, 'prio': 9} for n in heavy]
    if objects:
        out += [{'fn': 'shard_objects', 'args': {'part': p, 'parts': 8}} for p in range(8)]
        out.append({'fn': 'shard_failure_histories', 'args': {}})
        out.append({'fn': 'shard_builder_reuse', 'args': {}})
    return out


_FAM = {}


def _find(tier, seed, name):
    if (tier, seed) not in _FAM:
        _FAM[(tier, seed)] = dict(bocfam.family(tier, seed))
    return _FAM[(tier, seed)][name]


def case_dag(rec, name, opt_i, tier=None):
    from pytoniq_core.boc import Cell, Slice, Builder
    tier = tier or rec.tier
    rc = _find('thorough' if name.startswith('cells:6') or name.startswith('shape:4') else tier, rec.seed, name)()
    opts = bocfam.OPTION_SETS[opt_i]
    on = bocfam.opt_name(opts)
    args = {'name': name, 'opt_i': opt_i, 'tier': tier}
    rec.case('roundtrip')
    want = RC.canon(rc)
    big = name.startswith('cells:6')
    try:
        with user_recursion_limit():
            root = to_lib(rc)
            data = root.to_boc(**opts)
        rec.trans()
    except Exception as e:
        rec.violation(f'serialize:{on}', f'{name}: to_boc({on}) raised {exc_name(e)}: {str(e)[:200]}', 'case_dag', args)
        rec.outcome('raise-ser')
        return
    forms = {'bytes': data}
    if not big:
        forms['hex'] = data.hex()
        forms['b64'] = base64.b64encode(data).decode()
        # the hex-string form is case-insensitive text: upper case and mixed case denote the same bytes
        forms['HEX'] = data.hex().upper()
        forms['hEx'] = ''.join(c.upper() if i % 3 == 0 else c for i, c in enumerate(data.hex()))
    results = {}
    for enc, form in forms.items():
        for entry in ENTRIES:
            if entry == 'Builder' and rc.special:
                continue
            if big and entry != 'Cell':
                continue
            try:
                with user_recursion_limit():
                    if entry == 'Cell':
                        got = Cell.one_from_boc(form)
                        roots = Cell.from_boc(form) if not big else [got]
                        if len(roots) != 1 or roots[0].hash != got.hash:
                            rec.violation('roots', f'{name}/{on}: from_boc returns {len(roots)} roots', 'case_dag', args)
                    elif entry == 'Slice':
                        s = Slice.one_from_boc(form)
                        if s.remaining_bits != len(rc.bits) or s.remaining_refs != len(rc.refs):
                            rec.violation(f'slice-entry:{on}', f'{name}: Slice.one_from_boc yields {s.remaining_bits} bits/{s.remaining_refs} refs', 'case_dag', args)
                        got = s.to_cell()
                    else:
                        got = Builder.one_from_boc(form).end_cell()
                rec.trans()
            except Exception as e:
                rec.violation(f'parse:{on}:{enc}:{entry}', f'{name}: parsing own {on} output as {enc} via {entry} raised {exc_name(e)}: {str(e)[:200]}', 'case_dag', args)
                rec.outcome('raise-parse')
                continue
            rec.trace()
            rec.covered(f'enc:{enc}', f'entry:{entry}')
            ok_hash = got.hash == rc.hash()
            ok_struct = lib_canon(got) == want
            results[(enc, entry)] = (ok_hash, ok_struct)
            if not ok_hash or not ok_struct:
                rec.violation(f'roundtrip:{on}:{"hash" if not ok_hash else "structure"}',
                              f'{name}: {on}/{enc}/{entry}: parsed root differs ({"hash" if not ok_hash else "structure only"})', 'case_dag', args)
                rec.outcome('DIFFERENT')
    rec.covered(f'opt:{on}')
    if rc.special or any(c.special for c in RC.topo([rc])[:50]):
        rec.covered('exotic')
    if name in ('cells:257', 'payload:65536'):
        rec.covered(name)
    rec.state((name, on))
    if rc.refs or len(rc.bits) % 8:
        rec.nontriv((name, on))
    rec.outcome('same')


def case_objects(rec, name, i, j, unshared):
    """round trip on an object graph with a past: the sub-DAGs at nodes i and j were serialised before (i = j = -1: no past),
    optionally with equal sub-cells built as DISTINCT objects; then every node's to_boc must parse back to that node"""
    from pytoniq_core.boc import Cell
    from .common import from_lib
    rc = _find('thorough' if name.startswith('shape:4') else rec.tier, rec.seed, name)()
    root = bocfam.to_lib_unshared(rc) if unshared else to_lib(rc)
    nodes = bocfam.lib_nodes(root)
    args = {'name': name, 'i': i, 'j': j, 'unshared': unshared}
    rec.case('objects')
    rec.state(('objects', name, i, j, unshared))
    rec.nontriv(('objects', name, i, j, unshared))
    want = [(n.hash, lib_canon(n)) for n in nodes]
    try:
        for k in (i, j):
            if k >= 0:
                nodes[k].to_boc(has_idx=bool(k % 2))
        for k, n in enumerate(nodes):
            for oi in (0, 5):
                back = Cell.one_from_boc(n.to_boc(**bocfam.OPTION_SETS[oi]))
                rec.trans(2)
                rec.trace()
                if back.hash != want[k][0] or lib_canon(back) != want[k][1]:
                    rec.violation('objects:roundtrip', f'{name} ({"equal sub-cells as distinct objects, " if unshared else ""}after to_boc of nodes {[x for x in (i, j) if x >= 0]}): '
                                  f'to_boc of node {k} parses back to another cell', 'case_objects', args)
                    return
    except Exception as e:
        rec.violation('objects:raises', f'{name} ({"distinct objects, " if unshared else ""}after to_boc of nodes {[x for x in (i, j) if x >= 0]}): {exc_name(e)}: {str(e)[:200]}', 'case_objects', args)
        return
    rec.covered('objects')
    rec.outcome('objects-ok')


def shard_objects(rec, part, parts):
    fam = [(n, mk) for n, mk in bocfam.family(rec.tier, rec.seed) if n.startswith('shape:')]
    for idx, (name, mk) in enumerate(fam):
        if idx % parts != part:
            continue
        rc = mk()
        if not rc.refs:
            continue
        for unshared in (False, True):
            n = len(bocfam.lib_nodes(bocfam.to_lib_unshared(rc) if unshared else to_lib(rc)))
            if n > 8:
                continue
            case_objects(rec, name, -1, -1, unshared)
            for i in range(n):
                for j in range(n):
                    if i != j:
                        case_objects(rec, name, i, j, unshared)


def shard_failure_histories(rec):
    """sixth session (wave 9): a REFUSED bag, then a valid one - through every entry point and input form.  For every damaged bag d of
    bocfam.damaged_bags (each refused at another point of the parse) x every valid serialisation v of a sample of the family x option sets:
    parse d (whatever it does), then parse v: the result is v's tree.  Nothing of a failed parse may survive into the next one."""
    from pytoniq_core.boc import Cell, Slice, Builder
    import base64
    fam = dict(bocfam.family(rec.tier, rec.seed))
    names = [n for n in fam if n.startswith('shape:2') or n.startswith('exotic1:0') or n.startswith('twin') or n.startswith('standfor:slots')][:14]
    bad = bocfam.damaged_bags(rec.seed)
    entries = [('Cell/bytes', lambda d: Cell.one_from_boc(d)), ('Cell/hex', lambda d: Cell.one_from_boc(d.hex())), ('Cell/b64', lambda d: Cell.one_from_boc(base64.b64encode(d).decode())),
               ('Slice/bytes', lambda d: Slice.one_from_boc(d).to_cell()), ('Cell.from_boc', lambda d: Cell.from_boc(d)[0])]
    for name in names:
        rc = fam[name]()
        root = to_lib(rc)
        for oi in (0, len(bocfam.OPTION_SETS) - 1):
            opts = bocfam.OPTION_SETS[oi]
            data = root.to_boc(**opts)
            for bname, bbytes in bad:
                for ename, parse in entries:
                    rec.case('failure-history')
                    rec.state(('failhist', name, oi, bname, ename))
                    rec.nontriv(('failhist', name, oi, bname, ename))
                    rec.trans(2)
                    try:
                        parse(bbytes)
                        refused = False
                    except Exception:
                        refused = True
                    args = {'name': name, 'oi': oi, 'bad': bname, 'entry': ename}
                    try:
                        got = parse(data)
                    except Exception as e:
                        rec.violation(f'failure-history:raises', f'{name} [{bocfam.opt_name(opts)}] parsed through {ename} right after the damaged bag "{bname}" was '
                                      f'{"refused" if refused else "ACCEPTED"}: {exc_name(e)}: {e}', 'shard_failure_histories', args)
                        rec.outcome('HISTORY')
                        continue
                    rec.trace()
                    if got.hash != rc.hash() or lib_canon(got) != RC.canon(rc):
                        rec.violation(f'failure-history:other-tree', f'{name} [{bocfam.opt_name(opts)}] parsed through {ename} right after the damaged bag "{bname}": another tree came back',
                                      'shard_failure_histories', args)
                        rec.outcome('HISTORY')
                        continue
                    rec.outcome('ok')
    rec.covered('failure-history')


def shard_builder_reuse(rec):
    """wave 10: ONE builder yields a cell, goes on storing (a reference / a cell / a slice / an optional reference / a dictionary / bits) and
    yields another one.  Both cells - the earlier one inspected AFTER the builder went on - serialise under every option set and parse back
    (three entry points) to the trees they are."""
    from pytoniq_core.boc import Cell, Slice, Builder
    leaf = RC.RCell('1011')
    kid = RC.RCell('0110', (leaf,))
    base_refs = [(), (leaf,), (kid, leaf), (leaf, kid, leaf)]
    steps_ = ['store_ref', 'store_cell', 'store_slice', 'store_maybe_ref', 'store_dict', 'store_bits']
    for refs in base_refs:
        for step in steps_:
            rec.case('builder-reuse')
            rec.state(('builder-reuse', len(refs), step))
            rec.nontriv(('builder-reuse', len(refs), step))
            b = Builder().store_bits('110')
            for r in refs:
                b.store_ref(to_lib(r))
            first = b.end_cell()
            want_first = RC.RCell('110', tuple(refs))
            extra = to_lib(kid)
            if step == 'store_ref':
                b.store_ref(extra); want_second = RC.RCell('110', tuple(refs) + (kid,))
            elif step == 'store_cell':
                b.store_cell(to_lib(RC.RCell('01', (kid,)))); want_second = RC.RCell('11001', tuple(refs) + (kid,))
            elif step == 'store_slice':
                b.store_slice(to_lib(RC.RCell('01', (kid,))).begin_parse()); want_second = RC.RCell('11001', tuple(refs) + (kid,))
            elif step == 'store_maybe_ref':
                b.store_maybe_ref(extra); want_second = RC.RCell('1101', tuple(refs) + (kid,))
            elif step == 'store_dict':
                b.store_dict(extra); want_second = RC.RCell('1101', tuple(refs) + (kid,))
            else:
                b.store_bits('0101'); want_second = RC.RCell('1100101', tuple(refs))
            second = b.end_cell()
            for which, cell, want in (('first (taken before the builder went on)', first, want_first), ('second', second, want_second)):
                for opts in bocfam.OPTION_SETS:
                    rec.trans()
                    args = {'refs': len(refs), 'step': step}
                    try:
                        data = cell.to_boc(**opts)
                        for ename, parse in (('Cell', lambda d: Cell.one_from_boc(d)), ('Slice', lambda d: Slice.one_from_boc(d).to_cell()), ('Builder', lambda d: Builder.one_from_boc(d).end_cell())):
                            got = parse(data)
                            if got.hash != want.hash() or lib_canon(got) != RC.canon(want) or cell.hash != want.hash() or lib_canon(cell) != RC.canon(want):
                                rec.violation('builder-reuse:tree', f'builder with {len(refs)} refs, end_cell, {step}, end_cell: the {which} cell [{bocfam.opt_name(opts)}, {ename}] is / round-trips to '
                                              f'another tree than the one it was taken as', 'shard_builder_reuse', args)
                                raise StopIteration
                    except StopIteration:
                        break
                    except Exception as e:
                        rec.violation('builder-reuse:raises', f'builder with {len(refs)} refs, end_cell, {step}, end_cell: the {which} cell [{bocfam.opt_name(opts)}]: {exc_name(e)}: {e}',
                                      'shard_builder_reuse', args)
                        break
                    rec.trace()
            rec.outcome('ok')
    rec.covered('builder-reuse')


def shard_names(rec, part, parts):
    fam = bocfam.family(rec.tier, rec.seed)
    for i, (name, mk) in enumerate(fam):
        if i % parts != part or name.startswith('cells:6') or name.startswith('payload:6') or name.startswith('payload:3'):
            continue
        for oi in range(len(bocfam.OPTION_SETS)):
            case_dag(rec, name, oi)
        if i < 2:
            rec.sample({'dag': name, 'option_sets': [bocfam.opt_name(o) for o in bocfam.OPTION_SETS], 'encodings': ENCODINGS, 'entries': ENTRIES})


def shard_one(rec, name):
    for oi in range(len(bocfam.OPTION_SETS)):
        case_dag(rec, name, oi)
    rec.sample({'dag': name, 'option_sets': 'all 6'})
