"""C13 - address text forms round-trip and the friendly form's checksum is enforced (explorer E)."""
import base64
from ..ref import crc as RCRC
from .common import filler, exc_name

ID = 'C13'
TITLE = "Address text forms round-trip and the friendly form's checksum is enforced"
EXPLORER = 'E (all 256 workchains x hash-part patterns x 9 text forms; all single-character substitutions)'
RULE = ('all 256 workchain ids x hash parts {00.., ff.., each single byte position set (32), seed filler} (quick: 16 workchains incl. -128,-1,0,127 for '
        'the substitution sweep) x {raw, 8 friendly variants = bounceable x test-only x url-safe}: parse(render(a)) == a with the reference flags, '
        'equal addresses hash equal, friendly text equals the reference rendering (tag, wc, hash, CRC-16/XMODEM, base64 alphabet); for each friendly '
        'string ALL 48 x 63 single-character substitutions within its own base64 alphabet must be rejected. non-trivial = friendly form; states = '
        'distinct address strings parsed; transitions = Address(str)/to_str calls; traces = strings whose result was compared with the reference')
LEVEL_TEXT = ('Bounded-exhaustive: every workchain, every text variant and every single-character substitution position/character is exercised '
              'through the real parser and renderer and compared with an independent rendering (bitwise CRC-16, RFC 4648 alphabets); 2^256 hash '
              'parts by byte-position patterns (the parser copies them).')
LEVEL_NOTE = 'trusted: bitwise CRC-16/XMODEM reference; Python base64 alphabet tables; hash parts by representatives'
TECHNIQUE = 'exhaustive enumeration of workchains, text variants and all single-character substitutions against a reference renderer'
ASSUMPTIONS = ['hash parts are covered by patterns (all-zero, all-one, each byte position, filler)']
NOT_ASSERTED = ['rejection of raw-form typos (the raw form has no checksum)', 'multi-character corruptions']

STD = 'ABCDEFGHIJKLMNOPQRSTUVWXYZabcdefghijklmnopqrstuvwxyz0123456789+/'
URL = 'ABCDEFGHIJKLMNOPQRSTUVWXYZabcdefghijklmnopqrstuvwxyz0123456789-_'
RULE += ' Sixth session: equality over all 256 workchains x neighbouring workchains x 3 accounts x 6 construction routes (tuple over one shared bytes object, fresh copy, raw text, friendly text, copy constructor, copy with reassigned workchain): ==, reversed ==, !=, hash, set membership agree with (workchain, account) equality.'


def BOUNDS(tier):
    return {'workchains_roundtrip': 256, 'workchains_substitution': 256 if tier == 'thorough' else 16, 'substitutions_per_string': 48 * 63, 'variants': 9, 'exhaustive': True}


def selftest():
    RCRC.selftest()


def REQUIRED_COVER(tier):
    return {'wc:-128', 'wc:127', 'variant:test-only', 'variant:std-base64', 'subst', 'raw', 'rerender', 'equality'}


def ref_friendly(wc, acc, bounceable, test_only, url_safe):
    tag = 0x11 if bounceable else 0x51
    if test_only:
        tag |= 0x80
    body = bytes([tag, wc & 0xff]) + acc
    body += RCRC.crc16(body)
    return (base64.urlsafe_b64encode if url_safe else base64.b64encode)(body).decode()


def hash_parts(seed, full):
    out = [bytes(32), b'\xff' * 32, filler(seed, 'c13', 32)]
    if full:
        for i in range(32):
            b = bytearray(32)
            b[i] = 0x80 >> (i % 8)
            out.append(bytes(b))
    return out


def case_roundtrip(rec, wc, acc_hex):
    from pytoniq_core.boc import Address
    acc = bytes.fromhex(acc_hex)
    args = {'wc': wc, 'acc_hex': acc_hex}
    rec.case('roundtrip')
    a = Address((wc, acc))
    rec.covered(f'wc:{wc}') if wc in (-128, 127) else None
    # raw
    raw = a.to_str(is_user_friendly=False)
    rec.trans(2)
    if raw != f'{wc}:{acc.hex()}':
        rec.violation('raw:render', f'raw form of ({wc}, {acc_hex[:8]}..) is {raw!r}', 'case_roundtrip', args)
    try:
        b = Address(raw)
        rec.covered('raw')
        if not (b == a and b.wc == wc and b.hash_part == acc and hash(a) == hash(b)):
            rec.violation('raw:parse', f'raw form {raw} parses to ({b.wc}, {b.hash_part.hex()[:8]}..)', 'case_roundtrip', args)
    except Exception as e:
        rec.violation('raw:parse-raises', f'raw form {raw} rejected: {exc_name(e)}: {e}', 'case_roundtrip', args)
    rec.trace()
    rec.state(raw)
    for bounce in (True, False):
        for test in (False, True):
            for url in (True, False):
                rec.case('friendly')
                rec.trans(2)
                want = ref_friendly(wc, acc, bounce, test, url)
                try:
                    s = a.to_str(is_user_friendly=True, is_url_safe=url, is_bounceable=bounce, is_test_only=test)
                except Exception as e:
                    rec.violation('friendly:render-raises', f'to_str(wc={wc}) raised {exc_name(e)}: {e}', 'case_roundtrip', args)
                    continue
                if s != want:
                    rec.violation('friendly:render', f'to_str(wc={wc}, bounce={bounce}, test={test}, url={url}) = {s}, reference {want}', 'case_roundtrip', args)
                    continue
                try:
                    b = Address(s)
                except Exception as e:
                    rec.violation('friendly:parse-raises', f'own friendly form {s} rejected: {exc_name(e)}: {e}', 'case_roundtrip', args)
                    continue
                rec.trace()
                rec.state(s)
                rec.nontriv(s)
                if test:
                    rec.covered('variant:test-only')
                if not url:
                    rec.covered('variant:std-base64')
                if not (b == a and a == b and b.wc == wc and b.hash_part == acc):
                    rec.violation('friendly:parse', f'{s} parses to ({b.wc}, {b.hash_part.hex()[:8]}..), expected ({wc}, {acc_hex[:8]}..)', 'case_roundtrip', args)
                elif b.is_bounceable != bounce or b.is_test_only != test:
                    rec.violation('friendly:flags', f'{s}: flags bounceable={b.is_bounceable} test_only={b.is_test_only}, rendered with {bounce}/{test}', 'case_roundtrip', args)
                elif hash(b) != hash(a) or len({a, b}) != 1:
                    rec.violation('friendly:hash', f'{s}: equal addresses hash differently', 'case_roundtrip', args)
                # an object obtained by PARSING renders every form exactly like one built from (workchain, hash):
                # the requested flags decide, not the flags of the text it came from
                for b2, t2, u2 in ((x, y, z) for x in (True, False) for y in (False, True) for z in (True, False)):
                    rec.trans()
                    try:
                        s2 = b.to_str(is_user_friendly=True, is_url_safe=u2, is_bounceable=b2, is_test_only=t2)
                    except Exception as e:
                        rec.violation('friendly:rerender-raises', f'object parsed from {s}: to_str raised {exc_name(e)}: {e}', 'case_roundtrip', args)
                        break
                    if s2 != ref_friendly(wc, acc, b2, t2, u2):
                        rec.violation('friendly:rerender', f'object parsed from {s} (bounce={bounce}, test={test}) renders bounce={b2}, test={t2}, url={u2} as {s2}, '
                                      f'reference {ref_friendly(wc, acc, b2, t2, u2)}', 'case_roundtrip', args)
                        break
                if b.to_str(is_user_friendly=False) != raw:
                    rec.violation('friendly:rerender-raw', f'object parsed from {s} renders the raw form differently', 'case_roundtrip', args)
                rec.covered('rerender')
                rec.outcome('ok')


def case_subst(rec, wc, acc_hex, bounce, test, url):
    """all 48 x 63 single-character substitutions"""
    from pytoniq_core.boc import Address
    acc = bytes.fromhex(acc_hex)
    s = ref_friendly(wc, acc, bounce, test, url)
    alpha = URL if url else STD
    args = {'wc': wc, 'acc_hex': acc_hex, 'bounce': bounce, 'test': test, 'url': url}
    n = 0
    # the checksum is enforced on every parse: all substitutions are tried BEFORE the intact string was ever parsed in this
    # case, then the intact string is parsed (it must be accepted), then all substitutions again (a parser that remembers
    # what it has verified must still reject the typo)
    for phase in ('before', 'after'):
        for pos in range(48):
            for ch in alpha:
                if ch == s[pos]:
                    continue
                t = s[:pos] + ch + s[pos + 1:]
                n += 1
                try:
                    b = Address(t)
                except Exception:
                    continue
                rec.violation('subst:accepted' if phase == 'before' else 'subst:accepted-after-intact',
                              f'{s} with character {pos} replaced by {ch!r} ({t}) was accepted as ({b.wc}, {b.hash_part.hex()[:10]}..)'
                              + (' after the intact string had been parsed' if phase == 'after' else ''), 'case_subst', args)
                rec.outcome('ACCEPTED-TYPO')
                return
        if phase == 'before':
            try:
                a = Address(s)
                if a.wc != wc or a.hash_part != acc:
                    raise ValueError('parsed to another address')
            except Exception as e:
                rec.violation('subst:intact-rejected', f'{s}: the intact friendly form is not accepted: {type(e).__name__}: {e}', 'case_subst', args)
                return
    rec.case('subst', n)
    rec.trans(n)
    rec.trace(n)
    rec.bulk(states=n, nontrivial=n)
    rec.covered('subst')
    rec.outcome('all-rejected')


def shard_roundtrip(rec, lo, hi):
    for wc in range(lo, hi + 1):
        for acc in hash_parts(rec.seed, True):
            case_roundtrip(rec, wc, acc.hex())
    rec.sample({'wc': lo, 'account': 'single bit set in byte 7', 'forms': ['raw', '8 friendly variants']})


def shard_subst(rec, wcs):
    for wc in wcs:
        for ai, acc in enumerate(hash_parts(rec.seed, False) + [bytes([0x5a]) * 32]):
            for bounce in (True, False):
                for test in (False, True):
                    for url in (True, False):
                        case_subst(rec, wc, acc.hex(), bounce, test, url)
    rec.sample({'wc': wcs[0], 'friendly': ref_friendly(wcs[0], bytes(32), True, False, True), 'substitutions': '48 positions x 63 characters'})


def shard_equality(rec):
    """sixth session (wave 9): equality is decided by (workchain, account id) and by nothing else - in particular not by the identity of the bytes
    object two addresses were made from.  For every workchain and its neighbours (wc, wc + 1, -wc - 1, 0, -1) x three accounts x construction
    routes (tuple over ONE shared bytes object, tuple over a fresh copy, raw text, friendly text, the copy constructor, a copy whose wc was
    reassigned): a == b, b == a, a != b, hash equality and set membership agree with the reference."""
    from pytoniq_core.boc import Address
    accs = [bytes(32), bytes(range(32)), filler(rec.seed, 'c13-eq', 32)]

    def routes(wc, h):
        yield 'tuple-shared', Address((wc, h))
        yield 'tuple-fresh', Address((wc, bytes(bytearray(h))))
        yield 'raw', Address(f'{wc}:{h.hex()}')
        yield 'friendly', Address(ref_friendly(wc, h, True, False, True))
        a = Address((wc, h))
        yield 'copy', Address(a)
        c = Address(Address(((wc + 1) if wc < 127 else 0, h)))
        c.wc = wc
        yield 'copy-wc-reassigned', c
    n = 0
    for wc in range(-128, 128):
        others = sorted({wc, wc + 1 if wc < 127 else -128, -wc - 1, 0, -1})
        for h in accs:
            for wc2 in others:
                for h2 in (h, accs[(accs.index(h) + 1) % 3]) if wc2 == wc else (h,):
                    for r1, a in routes(wc, h):
                        for r2, b in routes(wc2, h2):
                            n += 1
                            want = (wc, h) == (wc2, h2)
                            got = (a == b, b == a, not (a != b), len({a, b}) == 1)
                            if want:
                                got += (hash(a) == hash(b),)
                            if any(g != want for g in got):
                                rec.violation('equality', f'Address ({wc}, {h.hex()[:8]}..) made by {r1} and Address ({wc2}, {h2.hex()[:8]}..) made by {r2}: '
                                              f'(a == b, b == a, not a != b, one set element{", equal hashes" if want else ""}) = {got}, reference says {"equal" if want else "different"}',
                                              'shard_equality', {})
                                rec.outcome('EQUALITY')
                                return
    rec.case('equality', n)
    rec.trace(n)
    rec.trans(n)
    rec.bulk(states=n, nontrivial=n)
    rec.covered('equality')
    rec.outcome('equality-ok')


def shards(tier, seed):
    out = [{'fn': 'shard_equality', 'args': {}}]
    for lo in range(-128, 128, 16):
        out.append({'fn': 'shard_roundtrip', 'args': {'lo': lo, 'hi': lo + 15}})
    if tier == 'thorough':
        wcs = list(range(-128, 128))
        for i in range(0, 256, 4):
            out.append({'fn': 'shard_subst', 'args': {'wcs': wcs[i:i + 4]}, 'prio': 2})
    else:
        for wc in (-128, -127, -2, -1, 0, 1, 2, 17, 63, 64, 100, 126, 127, -64, -65, 85):
            out.append({'fn': 'shard_subst', 'args': {'wcs': [wc]}, 'prio': 2})
    return out
