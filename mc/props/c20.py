"""C20 - ADNL channel crypto is symmetric between peers; signatures and keys consistent (explorers E + D)."""
import hashlib, hmac, itertools
from .. import engine
from .common import filler, exc_name

ID = 'C20'
TITLE = 'ADNL channel crypto is symmetric between peers; signatures and keys consistent'
EXPLORER = 'E (all ordered key pairs x id orders x plaintext lengths; all single-bit flips) + D (deviation-bounded scripted random source)'
RULE = ('channels: 6 Ed25519 seeds => all 36 ordered pairs (incl. equal keys) x channel ids given {as derived, swapped, equal} x plaintext lengths '
        '{0,1,15,16,17,31,32,33,64,1000}: B.decrypt(A.encrypt(p)) == p both ways; packet == key id the peer expects || SHA-256(p) || ciphertext; '
        'ciphertext == reference AES-256-CTR (keystream built from AES-ECB) keyed from the X25519 shared secret (libsodium) by the direction rule. '
        'signatures: sign -> verify true; EVERY single-bit flip of the signature (512) and of the message, every other key, EVERY re-split of sig||msg at another byte boundary and wrong-length signatures => false/raise; both '
        'signing helpers agree. mnemonics: os.urandom replaced by a scripted source; default stream + ALL executions with <= k deviations (a draw '
        'answered with a boundary value) - the result must be the first 24-word group of the stream that is a basic seed (reference HMAC/PBKDF2), '
        'mnemonic_is_valid true, key derivation deterministic and equal to the reference PBKDF2 chain. non-trivial = non-empty plaintext / any flip '
        '/ any deviation; states = distinct (pair, ids, length) / flips / answer streams; transitions = library calls; traces = results compared '
        'with the reference derivations')
RULE += ' Fifth session: conversations - all sequences of <= 3 (thorough 4) packets over (direction x 6 plaintext lengths) on ONE pair of channel objects, each packet equal to the reference packet of its plaintext alone, all packets decrypt again at the end; a family of 1024 (thorough 16384) random streams each run to completion (distinct generated mnemonics valid for mnemonic_is_valid and the reference rule); mnemonic_new(words_count) for 12 / 18 / 24 (recorded finding for != 24).'
LEVEL_TEXT = ('Bounded-exhaustive over the finite configuration space that decides the behaviour (which peer id is larger, equal ids, block-boundary '
              'plaintext lengths), complete single-bit-flip sweeps for signatures, and deviation-bounded enumeration of random-source answers for '
              'the mnemonic generator, each compared with reference derivations from the underlying primitives.')
LEVEL_NOTE = 'trusted: libsodium (PyNaCl) X25519/Ed25519, Cryptodome AES-ECB, hashlib HMAC/PBKDF2; key material from VERIF_SEED (representatives of 2^256 seeds)'
TECHNIQUE = 'exhaustive enumeration of peer/id/length configurations and bit flips; deviation-bounded enumeration of scripted randomness'
ASSUMPTIONS = ['Ed25519/X25519/AES/SHA primitives are trusted; all seeds by representatives; the mnemonic generator under a random source that eventually yields a basic seed']
NOT_ASSERTED = ['termination of mnemonic_new under a random source that never yields a basic seed (horizon: 40000 draws)']

WORDS_SHA256 = 'f18b9a84c83e38e98eceb0102b275e26438af83ab08f080cdb780a2caa9f3a6d'
LENGTHS = [0, 1, 15, 16, 17, 31, 32, 33, 64, 1000]
RULE += ' Sixth session: conversations with damaged datagrams (checksums of 0, 3, 31, 40 bytes handed to the receiving channel) between valid packets.'


def BOUNDS(tier):
    return {'seeds': 6, 'ordered_pairs': 36, 'id_orders': 3, 'plaintext_lengths': LENGTHS, 'signature_bit_flips': 512,
            'mnemonic_deviation_bound': 1 if tier == 'quick' else 2, 'mnemonic_horizon_draws': 40000, 'mnemonic_stream_family': 1024 if tier == 'quick' else 16384,
            'conversation_depth': 3 if tier == 'quick' else 4, 'conversation_alphabet': '2 directions x plaintext lengths ' + str(HIST_LENGTHS), 'exhaustive': True}


def REQUIRED_COVER(tier):
    return {'ids:local>peer', 'ids:local<peer', 'ids:equal', 'pair:same-key', 'flip:sig', 'flip:msg', 'sign:resplit', 'mnemonic:deviation', 'wallet-key', 'derive-history', 'sign:encoders', 'mnemonic:keeps-drawing', 'channel-history', 'channel-history:damaged', 'mnemonic:stream-family', 'mnemonic:words-count'}


# ------------------------------------------------------------------ reference derivations
def ref_shared(priv_seed_a: bytes, pub_b: bytes) -> bytes:
    import nacl.bindings as nb
    pk, sk = nb.crypto_sign_seed_keypair(priv_seed_a)
    return nb.crypto_scalarmult(nb.crypto_sign_ed25519_sk_to_curve25519(sk), nb.crypto_sign_ed25519_pk_to_curve25519(pub_b))


def ref_ctr(key32: bytes, iv16: bytes, data: bytes) -> bytes:
    from Cryptodome.Cipher import AES
    ecb = AES.new(key32, AES.MODE_ECB)
    ctr = int.from_bytes(iv16, 'big')
    out = bytearray()
    for off in range(0, len(data), 16):
        ks = ecb.encrypt(((ctr + off // 16) % (1 << 128)).to_bytes(16, 'big'))
        out += bytes(a ^ b for a, b in zip(data[off:off + 16], ks))
    return bytes(out)


def ref_packet(dir_key: bytes, plain: bytes) -> bytes:
    chk = hashlib.sha256(plain).digest()
    key = dir_key[:16] + chk[16:32]
    iv = chk[:4] + dir_key[20:32]
    return hashlib.sha256(bytes.fromhex('d4adbc2d') + dir_key).digest() + chk + ref_ctr(key, iv, plain)


def seeds(seed):
    return [filler(seed, f'c20-seed-{i}', 32) for i in range(6)]


def case_channel(rec, ia, ib, idmode, length):
    from pytoniq_core.crypto.ciphers import AdnlChannel, Client, Server
    import nacl.bindings as nb
    rec.case('channel')
    args = {'ia': ia, 'ib': ib, 'idmode': idmode, 'length': length}
    sd = seeds(rec.seed)
    sa, sb = sd[ia], sd[ib]
    pa, pb = nb.crypto_sign_seed_keypair(sa)[0], nb.crypto_sign_seed_keypair(sb)[0]
    ca, cb = Client(sa), Client(sb)
    id_a, id_b = ca.get_key_id(), cb.get_key_id()
    if ca.get_key_id() != hashlib.sha256(bytes.fromhex('c6b41348') + pa).digest():
        rec.violation('key-id', 'Client.get_key_id is not sha256(magic + public key)', 'case_channel', args)
    if idmode == 'swapped':
        id_a, id_b = id_b, id_a
    elif idmode == 'equal':
        id_b = id_a
    try:
        cha = AdnlChannel(ca, Server('h', 1, pb), id_a, id_b)
        chb = AdnlChannel(cb, Server('h', 1, pa), id_b, id_a)
        rec.trans(2)
    except Exception as e:
        rec.violation('channel:open', f'opening channels raised {exc_name(e)}: {e}', 'case_channel', args)
        return
    shared = ref_shared(sa, pb)
    assert shared == ref_shared(sb, pa)
    rec.covered('ids:local>peer' if id_a > id_b else 'ids:local<peer' if id_a < id_b else 'ids:equal')
    if ia == ib:
        rec.covered('pair:same-key')
    # direction rule from the TON ADNL channel: the side with the larger id encrypts with the shared key, the other with its reverse
    a_enc = shared if id_a > id_b else shared[::-1] if id_a < id_b else shared
    b_enc = shared if id_b > id_a else shared[::-1] if id_b < id_a else shared
    plain = filler(rec.seed, f'c20-plain-{length}', length)
    for name, snd, rcv, enc_key in (('A->B', cha, chb, a_enc), ('B->A', chb, cha, b_enc)):
        try:
            pkt = snd.encrypt(plain)
            back = rcv.decrypt(pkt[64:], pkt[32:64])
            rec.trans(2)
        except Exception as e:
            rec.violation('channel:raises', f'{name} ids {idmode} len {length}: {exc_name(e)}: {e}', 'case_channel', args)
            continue
        rec.trace()
        if back != plain:
            rec.violation(f'channel:roundtrip:{idmode}', f'{name} (keys {ia},{ib}; ids {idmode}; {length} bytes): peer decrypts to other bytes', 'case_channel', args)
            rec.outcome('MISMATCH')
            continue
        if pkt[32:64] != hashlib.sha256(plain).digest():
            rec.violation('channel:checksum', f'{name}: packet does not carry SHA-256 of the plaintext', 'case_channel', args)
        if pkt[:32] != rcv.server_aes_key_id:
            rec.violation(f'channel:key-id:{idmode}', f'{name}: packet key id is not the one the peer expects', 'case_channel', args)
        want = ref_packet(enc_key, plain)
        if pkt != want:
            part = 'key-id' if pkt[:32] != want[:32] else 'checksum' if pkt[32:64] != want[32:64] else 'ciphertext'
            rec.violation(f'channel:reference:{part}', f'{name} ids {idmode} len {length}: {part} differs from the reference AES-CTR derivation', 'case_channel', args)
        rec.outcome('ok')
    rec.state(('chan', ia, ib, idmode, length))
    if length:
        rec.nontriv(('chan', ia, ib, idmode, length))


HIST_LENGTHS = [0, 1, 16, 17, 64, 1000]


def case_channel_history(rec, ia, ib, idmode, depth, first=None):
    """one pair of channel objects used for a whole conversation: ALL sequences of <= depth packets over (direction x plaintext length);
    every packet equals the reference packet for its plaintext alone (a channel carries no state from packet to packet), the peer decrypts
    it, and at the end every packet of the conversation decrypts again, in reverse order"""
    from pytoniq_core.crypto.ciphers import AdnlChannel, Client, Server
    import nacl.bindings as nb
    rec.case('channel-history')
    args = {'ia': ia, 'ib': ib, 'idmode': idmode, 'depth': depth, 'first': first}
    sd = seeds(rec.seed)
    sa, sb = sd[ia], sd[ib]
    pa, pb = nb.crypto_sign_seed_keypair(sa)[0], nb.crypto_sign_seed_keypair(sb)[0]
    shared = ref_shared(sa, pb)
    events = [(d, L) for d in (0, 1) for L in HIST_LENGTHS]
    plains = {L: filler(rec.seed, f'c20-plain-{L}', L) for L in HIST_LENGTHS}
    # the third-party X25519 primitive (pure Python, ~3 ms) is memoised for this case: a pure function of its arguments, trusted
    import x25519
    if not hasattr(x25519.scalar_mult, '_memo'):
        _orig, _memo = x25519.scalar_mult, {}

        def scalar_mult(a, b):
            k = (bytes(a), bytes(b))
            if k not in _memo:
                _memo[k] = _orig(a, b)
            return _memo[k]
        scalar_mult._memo = _memo
        x25519.scalar_mult = scalar_mult
    n = 0
    for dlen in range(2, depth + 1):
        for seq in itertools.product(events, repeat=dlen):
            if first is not None and events.index(seq[0]) != first:
                continue
            ca, cb = Client(sa), Client(sb)
            id_a, id_b = ca.get_key_id(), cb.get_key_id()
            if idmode == 'swapped':
                id_a, id_b = id_b, id_a
            elif idmode == 'equal':
                id_b = id_a
            ch = [AdnlChannel(ca, Server('h', 1, pb), id_a, id_b), AdnlChannel(cb, Server('h', 1, pa), id_b, id_a)]
            ids = [id_a, id_b]
            sent = []
            rec.trans(2 * dlen)
            n += 1
            for k, (d, L) in enumerate(seq):
                enc_key = shared if ids[d] >= ids[1 - d] else shared[::-1]
                try:
                    pkt = ch[d].encrypt(plains[L])
                    back = ch[1 - d].decrypt(pkt[64:], pkt[32:64])
                except Exception as e:
                    rec.violation('channel-history:raises', f'keys {ia},{ib} ids {idmode}: packet #{k} of the conversation {list(seq)} raised {exc_name(e)}: {e}', 'case_channel_history', args)
                    return
                if pkt != ref_packet(enc_key, plains[L]) or back != plains[L]:
                    rec.violation('channel-history:packet', f'keys {ia},{ib} ids {idmode}: packet #{k} of the conversation {list(seq)} (direction, plaintext length) '
                                  f'{"is not the reference packet for its plaintext" if pkt != ref_packet(enc_key, plains[L]) else "is decrypted to other bytes by the peer"} '
                                  f'({len(pkt)} bytes, expected {64 + L}): the channel carries state between packets', 'case_channel_history', args)
                    rec.outcome('HISTORY')
                    return
                sent.append((d, L, pkt))
            for d, L, pkt in reversed(sent):
                if ch[1 - d].decrypt(pkt[64:], pkt[32:64]) != plains[L]:
                    rec.violation('channel-history:redecrypt', f'keys {ia},{ib} ids {idmode}: an earlier packet of the conversation {list(seq)} no longer decrypts', 'case_channel_history', args)
                    return
            rec.trace()
    # sixth session - conversations with DAMAGED datagrams in between: the receiving side is handed a datagram cut short (a checksum of 0, 3
    # or 31 bytes, or of 40) - whatever it does with it (raise, return rubbish), the channel is as good as before for every later packet
    if first is None or first < 4:
        lens2 = (HIST_LENGTHS[1], HIST_LENGTHS[-1])
        ev2 = [(d, L) for d in (0, 1) for L in lens2] + [(d, -c) for d in (0, 1) for c in (1, 3, 31, 40)]
        for dlen in range(2, depth + 1):
            for seq in itertools.product(ev2, repeat=dlen):
                if first is not None and ev2.index(seq[0]) % 4 != first:
                    continue
                if not any(L < 0 for _, L in seq) or seq[-1][1] < 0:
                    continue
                ca, cb = Client(sa), Client(sb)
                id_a, id_b = ca.get_key_id(), cb.get_key_id()
                if idmode == 'swapped':
                    id_a, id_b = id_b, id_a
                elif idmode == 'equal':
                    id_b = id_a
                ch = [AdnlChannel(ca, Server('h', 1, pb), id_a, id_b), AdnlChannel(cb, Server('h', 1, pa), id_b, id_a)]
                ids = [id_a, id_b]
                rec.trans(2 * dlen)
                n += 1
                for k, (d, L) in enumerate(seq):
                    if L < 0:
                        pkt = ch[d].encrypt(plains[lens2[0]])
                        cs = (pkt[32:64] + bytes(8))[:-L if L != -1 else 0]
                        try:
                            ch[1 - d].decrypt(pkt[64:], cs)
                        except Exception:
                            pass
                        continue
                    enc_key = shared if ids[d] >= ids[1 - d] else shared[::-1]
                    try:
                        pkt = ch[d].encrypt(plains[L])
                        back = ch[1 - d].decrypt(pkt[64:], pkt[32:64])
                    except Exception as e:
                        rec.violation('channel-history:after-damaged', f'keys {ia},{ib} ids {idmode}: conversation {list(seq)} (negative length = a datagram with a checksum of that '
                                      f'many bytes handed to the receiver): the valid packet #{k} raised {exc_name(e)}: {e}', 'case_channel_history', args)
                        return
                    if pkt != ref_packet(enc_key, plains[L]) or back != plains[L]:
                        rec.violation('channel-history:after-damaged', f'keys {ia},{ib} ids {idmode}: conversation {list(seq)}: the valid packet #{k} is not the reference packet / '
                                      f'is not decrypted to its plaintext after a damaged datagram was handled', 'case_channel_history', args)
                        return
                rec.trace()
        rec.covered('channel-history:damaged')
    rec.state(('chanhist', ia, ib, idmode, depth, first))
    rec.nontriv(('chanhist', ia, ib, idmode, depth, first))
    rec.covered('channel-history')
    rec.notes['conversations'] = rec.notes.get('conversations', 0) + n
    rec.outcome('conversation-ok')


def shard_channel_history(rec, ia, ib, depth, first=None):
    for idmode in ('derived', 'swapped', 'equal'):
        case_channel_history(rec, ia, ib, idmode, depth, first)
    if not first:
        rec.sample({'peers': [ia, ib], 'conversation': [[0, 1000], [0, 1], [1, 17]], 'oracle': 'every packet == reference packet of its plaintext; peer decrypts; all decrypt again at the end'})


def shard_channels(rec, ia):
    for ib in range(6):
        for idmode in ('derived', 'swapped', 'equal'):
            for L in LENGTHS:
                case_channel(rec, ia, ib, idmode, L)
    rec.sample({'peers': [ia, 3], 'ids': 'swapped', 'plaintext_len': 17})


# ------------------------------------------------------------------ signatures
def case_sign(rec, ik, mlen):
    from pytoniq_core.crypto.signature import sign_message, verify_sign
    from pytoniq_core.crypto.ciphers import Client
    import nacl.bindings as nb
    from nacl.signing import SigningKey
    rec.case('sign')
    args = {'ik': ik, 'mlen': mlen}
    sd = seeds(rec.seed)
    pk, sk = nb.crypto_sign_seed_keypair(sd[ik])
    msg = filler(rec.seed, f'c20-msg-{mlen}', mlen)
    sig = sign_message(msg, sk)
    sig2 = Client(sd[ik]).sign(msg)
    want = SigningKey(sd[ik]).sign(msg).signature
    rec.trans(3)
    rec.trace()
    if sig != want or sig2 != want or len(sig) != 64:
        rec.violation('sign:value', f'signing helpers disagree with Ed25519 (key {ik}, {mlen} bytes)', 'case_sign', args)
        return
    if verify_sign(pk, msg, sig) is not True:
        rec.violation('sign:verify', f'own signature does not verify (key {ik}, {mlen} bytes)', 'case_sign', args)
        return
    # every form of the signing helper: the `encoder` argument only changes the text form of the SAME 64-byte signature
    import nacl.encoding as ne
    for enc in (ne.RawEncoder, ne.HexEncoder, ne.Base16Encoder, ne.Base32Encoder, ne.Base64Encoder, ne.URLSafeBase64Encoder):
        rec.trans()
        try:
            got = enc.decode(sign_message(msg, sk, enc))
        except Exception as e:
            rec.violation('sign:encoder', f'sign_message(encoder={enc.__name__}) raised {type(e).__name__}: {e}', 'case_sign', args)
            continue
        rec.covered('sign:encoders')
        if got != want or verify_sign(pk, msg, got) is not True:
            rec.violation('sign:encoder', f'sign_message(encoder={enc.__name__}) does not return the (encoded) Ed25519 signature: {len(got)} bytes after decoding, '
                          f'verifies: {got == want}', 'case_sign', args)

    def rejects(p, m, s):
        rec.trans()
        try:
            return verify_sign(p, m, s) is not True
        except Exception:
            return True
    n = 0
    for bit in range(512):
        s = bytearray(sig)
        s[bit >> 3] ^= 0x80 >> (bit & 7)
        n += 1
        if not rejects(pk, msg, bytes(s)):
            rec.violation('sign:flip-sig', f'signature with bit {bit} flipped still verifies', 'case_sign', args)
            break
    rec.covered('flip:sig')
    for bit in range(len(msg) * 8):
        m = bytearray(msg)
        m[bit >> 3] ^= 0x80 >> (bit & 7)
        n += 1
        if not rejects(pk, bytes(m), sig):
            rec.violation('sign:flip-msg', f'message with bit {bit} flipped still verifies', 'case_sign', args)
            break
    if msg:
        rec.covered('flip:msg')
    for other in range(6):
        if other != ik:
            n += 1
            if not rejects(nb.crypto_sign_seed_keypair(sd[other])[0], msg, sig):
                rec.violation('sign:other-key', f'signature of key {ik} verifies under key {other}', 'case_sign', args)
    for m2 in (msg + b'\x00', msg[:-1] if msg else b'x', b''):
        if m2 != msg:
            n += 1
            if not rejects(pk, m2, sig):
                rec.violation('sign:other-msg', 'signature verifies for another message', 'case_sign', args)
    # the boundary between signature and message is part of what is signed: EVERY re-split of sig||msg into
    # (signature', message') other than the genuine one, and every truncated / extended signature, must be refused
    whole = sig + msg
    for cut in range(0, len(whole) + 1):
        if cut == 64:
            continue
        n += 1
        if not rejects(pk, whole[cut:], whole[:cut]):
            rec.violation('sign:resplit', f'sig||msg re-split at byte {cut} (signature of {cut} bytes) verifies', 'case_sign', args)
            break
    for s2 in (sig[:63], sig + b'\x00', sig + sig, b''):
        n += 1
        if not rejects(pk, msg, s2):
            rec.violation('sign:siglen', f'signature of {len(s2)} bytes verifies', 'case_sign', args)
    rec.covered('sign:resplit')
    rec.trace(n)
    rec.bulk(states=n, nontrivial=n)
    rec.state(('sign', ik, mlen))
    rec.outcome('sign-ok')


def shard_sign(rec):
    for ik in range(6):
        for mlen in (0, 1, 32, 100):
            case_sign(rec, ik, mlen)
    rec.sample({'key': 2, 'message_len': 32, 'flips': '512 signature bits + 256 message bits'})


# ------------------------------------------------------------------ mnemonics under a scripted random source
class Horizon(BaseException):
    pass


DRY_WORD = 5          # 24 x words[5] is not a basic seed (asserted by the self-test)
DRY_COUNTS = ['1', '2', '99', '100', '255', '256', '999', '1000', '1023', '1024', '1025', 'inf']


class Scripted:
    """os.urandom replacement: draw k answers with `stream(k)`; deviations: {draw index: 2-byte value}"""

    def __init__(self, seed, stream, deviations, horizon):
        self.seed, self.stream, self.dev, self.horizon = seed, stream, deviations, horizon
        self.draws = 0
        self.log = []

    def __call__(self, n):
        k = self.draws
        self.draws += 1
        if self.draws > self.horizon:
            raise Horizon()
        if k in self.dev:
            head = self.dev[k].to_bytes(2, 'big')
        elif self.stream == 'hash':
            head = hashlib.sha256(f'{self.seed}|draw|{k}'.encode()).digest()[:2]
        elif self.stream.startswith('hash:'):        # the j-th member of the family of hash streams
            head = hashlib.sha256(f'{self.seed}|{self.stream}|draw|{k}'.encode()).digest()[:2]
        elif self.stream == 'count':
            head = ((k * 7 + self.seed) % 65536).to_bytes(2, 'big')
        elif self.stream.startswith('dry:'):
            # the first N candidates (24 draws each) are one and the same word group that is NOT a basic seed, then the
            # hash stream: the generator has to keep drawing for as long as it takes ('dry:inf' never yields one)
            n_dry = self.stream.split(':')[1]
            if n_dry == 'inf' or k < 24 * int(n_dry):
                head = DRY_WORD.to_bytes(2, 'big')
            else:
                head = hashlib.sha256(f'{self.seed}|draw|{k}'.encode()).digest()[:2]
        else:
            raise ValueError(self.stream)
        out = head + hashlib.sha256(f'{self.seed}|pad|{k}'.encode()).digest()
        out = (out * (n // len(out) + 1))[:n]
        self.log.append(out)
        return out


def ref_basic_seed(wordlist):
    ent = hmac.new(' '.join(wordlist).encode(), b'', hashlib.sha512).digest()
    return hashlib.pbkdf2_hmac('sha512', ent, b'TON seed version', 390)[0] == 0


def ref_wallet_key(wordlist):
    from nacl.signing import SigningKey
    ent = hmac.new(' '.join(wordlist).encode(), b'', hashlib.sha512).digest()
    seed = hashlib.pbkdf2_hmac('sha512', ent, b'TON default seed', 100000)[:32]
    k = SigningKey(seed)
    return bytes(k.verify_key), seed


def case_mnemonic(rec, stream, deviations, derive=False, predict=True):
    import pytoniq_core.crypto.keys as K
    rec.case('mnemonic')
    dev = {int(k): int(v) for k, v in deviations.items()}
    args = {'stream': stream, 'deviations': {str(k): v for k, v in dev.items()}, 'derive': derive}
    if hashlib.sha256(' '.join(K.words).encode()).hexdigest() != WORDS_SHA256 or len(K.words) != 2048:
        rec.violation('mnemonic:wordlist', 'the word list is not the 2048-word BIP-39 English list', 'case_mnemonic', args)
        return
    src = Scripted(rec.seed, stream, dev, 40000 if rec.tier == 'quick' or not stream.startswith('dry') else 400000)
    real = K.os.urandom
    K.os.urandom = src
    try:
        try:
            with rec.limit(120):
                words = K.mnemonic_new()
        except Horizon:
            if stream == 'dry:inf':
                rec.covered('mnemonic:keeps-drawing')      # no basic seed ever comes: never returning (an invalid mnemonic) is the only right answer
            rec.outcome('horizon')
            return
        except engine.CaseTimeout:
            rec.violation('mnemonic:hang', 'mnemonic_new did not return within 120 s', 'case_mnemonic', args)
            return
    finally:
        K.os.urandom = real
    rec.trans()
    rec.trace()
    # reference prediction from the very same answers
    idx = [((b[0] << 8) | b[1]) & 0x7ff for b in src.log]
    groups = [idx[i:i + 24] for i in range(0, len(idx) - 23, 24)]
    predicted = None
    for g in (groups if predict else []):
        wl = [K.words[i] for i in g]
        if ref_basic_seed(wl):
            predicted = wl
            break
    if len(words) != 24 or any(w not in K.words for w in words):
        rec.violation('mnemonic:shape', f'mnemonic_new returned {len(words)} words / unknown words', 'case_mnemonic', args)
        return
    if not ref_basic_seed(words):
        rec.violation('mnemonic:invalid', f'generated mnemonic is not a basic seed by the reference check ({src.draws} draws)', 'case_mnemonic', args)
    if K.mnemonic_is_valid(words) is not True:
        rec.violation('mnemonic:is_valid', 'mnemonic_is_valid rejects a freshly generated mnemonic', 'case_mnemonic', args)
    if predict and predicted != words:
        rec.violation('mnemonic:selection', f'generated mnemonic is not the first basic-seed word group of the random stream (draws {src.draws})', 'case_mnemonic', args)
    # negative: altering one word must (almost surely) invalidate; checked against the reference verdict, not assumed
    alt = list(words)
    alt[3] = K.words[(K.words.index(alt[3]) + 1) % 2048]
    if K.mnemonic_is_valid(alt) != ref_basic_seed(alt) or K.mnemonic_is_valid(words[:23]) is not False:
        rec.violation('mnemonic:is_valid-differs', 'mnemonic_is_valid disagrees with the reference validity rule', 'case_mnemonic', args)
    if derive:
        pub, sec = K.mnemonic_to_wallet_key(words)
        pub2, sec2 = K.mnemonic_to_wallet_key(list(words))
        rpub, rseed = ref_wallet_key(words)
        rec.covered('wallet-key')
        if (pub, sec) != (pub2, sec2):
            rec.violation('key:nondeterministic', 'mnemonic_to_wallet_key gives different keys for the same mnemonic', 'case_mnemonic', args)
        if pub != rpub or sec[:32] != rseed or K.private_key_to_public_key(sec) != rpub:
            rec.violation('key:derivation', 'wallet key differs from the reference HMAC-SHA512 / PBKDF2(100000) / Ed25519 chain', 'case_mnemonic', args)
    if dev:
        rec.covered('mnemonic:deviation')
    rec.state(('mn', stream, tuple(sorted(dev.items()))))
    rec.nontriv(('mn', stream, tuple(sorted(dev.items()))))
    rec.outcome(f'mnemonic-ok')
    rec.notes['max_draws'] = max(rec.notes.get('max_draws', 0), src.draws)


def case_derive_history(rec):
    """key derivation is a function of the word LIST: phrases that are close to each other (same words in another order, the
    same letters with other word boundaries - art+work+network / artwork+net+work -, a shared prefix, one word repeated) are
    derived one after another in one process, in every order of each pair, and each result is compared with the reference
    chain (a result remembered from an earlier call under too coarse a key shows up here)"""
    import itertools
    from pytoniq_core.crypto import keys as K
    pad = ['abandon'] * 21
    fam = {
        'split-a': ['art', 'work', 'network'] + pad,
        'split-b': ['artwork', 'net', 'work'] + pad,
        'order-a': ['zoo', 'zone', 'zero'] + pad,
        'order-b': ['zero', 'zone', 'zoo'] + pad,
        'prefix-a': pad + ['able', 'about', 'above'],
        'prefix-b': pad + ['able', 'about', 'absent'],
        'short': ['art', 'work'],
        'short-joined': ['artwork'],
    }
    want = {k: ref_wallet_key(v) for k, v in fam.items()}
    rec.covered('derive-history')
    for a, b in itertools.permutations(fam, 2):
        if a.split('-')[0] != b.split('-')[0]:
            continue
        rec.case('derive-history')
        rec.state(('derive', a, b))
        rec.nontriv(('derive', a, b))
        for name in (a, b, a):
            rec.trans()
            try:
                pub, sec = K.mnemonic_to_wallet_key(list(fam[name]))
                pub2, _ = K.mnemonic_to_private_key(list(fam[name]))
            except Exception as e:
                rec.violation('key:raises', f'deriving {fam[name][:3]}.. raised {exc_name(e)}: {e}', 'case_derive_history', {})
                continue
            rec.trace()
            if pub != want[name][0] or sec[:32] != want[name][1]:
                rec.violation('key:history', f'after deriving the phrases {a}, {b} in this order, the key of {name} ({" ".join(fam[name][:3])} ...) differs from the reference chain '
                              f'(equals the key of another phrase: {[k for k, v in want.items() if v[0] == pub]})', 'case_derive_history', {})
                rec.outcome('WRONG-KEY')
                return
    rec.outcome('derive-ok')
    rec.sample({'phrases': ['art work network abandon..', 'artwork net work abandon..'], 'order': 'a, b, a', 'checked': 'each key equals the reference derivation'})


BOUNDARY = [0x0000, 0x07ff, 0xffff, 0x0800]


def shard_mnemonic(rec, stream, k, part, parts):
    """default stream + all executions with <= k deviations among the first 24 draws (the first candidate) and at
    the draws of the accepted group"""
    i = 0
    case_mnemonic(rec, stream, {}, derive=(part == 0))
    points = list(range(24)) + [24, 47]
    domains = [len(BOUNDARY) + 1] * len(points)
    for a in engine.deviations(domains, k):
        if not any(a):
            continue
        i += 1
        if i % parts != part:
            continue
        dev = {str(points[p]): BOUNDARY[v - 1] for p, v in enumerate(a) if v}
        case_mnemonic(rec, stream, dev, derive=False)
    rec.sample({'stream': stream, 'deviations': {'3': 0x07ff}, 'oracle': 'first basic-seed group of the scripted stream'})


def case_words_count(rec, count, stream):
    """mnemonic_new(words_count): the generator's own parameter.  Whatever it returns has that many list words, is a basic seed, and is a
    VALID mnemonic for mnemonic_is_valid ("generated mnemonics are always valid")"""
    import pytoniq_core.crypto.keys as K
    rec.case('words-count')
    args = {'count': count, 'stream': stream}
    src = Scripted(rec.seed, stream, {}, 40000)
    real = K.os.urandom
    K.os.urandom = src
    try:
        try:
            words = K.mnemonic_new(count)
        except Horizon:
            rec.outcome('horizon')
            return
    finally:
        K.os.urandom = real
    rec.trans()
    rec.trace()
    rec.state(('words-count', count, stream))
    rec.nontriv(('words-count', count, stream))
    rec.covered('mnemonic:words-count')
    if len(words) != count or any(w not in K.words for w in words) or not ref_basic_seed(words):
        rec.violation('mnemonic:words-count:shape', f'mnemonic_new({count}) returned {len(words)} words / unknown words / not a basic seed', 'case_words_count', args)
        return
    if K.mnemonic_is_valid(words) is not True:
        rec.violation('mnemonic:is_valid:words_count', f'mnemonic_new({count}) returned a {len(words)}-word basic-seed mnemonic that mnemonic_is_valid rejects', 'case_words_count', args)
        rec.outcome('generated-but-invalid')
        return
    rec.outcome('mnemonic-ok')


def shard_words_count(rec):
    for count in (12, 18, 24):
        for stream in ('hash', 'hash:1'):
            case_words_count(rec, count, stream)
    rec.sample({'words_count': 12, 'oracle': 'length, word list, basic seed (reference rule), mnemonic_is_valid'})


def shard_mnemonic_family(rec, lo, hi):
    """the family of hash streams j = lo..hi-1, each to completion: about 256 distinct rejected candidates and one distinct accepted mnemonic
    per stream - whatever mnemonic_new returns must be valid for mnemonic_is_valid and for the reference rule"""
    for j in range(lo, hi):
        case_mnemonic(rec, f'hash:{j}', {}, derive=False, predict=(j % 8 == 0))
    rec.covered('mnemonic:stream-family')
    rec.notes['mnemonic_streams'] = rec.notes.get('mnemonic_streams', 0) + hi - lo
    if lo == 0:
        rec.sample({'stream': 'hash:0', 'oracle': 'returned mnemonic: 24 list words, basic seed by the reference rule, accepted by mnemonic_is_valid; every 8th stream: it is the first basic-seed group of the stream'})


def selftest():
    import os
    from .. import repo
    # the dry word group really is not a basic seed (reference rule, the library's own word list file)
    import importlib
    K = importlib.import_module('pytoniq_core.crypto.keys')
    assert not ref_basic_seed([K.words[DRY_WORD]] * 24), 'choose another DRY_WORD'


def shards(tier, seed):
    out = [{'fn': 'shard_channels', 'args': {'ia': i}} for i in range(6)]
    out.append({'fn': 'shard_sign', 'args': {}})
    out.append({'fn': 'shard_words_count', 'args': {}, 'prio': 3})
    for ia, ib in ((0, 1), (1, 0), (2, 2)):
        if tier == 'quick':
            out.append({'fn': 'shard_channel_history', 'args': {'ia': ia, 'ib': ib, 'depth': 3}, 'prio': 2})
        else:
            for first in range(12):
                out.append({'fn': 'shard_channel_history', 'args': {'ia': ia, 'ib': ib, 'depth': 4, 'first': first}, 'prio': 2})
    out.append({'fn': 'case_derive_history', 'args': {}, 'prio': 5})
    k = 1 if tier == 'quick' else 2
    parts = 12 if tier == 'quick' else 60
    nstreams, per = (1024, 32) if tier == 'quick' else (16384, 128)
    for lo in range(0, nstreams, per):
        out.append({'fn': 'shard_mnemonic_family', 'args': {'lo': lo, 'hi': lo + per}, 'prio': 4})
    for n_dry in DRY_COUNTS:
        out.append({'fn': 'shard_mnemonic', 'args': {'stream': f'dry:{n_dry}', 'k': 0, 'part': 0, 'parts': 1}, 'prio': 4})
    for stream in ('hash', 'count'):
        if tier == 'quick' and stream == 'count':
            out.append({'fn': 'shard_mnemonic', 'args': {'stream': stream, 'k': 0, 'part': 0, 'parts': 1}, 'prio': 3})
            continue
        for p in range(parts):
            out.append({'fn': 'shard_mnemonic', 'args': {'stream': stream, 'k': k, 'part': p, 'parts': parts}, 'prio': 3})
    return out
