"""C15 - messages, state-inits and currency values serialise per block.tlb and round-trip (explorer E).

Every message of the family (header variants x state-init shapes x body sizes around and between the
inline/by-reference thresholds) is (1) serialised by the library - which must never fail for lack of
room -, (2) decoded by the schema-driven reference interpreter (mc/ref/tlb.py on the bundled block.tlb)
to the same logical message, (3) parsed back by the library, and (4) every OTHER valid placement of
init and body (inline / by reference) written by the reference encoder is parsed by the library to the
same message.  Stand-alone wrappers: bit-exact against the reference encoding, and round trip.
"""
import itertools, os
from ..ref import cell as RC
from ..ref import bits as RB
from ..ref import hashmap as RH
from ..ref import tlb as RTLB
from .common import to_lib as cell_to_lib, from_lib, filler, exc_name

ID = 'C15'
TITLE = 'Messages, state-inits and currency values serialise per block.tlb and round-trip'
EXPLORER = 'E (header variants x all 2^5 state-init presence combinations (+none) x body bit lengths around every placement threshold x 0..4 body references)'
RULE = ('headers: internal / external-in / external-out with address forms (std wc -128,-1,0,127; anycast depth 1 and 30; extern of 1, 8, 9, 255, 511 bits; none), '
        'amount boundaries 0, 1, 2^120-1, 0/1/2 extra currencies with 1-byte and 31-byte amounts, flag and lt/time boundaries; state-init: none and all 32 presence '
        'combinations of split_depth/special/code/data/library; body: for every (header, init) pair every bit length within +-2 of each threshold where a placement '
        'flips, plus 0, 1, 1022, 1023, each with 0..4 references (thorough: EVERY bit length 0..1023 x 0..4 refs for EVERY header/init pair). Per message: serialize '
        'must not raise; the cell decodes under the bundled block.tlb (independent interpreter, every bit and reference consumed) to the same logical message; '
        'MessageAny.deserialize returns the same message; every other valid placement (init inline/ref x body inline/ref) written by the reference encoder parses '
        'to the same message. Wrappers (StateInit, TickTock, CurrencyCollection, ExtraCurrencyCollection, WalletV3Data, WalletV4Data, NftItemData, HashUpdate, '
        'AccountStatus): bits equal the reference encoding and deserialize(serialize(x)) == x. non-trivial = message with a state-init, extra currencies or a body '
        'reference; states = distinct messages / placements; transitions = library calls; traces = reference decodes and comparisons')
RULE += ' Fifth session: every parsed message (own and alternative placements) and every parsed wrapper value is serialised again and decoded per schema; extra-currency entries with amount 0; bodies that are exotic cells (library reference, Merkle proof): only by reference.'
LEVEL_TEXT = ('Bounded-exhaustive over the joint bit/reference budget of header, state-init and body: every header class, every state-init shape and every body size '
              'at which an inline/by-reference decision can flip is serialised by the real code and read back by an independent interpreter of the TL-B schema and by '
              'the library parser; all alternative valid placements are fed to the parser.')
LEVEL_NOTE = 'trusted: mc/ref/tlb.py on the bundled block.tlb (decodes the whole main-net block), mc/ref/bits.py, mc/ref/hashmap.py; the reference message encoder is validated against the schema decoder on every case'
TECHNIQUE = 'small-scope exhaustive enumeration of message shapes around all placement thresholds against a schema-driven reference decoder and encoder'
RULE += " Edit histories (explorer S): one message with state-init and currency collection, event alphabet of 38 events (serialise message / init / value, parse; set each init field to each alternative; edit the TickTock in place; grams; put/delete/replace extra currencies in place; header fields; destination; anycast; body; attach/detach init), every history of <= 3 (thorough 4) events ending in an observer, replayed on fresh objects: every serialisation must be the block.tlb encoding of the objects' CURRENT fields."
LEVEL_TEXT += ' Plus an explicit-state search over edit/serialise histories of the mutable value objects.'
ASSUMPTIONS = ['a message whose header alone exceeds a cell (two 30-bit anycast addresses plus maximal amounts) is not a message and is outside the family',
               'int_msg_info src/dest are MsgAddressInt (addr_std); external addresses only where the schema allows MsgAddressExt']
NOT_ASSERTED = ['which valid placement the serialiser chooses (any encoding that decodes to the same message under the schema is accepted)', 'addr_var addresses (refused by the library by design)']


def BOUNDS(tier):
    return {'headers': len(headers()), 'state_init_shapes': 33, 'body_refs': [0, 1, 2, 3, 4], 'body_bits': 'threshold neighbourhoods (quick) / all 0..1023 for all 462 header x init pairs (thorough)', 'exhaustive': True}


def REQUIRED_COVER(tier):
    return {'kind:int', 'kind:ext_in', 'kind:ext_out', 'init:none', 'init:all5', 'init:3refs', 'extra:2', 'body:inline', 'body:ref', 'body:exotic', 'init:inline', 'init:ref', 'placement:alt',
            'anycast', 'wrapper:StateInit', 'wrapper:CurrencyCollection', 'wrapper:WalletV3Data', 'wrapper:WalletV4Data', 'wrapper:NftItemData', 'wrapper:NftItemSaleData', 'wrapper:NftItemSaleFees', 'wrapper:HighloadWalletData', 'wrapper:WalletMessage', 'wrapper:HashUpdate',
            'wrapper:TickTock', 'wrapper:AccountStatus', 'tight:refs', 'isolation', 'edit-history'}


# ------------------------------------------------------------------------------------------ family
A0 = ['std', 0, 'a', None]
A1 = ['std', -1, 'b', None]


def headers():
    big = (1 << 120) - 1
    H = []
    # internal
    H.append({'k': 'int', 'f': [1, 1, 0], 'src': A0, 'dest': A1, 'grams': 10 ** 9, 'extra': {}, 'ihr': 0, 'fwd': 0, 'lt': 0, 'at': 0})
    H.append({'k': 'int', 'f': [0, 0, 1], 'src': ['std', -128, 'c', None], 'dest': ['std', 127, 'd', None], 'grams': 0, 'extra': {'1': 1}, 'ihr': 1, 'fwd': big, 'lt': (1 << 64) - 1, 'at': (1 << 32) - 1})
    H.append({'k': 'int', 'f': [1, 0, 0], 'src': A0, 'dest': A0, 'grams': big, 'extra': {'0': 255, str((1 << 32) - 1): (1 << 248) - 1}, 'ihr': big, 'fwd': big, 'lt': 1 << 63, 'at': 1})
    H.append({'k': 'int', 'f': [1, 1, 1], 'src': ['std', 0, 'e', [1, 1]], 'dest': ['std', -1, 'f', [30, (1 << 30) - 1]], 'grams': 1, 'extra': {'7': 256, '8': 0}, 'ihr': 0, 'fwd': 1, 'lt': 5, 'at': 6})
    H.append({'k': 'int', 'f': [0, 1, 0], 'src': ['std', 0, 'g', [30, 1]], 'dest': ['std', 0, 'h', [30, 0]], 'grams': 255, 'extra': {}, 'ihr': 256, 'fwd': 65535, 'lt': 7, 'at': 8})
    # external in
    H.append({'k': 'ext_in', 'src': ['none'], 'dest': A0, 'fee': 0})
    H.append({'k': 'ext_in', 'src': ['ext', 1, 1], 'dest': A1, 'fee': 1})
    H.append({'k': 'ext_in', 'src': ['ext', 0xAB, 8], 'dest': ['std', 0, 'i', [5, 21]], 'fee': big})
    H.append({'k': 'ext_in', 'src': ['ext', 0x1FF, 9], 'dest': A0, 'fee': 256})
    H.append({'k': 'ext_in', 'src': ['ext', (1 << 255) - 3, 255], 'dest': A0, 'fee': 10})
    H.append({'k': 'ext_in', 'src': ['ext', (1 << 511) - 1, 511], 'dest': A1, 'fee': 10})
    # external out
    H.append({'k': 'ext_out', 'src': A0, 'dest': ['none'], 'lt': 0, 'at': 0})
    H.append({'k': 'ext_out', 'src': A1, 'dest': ['ext', 5, 3], 'lt': (1 << 64) - 1, 'at': (1 << 32) - 1})
    H.append({'k': 'ext_out', 'src': ['std', 0, 'j', [30, 12345]], 'dest': ['ext', (1 << 511) - 1, 511], 'lt': 1, 'at': 2})
    return H


def inits():
    """index 0 = no state-init; 1..32 = presence combinations (bit0 split_depth, bit1 special, bit2 code, bit3 data, bit4 library)"""
    out = [None]
    for m in range(32):
        out.append({'split_depth': [31, 0][m % 2] if m & 1 else None, 'special': [[True, False], [False, True], [True, True], [False, False]][(m >> 2) % 4] if m & 2 else None,
                    'code': 0 if m & 4 else None, 'data': 1 if m & 8 else None, 'library': 2 if m & 16 else None})
    return out


CODE_CELLS = [RC.RCell('1111000011110000', (RC.RCell('1'),)), RC.RCell('0' * 40), RC.RCell('10', (RC.RCell(''), RC.RCell('01')))]


def acct(tag, seed):
    return filler(seed, 'c15-acct-' + tag, 32)


# ------------------------------------------------------------------------------------------ reference encoding
def enc_addr(a, seed):
    if a[0] == 'none':
        return RB.addr_none()
    if a[0] == 'ext':
        return RB.addr_extern(a[1], a[2])
    return RB.addr_std(a[1], acct(a[2], seed), tuple(a[3]) if a[3] else None)


def enc_extra(extra):
    if not extra:
        return '0', ()
    root = RH.build({int(k): RB.var_uint_l(v, 5) for k, v in extra.items()}, 32)
    return '1', (root,)


def enc_header(h, seed):
    if h['k'] == 'int':
        eb, er = enc_extra(h['extra'])
        bits = '0' + ''.join(str(x) for x in h['f']) + enc_addr(h['src'], seed) + enc_addr(h['dest'], seed) + RB.coins(h['grams']) + eb + RB.coins(h['ihr']) + RB.coins(h['fwd']) + \
            RB.uint(h['lt'], 64) + RB.uint(h['at'], 32)
        return bits, er
    if h['k'] == 'ext_in':
        return '10' + enc_addr(h['src'], seed) + enc_addr(h['dest'], seed) + RB.coins(h['fee']), ()
    return '11' + enc_addr(h['src'], seed) + enc_addr(h['dest'], seed) + RB.uint(h['lt'], 64) + RB.uint(h['at'], 32), ()


def enc_init(i):
    bits, refs = '', ()
    bits += '0' if i['split_depth'] is None else '1' + RB.uint(i['split_depth'], 5)
    bits += '0' if i['special'] is None else '1' + str(int(i['special'][0])) + str(int(i['special'][1]))
    for f in ('code', 'data', 'library'):
        if i[f] is None:
            bits += '0'
        else:
            bits += '1'
            refs += (CODE_CELLS[i[f]],)
    return bits, refs


def exotic_bodies(seed):
    """bodies that are exotic cells (a library reference, a Merkle proof): they exist only as cells of their own, i.e. by reference"""
    tree = RC.RCell('1011', (RC.RCell('1'), RC.prune(RC.RCell('0110', (RC.RCell('01'),)), 1)))
    return [RC.library(filler(seed, 'c15-libbody', 32)), RC.mproof(tree)]


def body_cell(bb, br, seed):
    if bb < 0:
        return exotic_bodies(seed)[-bb - 1]         # bb = -1, -2: the exotic bodies
    pat = ''.join(format(x, '08b') for x in filler(seed, 'c15-body', 128))
    return RC.RCell(pat[:bb], tuple(RC.RCell(format(j + 1, '04b')) for j in range(br)))


def placements(h, i, body, seed):
    """every valid (init inline?, body inline?) encoding of the message -> list of (name, RCell)"""
    hb, hr = enc_header(h, seed)
    out = []
    for init_inline in ((None,) if i is None else (True, False)):
        for body_inline in ((True, False) if not body.special else (False,)):
            bits, refs = hb, hr
            if i is None:
                bits += '0'
            else:
                ib, ir = enc_init(i)
                if init_inline:
                    bits += '10' + ib
                    refs += ir
                else:
                    bits += '11'
                    refs += (RC.RCell(ib, ir),)
            if body_inline:
                bits += '0' + body.bits
                refs += body.refs
            else:
                bits += '1'
                refs += (body,)
            if len(bits) <= 1023 and len(refs) <= 4:
                out.append((f'init-{"none" if i is None else "inline" if init_inline else "ref"}/body-{"inline" if body_inline else "ref"}', RC.RCell(bits, refs)))
    return out


# ------------------------------------------------------------------------------------------ logical message
def lm_spec(h, i, body, seed):
    def la(a):
        if a[0] == 'none':
            return ('none',)
        if a[0] == 'ext':
            return ('ext', a[2], a[1])
        return ('std', a[1], acct(a[2], seed).hex(), tuple(a[3]) if a[3] else None)
    if h['k'] == 'int':
        info = ('int', tuple(bool(x) for x in h['f']), la(h['src']), la(h['dest']), h['grams'], tuple(sorted((int(k), v) for k, v in h['extra'].items())), h['ihr'], h['fwd'], h['lt'], h['at'])
    elif h['k'] == 'ext_in':
        info = ('ext_in', la(h['src']), la(h['dest']), h['fee'])
    else:
        info = ('ext_out', la(h['src']), la(h['dest']), h['lt'], h['at'])
    return (info, lm_init_spec(i), (body.bits, tuple(r.hash().hex() for r in body.refs), bool(body.special)))


def lm_init_spec(i):
    if i is None:
        return None
    return (i['split_depth'], tuple(i['special']) if i['special'] else None) + tuple(None if i[f] is None else CODE_CELLS[i[f]].hash().hex() for f in ('code', 'data', 'library'))


SCH = {}


def schema():
    if 'S' not in SCH:
        from .. import repo
        SCH['S'] = RTLB.Schema(open(os.path.join(repo.REPO, 'pytoniq_core', 'tlb', 'schemas', 'block.tlb')).read())
    return SCH['S']


def lm_ref(rc):
    """decode a message cell with the schema interpreter -> logical message"""
    S = schema()
    sl = RTLB.Slice(rc)
    v = S.decode(('app', 'Message', ['Any']), sl)
    if sl.bits_left() or sl.refs_left():
        raise RTLB.TlbError(f'message not fully consumed: {sl.bits_left()} bits / {sl.refs_left()} refs left')

    def la(a):
        c = a['@c']
        if c == 'addr_none':
            return ('none',)
        if c == 'addr_extern':
            return ('ext', a['len'], int(a['external_address'], 2) if a['external_address'] else 0)
        if c == 'addr_std':
            ac = a['anycast']
            any_ = None
            if ac['@c'] == 'just':
                any_ = (ac['value']['depth'], int(ac['value']['rewrite_pfx'], 2))
            return ('std', a['workchain_id'], format(int(a['address'], 2), '064x'), any_)
        return ('addr?', c)

    def grams(g):
        return g['amount']['value']
    inf = v['info']
    c = inf['@c']
    if c == 'int_msg_info':
        extra = inf['value']['other']['dict']
        info = ('int', (bool(inf['ihr_disabled']['@c'] == 'bool_true'), inf['bounce']['@c'] == 'bool_true', inf['bounced']['@c'] == 'bool_true'), la(inf['src']), la(inf['dest']),
                grams(inf['value']['grams']), tuple(sorted((k, x['value']) for k, x in extra.items())), grams(inf['ihr_fee']), grams(inf['fwd_fee']), inf['created_lt'], inf['created_at'])
    elif c == 'ext_in_msg_info':
        info = ('ext_in', la(inf['src']), la(inf['dest']), grams(inf['import_fee']))
    else:
        info = ('ext_out', la(inf['src']), la(inf['dest']), inf['created_lt'], inf['created_at'])
    init = None
    if v['init']['@c'] == 'just':
        e = v['init']['value']
        init = lm_init_ref(e['value'])
        placement_init = e['@c']
    b = v['body']['value']
    body = (b.bits, tuple(r.hash().hex() for r in b.refs), bool(b.special))
    return (info, init, body), (v['init']['value']['@c'] if v['init']['@c'] == 'just' else None, v['body']['@c'])


def lm_init_ref(si):
    def mref(x):
        return x['value'].hash().hex() if x['@c'] == 'just' else None
    sd = si['split_depth']['value'] if si['split_depth']['@c'] == 'just' else None
    sp = None
    if si['special']['@c'] == 'just':
        t = si['special']['value']
        sp = (t['tick']['@c'] == 'bool_true', t['tock']['@c'] == 'bool_true')
    return (sd, sp, mref(si['code']), mref(si['data']), mref(si['library']))


def lm_lib(m):
    from pytoniq_core.boc import Address
    from pytoniq_core.tlb.transaction import InternalMsgInfo, ExternalMsgInfo, ExternalOutMsgInfo

    def la(a):
        if a is None:
            return ('none',)
        if isinstance(a, Address):
            ac = a.anycast
            return ('std', a.wc, a.hash_part.hex(), (ac.depth, ac.rewrite_pfx) if ac is not None else None)
        return ('ext', a.len, a.external_address if a.external_address is not None else 0)
    i = m.info
    if isinstance(i, InternalMsgInfo):
        info = ('int', (i.ihr_disabled, i.bounce, i.bounced), la(i.src), la(i.dest), i.value.grams, tuple(sorted((i.value.other.dict or {}).items())), i.ihr_fee, i.fwd_fee, i.created_lt, i.created_at)
    elif isinstance(i, ExternalMsgInfo):
        info = ('ext_in', la(i.src), la(i.dest), i.import_fee)
    else:
        info = ('ext_out', la(i.src), la(i.dest), i.created_lt, i.created_at)
    return (info, lm_init_lib(m.init), (m.body.bits.to01(), tuple(r.hash.hex() for r in m.body.refs), bool(getattr(m.body, 'is_exotic', False))))


def lm_lib_addr(a):
    from pytoniq_core.boc import Address
    if a is None:
        return ('none',)
    if isinstance(a, Address):
        ac = a.anycast
        return ('std', a.wc, a.hash_part.hex(), (ac.depth, ac.rewrite_pfx) if ac is not None else None)
    return ('ext', a.len, a.external_address if a.external_address is not None else 0)


def spec_addr(a, seed):
    if a[0] == 'none':
        return ('none',)
    if a[0] == 'ext':
        return ('ext', a[2], a[1])
    return ('std', a[1], acct(a[2], seed).hex(), tuple(a[3]) if a[3] else None)


def lm_init_lib(s):
    if s is None:
        return None
    h = lambda c: None if c is None else c.hash.hex()        # noqa
    return (s.split_depth, (s.special.tick, s.special.tock) if s.special is not None else None, h(s.code), h(s.data), h(s.library))


# ------------------------------------------------------------------------------------------ spec -> library objects
def lib_addr(a, seed):
    from pytoniq_core.boc import Address, ExternalAddress
    if a[0] == 'none':
        return None
    if a[0] == 'ext':
        return ExternalAddress(a[1], a[2])
    ad = Address((a[1], acct(a[2], seed)))
    if a[3]:
        ad.set_anycast(a[3][0], a[3][1])
    return ad


def lib_init(i):
    from pytoniq_core.tlb.account import StateInit, TickTock
    if i is None:
        return None
    return StateInit(split_depth=i['split_depth'], special=TickTock(*i['special']) if i['special'] else None,
                     code=None if i['code'] is None else cell_to_lib(CODE_CELLS[i['code']]), data=None if i['data'] is None else cell_to_lib(CODE_CELLS[i['data']]),
                     library=None if i['library'] is None else cell_to_lib(CODE_CELLS[i['library']]))


def lib_message(h, i, body, seed):
    from pytoniq_core.tlb.transaction import MessageAny, InternalMsgInfo, ExternalMsgInfo, ExternalOutMsgInfo
    from pytoniq_core.tlb.block import CurrencyCollection, ExtraCurrencyCollection
    if h['k'] == 'int':
        info = InternalMsgInfo(bool(h['f'][0]), bool(h['f'][1]), bool(h['f'][2]), lib_addr(h['src'], seed), lib_addr(h['dest'], seed),
                               CurrencyCollection(h['grams'], ExtraCurrencyCollection({int(k): v for k, v in h['extra'].items()})), h['ihr'], h['fwd'], h['lt'], h['at'])
    elif h['k'] == 'ext_in':
        info = ExternalMsgInfo(lib_addr(h['src'], seed), lib_addr(h['dest'], seed), h['fee'])
    else:
        info = ExternalOutMsgInfo(lib_addr(h['src'], seed), lib_addr(h['dest'], seed), h['lt'], h['at'])
    return MessageAny(info, lib_init(i), cell_to_lib(body))


# ------------------------------------------------------------------------------------------ one message
def case_message(rec, hi, ii, bb, br):
    from pytoniq_core.tlb.transaction import MessageAny
    seed = rec.seed
    h = headers()[hi]
    i = inits()[ii]
    body = body_cell(bb, br, seed)
    args = {'hi': hi, 'ii': ii, 'bb': bb, 'br': br}
    want = lm_spec(h, i, body, seed)
    pls = placements(h, i, body, seed)
    if not pls:
        return          # not representable at all (cannot happen inside the family; kept as a guard)
    rec.case('message')
    rec.state(('msg', hi, ii, bb, br))
    rec.covered('kind:' + h['k'], 'init:none' if i is None else 'init:some')
    if i is not None or h.get('extra') or br:
        rec.nontriv(('msg', hi, ii, bb, br))
    if ii == 32:
        rec.covered('init:all5')
    if i is not None and sum(i[f] is not None for f in ('code', 'data', 'library')) == 3:
        rec.covered('init:3refs')
        if h.get('extra') and br:
            rec.covered('tight:refs')
    if h.get('extra') and len(h['extra']) == 2:
        rec.covered('extra:2')
    if any(a[0] == 'std' and a[3] for a in (h['src'], h['dest'])):
        rec.covered('anycast')
    what = f'message header#{hi} ({h["k"]}) init#{ii} body {bb} bits/{br} refs' if bb >= 0 else f'message header#{hi} ({h["k"]}) init#{ii} body = exotic cell #{-bb} (type {body.type})'
    # oracle honesty: the schema decoder reads every placement the reference encoder writes
    for name, rc in pls:
        got, _ = lm_ref(rc)
        assert got == want, ('reference encoder / schema decoder disagree', what, name, got, want)
    # (1) serialize never fails
    try:
        msg = lib_message(h, i, body, seed)
        rec.trans()
        cell = msg.serialize()
    except Exception as e:
        rec.violation('serialize-raises', f'{what}: serialize raised {exc_name(e)}: {e} although {len(pls)} valid placement(s) exist ({", ".join(n for n, _ in pls)})', 'case_message', args)
        rec.outcome('serialize raised')
        return
    try:
        if lm_lib(msg) != want or msg.serialize().hash != cell.hash:
            rec.violation('serialize-not-repeatable', f'{what}: serialising changed the message object or a second serialisation gives another cell', 'case_message', args)
    except Exception as e:
        rec.violation('serialize-not-repeatable', f'{what}: second serialize raised {exc_name(e)}: {e}', 'case_message', args)
    # (2) independent decode
    try:
        got, placement = lm_ref(from_lib(cell))
        rec.trace()
    except (RTLB.TlbError, KeyError, IndexError, ValueError) as e:
        rec.violation('schema', f'{what}: the serialised cell does not follow block.tlb: {exc_name(e)}: {e}', 'case_message', args)
        rec.outcome('not per schema')
        return
    if got != want:
        d = next((n for n, (a, b) in zip(('info', 'init', 'body'), zip(got, want)) if a != b), '?')
        rec.violation(f'schema-value:{d}', f'{what}: the serialised cell decodes to another message ({d}: {str(got[("info", "init", "body").index(d)])[:200]} vs {str(want[("info", "init", "body").index(d)])[:200]})',
                      'case_message', args)
        rec.outcome('wrong message')
        return
    rec.covered('body:inline' if placement[1] == 'left' else 'body:ref')
    if placement[0]:
        rec.covered('init:inline' if placement[0] == 'left' else 'init:ref')
    # (3) library parser on its own output, (4) and on every other placement
    own = from_lib(cell).hash()
    for name, rc in [('own', None)] + pls:
        if rc is not None and rc.hash() == own:
            continue
        try:
            rec.trans()
            sl = (cell if rc is None else cell_to_lib(rc, {})).begin_parse()
            back = MessageAny.deserialize(sl)
            got2 = lm_lib(back)
        except Exception as e:
            rec.violation(f'parse-raises:{"own" if rc is None else "alt"}', f'{what}: MessageAny.deserialize of the {name} encoding raised {exc_name(e)}: {e}', 'case_message', args)
            rec.outcome('parse raised')
            continue
        rec.trace()
        if rc is not None:
            rec.covered('placement:alt')
            rec.state(('msg', hi, ii, bb, br, name))
        if got2 != want:
            d = next((n for n, (a, b) in zip(('info', 'init', 'body'), zip(got2, want)) if a != b), '?')
            rec.violation(f'parse-value:{"own" if rc is None else "alt"}:{d}', f'{what}: parsing the {name} encoding gives another message ({d}: {str(got2[("info", "init", "body").index(d)])[:200]} vs '
                          f'{str(want[("info", "init", "body").index(d)])[:200]})', 'case_message', args)
            rec.outcome('parse differs')
            continue
        # (5) a parsed message IS a message: serialising it must not fail either, and must give the same logical message
        try:
            rec.trans()
            again, _ = lm_ref(from_lib(back.serialize()))
            rec.trace()
            rec.covered('reserialize-parsed')
        except Exception as e:
            rec.violation(f'reserialize-raises:{"own" if rc is None else "alt"}', f'{what}: the message returned by MessageAny.deserialize ({name} encoding) cannot be serialised / decoded again: {exc_name(e)}: {e}', 'case_message', args)
            rec.outcome('reserialize raised')
            continue
        if again != want:
            rec.violation(f'reserialize-value:{"own" if rc is None else "alt"}', f'{what}: the message returned by MessageAny.deserialize ({name} encoding) serialises to another message', 'case_message', args)
    rec.outcome('ok')


def body_lengths(h, i, seed, tier):
    hb, hr = enc_header(h, seed)
    ib = len(enc_init(i)[0]) if i is not None else 0
    base = len(hb) + 1
    ts = set()
    # thresholds: body inline with init inline / by ref / none; init inline limit
    for used in ({base} if i is None else {base + 1 + ib, base + 1}):
        t = 1023 - used - 1
        for d in (-2, -1, 0, 1, 2):
            ts.add(t + d)
    ts |= {0, 1, 2, 7, 8, 1022, 1023}
    return sorted(x for x in ts if 0 <= x <= 1023)


def shard_messages(rec, hi, part, parts):
    seed = rec.seed
    h = headers()[hi]
    n = 0
    for ii, i in enumerate(inits()):
        for bb in body_lengths(h, i, seed, rec.tier):
            for br in range(5):
                n += 1
                if n % parts != part:
                    continue
                case_message(rec, hi, ii, bb, br)
    for ii in (0, 1, 29, 32):
        for bb in (-1, -2):
            n += 1
            if n % parts == part and ii < len(inits()):
                case_message(rec, hi, ii, bb, 0)
                rec.covered('body:exotic')
    if hi == 2 and part == 0:
        rec.sample({'header': headers()[2], 'init': inits()[29], 'body': '1000 bits / 2 refs', 'checked': 'serialize ok; schema decode == message; parse == message; other placements parse'})


def shard_all_lengths(rec, hi, ii, part, parts):
    """thorough: every body bit length x every reference count"""
    for bb in range(1024):
        if bb % parts != part:
            continue
        for br in range(5):
            case_message(rec, hi, ii, bb, br)


# ------------------------------------------------------------------------------------------ wrappers
def case_wrappers(rec):
    from pytoniq_core.boc import Builder
    from pytoniq_core.tlb.account import StateInit, TickTock, AccountStatus
    from pytoniq_core.tlb.block import CurrencyCollection, ExtraCurrencyCollection
    from pytoniq_core.tlb.custom.wallet import WalletV3Data, WalletV4Data
    from pytoniq_core.tlb.custom.nft import NftItemData
    from pytoniq_core.tlb.utils import HashUpdate
    seed = rec.seed

    def check(name, key, obj, want_bits, want_refs, back_fn, same):
        rec.case('wrapper')
        rec.covered('wrapper:' + name)
        rec.state(('w', name, key))
        rec.nontriv(('w', name, key))
        args = {}
        try:
            rec.trans()
            c = obj.serialize()
            got = (c.bits.to01(), tuple(r.hash.hex() for r in c.refs))
            want = (want_bits, tuple(r.hash().hex() for r in want_refs))
            rec.trace()
            if got != want:
                rec.violation(f'wrapper:{name}:bits', f'{name} {key}: serialised as {got[0][:80]}.. ({len(got[0])} bits, {len(got[1])} refs), block.tlb encoding is {want[0][:80]}.. '
                              f'({len(want[0])} bits, {len(want[1])} refs)', 'case_wrappers', args)
                return
            rec.trans()
            sl = c.begin_parse()
            back = back_fn(sl)
            if not same(back) or sl.remaining_bits or sl.remaining_refs:
                rec.violation(f'wrapper:{name}:roundtrip', f'{name} {key}: deserialize(serialize(x)) differs from x or leaves data unread', 'case_wrappers', args)
                return
            # the parsed value is a value of the same type: it serialises (does not fail) to the same encoding
            if hasattr(back, 'serialize'):
                rec.trans()
                c2 = back.serialize()
                rec.covered('reserialize-parsed-wrapper')
                if (c2.bits.to01(), tuple(r.hash.hex() for r in c2.refs)) != want:
                    rec.violation(f'wrapper:{name}:reserialize', f'{name} {key}: the value returned by deserialize serialises to another cell', 'case_wrappers', args)
        except Exception as e:
            rec.violation(f'wrapper:{name}:raises', f'{name} {key}: {exc_name(e)}: {e}', 'case_wrappers', args)

    for ii, i in enumerate(inits()[1:], 1):
        b, r = enc_init(i)
        check('StateInit', ii, lib_init(i), b, r, StateInit.deserialize, lambda x, i=i: lm_init_lib(x) == lm_init_spec(i))
    for t in itertools.product((False, True), repeat=2):
        check('TickTock', t, TickTock(*t), str(int(t[0])) + str(int(t[1])), (), TickTock.deserialize, lambda x, t=t: (x.tick, x.tock) == t)
    for k, (nm, bits) in enumerate((('uninitialized', '00'), ('frozen', '01'), ('active', '10'), ('nonexist', '11'))):
        check('AccountStatus', nm, AccountStatus(nm), bits, (), AccountStatus.deserialize, lambda x, nm=nm: x.type_ == nm)
    for grams in (0, 1, 255, 256, (1 << 120) - 1):
        # (an entry whose amount is 0 is an entry: VarUInteger 32 encodes 0 as the empty number, the key stays in the dictionary)
        for extra in ({}, {1: 1}, {0: 255, (1 << 32) - 1: (1 << 248) - 1}, {5: 256, 6: 65535, 7: 1 << 64}, {3: 0}, {3: 0, 4: 7}):
            eb, er = enc_extra({str(k): v for k, v in extra.items()})
            check('CurrencyCollection', (grams, tuple(extra)), CurrencyCollection(grams, ExtraCurrencyCollection(dict(extra))), RB.coins(grams) + eb, er, CurrencyCollection.deserialize,
                  lambda x, grams=grams, extra=extra: x.grams == grams and (x.other.dict or {}) == extra)
    pk = filler(seed, 'c15-pk', 32)
    for seqno, wid in ((0, 0), (1, 698983191), ((1 << 32) - 1, (1 << 32) - 1)):
        bits = RB.uint(seqno, 32) + RB.uint(wid, 32) + RB.bytes_bits(pk)
        check('WalletV3Data', (seqno, wid), WalletV3Data(seqno, wid, pk), bits, (), WalletV3Data.deserialize, lambda x, s=seqno, w=wid: (x.seqno, x.wallet_id, x.public_key) == (s, w, pk))
        for plug in (None, CODE_CELLS[0]):
            check('WalletV4Data', (seqno, wid, plug is not None), WalletV4Data(seqno, wid, pk, None if plug is None else cell_to_lib(plug)), bits + ('0' if plug is None else '1'),
                  () if plug is None else (plug,), WalletV4Data.deserialize,
                  lambda x, s=seqno, w=wid, plug=plug: (x.seqno, x.wallet_id, x.public_key) == (s, w, pk) and ((x.plugins is None) if plug is None else x.plugins.hash == plug.hash()))
    for idx in (0, 1, (1 << 64) - 1):
        for ca, oa in ((A0, A1), (['none'], A0), (['std', -1, 'n', [3, 5]], ['none'])):
            bits = RB.uint(idx, 64) + enc_addr(ca, seed) + enc_addr(oa, seed)
            check('NftItemData', (idx, ca[0], oa[0]), NftItemData(idx, lib_addr(ca, seed), lib_addr(oa, seed), cell_to_lib(CODE_CELLS[1])), bits, (CODE_CELLS[1],), NftItemData.deserialize,
                  lambda x, idx=idx: x.index == idx and x.content.hash == CODE_CELLS[1].hash())
    # addresses handed over in their text form (the constructors accept str): same cell as with Address objects
    from pytoniq_core.tlb.custom.nft import NftItemSaleData as _Sale, NftItemSaleFees as _Fees
    ca, oa = ['std', -1, 'n', [3, 5]], A1
    bits = RB.uint(7, 64) + enc_addr(ca, seed) + enc_addr(oa, seed)
    check('NftItemData', ('owner-as-text', 7), NftItemData(7, lib_addr(ca, seed), lib_addr(oa, seed).to_str(), cell_to_lib(CODE_CELLS[1])), bits, (CODE_CELLS[1],), NftItemData.deserialize,
          lambda x: x.index == 7 and lm_lib_addr(x.collection_address) == spec_addr(ca, seed) and lm_lib_addr(x.owner_address) == spec_addr(oa, seed))
    bits = RB.uint(8, 64) + enc_addr(A0, seed) + enc_addr(ca, seed)
    check('NftItemData', ('collection-as-text', 8), NftItemData(8, lib_addr(A0, seed).to_str(), lib_addr(ca, seed), cell_to_lib(CODE_CELLS[1])), bits, (CODE_CELLS[1],), NftItemData.deserialize,
          lambda x: x.index == 8 and lm_lib_addr(x.collection_address) == spec_addr(A0, seed) and lm_lib_addr(x.owner_address) == spec_addr(ca, seed))
    fb = enc_addr(A0, seed) + RB.coins(1) + enc_addr(A1, seed) + RB.coins(2)
    sale_bits = '1' + RB.uint(5, 32) + enc_addr(A0, seed) + enc_addr(A1, seed) + enc_addr(ca, seed) + RB.coins(9) + '0'
    check('NftItemSaleData', ('addresses-as-text',), _Sale(True, 5, lib_addr(A0, seed).to_str(), lib_addr(A1, seed).to_str(), lib_addr(ca, seed), 9,
                                                           _Fees(lib_addr(A0, seed), 1, lib_addr(A1, seed), 2), False), sale_bits, (RC.RCell(fb),), _Sale.deserialize,
          lambda x: lm_lib_addr(x.nft_owner_address) == spec_addr(ca, seed) and lm_lib_addr(x.marketplace_address) == spec_addr(A0, seed))
    # the remaining wallet-data / NFT-data wrappers (schemas from their doc strings)
    from pytoniq_core.tlb.custom.wallet import HighloadWalletData, WalletMessage
    from pytoniq_core.tlb.custom.nft import NftItemSaleFees, NftItemSaleData
    addr_eq = lambda a, spec: lm_lib_addr(a) == spec_addr(spec, seed)      # noqa
    for fa, fee, ra, roy in ((A0, 0, A1, 1), (['none'], (1 << 120) - 1, ['std', -1, 'n', [3, 5]], 255), (A1, 256, ['none'], 0)):
        fbits = enc_addr(fa, seed) + RB.coins(fee) + enc_addr(ra, seed) + RB.coins(roy)
        mkfees = lambda fa=fa, fee=fee, ra=ra, roy=roy: NftItemSaleFees(lib_addr(fa, seed), fee, lib_addr(ra, seed), roy)     # noqa
        check('NftItemSaleFees', (fa[0], fee, ra[0], roy), mkfees(), fbits, (), NftItemSaleFees.deserialize,
              lambda x, fa=fa, fee=fee, ra=ra, roy=roy: (x.marketplace_fee, x.royalty_amount) == (fee, roy) and addr_eq(x.marketplace_fee_address, fa) and addr_eq(x.royalty_address, ra))
        for complete, created, price, ext in ((False, 0, 0, False), (True, (1 << 32) - 1, (1 << 120) - 1, True), (True, 1, 256, False)):
            bits = str(int(complete)) + RB.uint(created, 32) + enc_addr(A0, seed) + enc_addr(fa, seed) + enc_addr(ra, seed) + RB.coins(price) + str(int(ext))
            check('NftItemSaleData', (complete, created, price, ext, fa[0], ra[0]),
                  NftItemSaleData(complete, created, lib_addr(A0, seed), lib_addr(fa, seed), lib_addr(ra, seed), price, mkfees(), ext), bits, (RC.RCell(fbits),), NftItemSaleData.deserialize,
                  lambda x, complete=complete, created=created, price=price, ext=ext, fa=fa, ra=ra, fee=fee: (bool(x.is_complete), x.created_at, x.full_price, bool(x.can_deploy_by_external)) ==
                  (complete, created, price, ext) and addr_eq(x.nft_address, fa) and addr_eq(x.nft_owner_address, ra) and x.fees_cell.marketplace_fee == fee)
    # wallet_message$_ send_mode:uint8 message:^MessageAny ; highload_wallet_data#_ wallet_id:uint32 last_cleaned:uint64 public_key:bits256
    # old_queries:(HashmapE 64 WalletMessage)
    msgs = []
    for hi, bb in ((0, 8), (5, 0), (11, 40)):
        h = headers()[hi]
        body = body_cell(bb, 0, seed)
        mcell = dict(placements(h, None, body, seed))
        mref = next(iter(mcell.values()))
        msgs.append((lib_message(h, None, body, seed), lm_spec(h, None, body, seed)))
    for mode, (m, mspec) in zip((0, 3, 255), msgs):
        mc = from_lib(m.serialize())
        check('WalletMessage', mode, WalletMessage(mode, m), RB.uint(mode, 8), (mc,), WalletMessage.deserialize,
              lambda x, mode=mode, mspec=mspec: x is not None and x.send_mode == mode and lm_lib(x.message) == mspec)
    for wid, lc in ((0, 0), (698983191, (1 << 64) - 1)):
        for nq in (0, 1, 2):
            queries = {((1 << 63) + 7 * q if q else 0): WalletMessage(3 + q, msgs[q][0]) for q in range(nq)}
            base = RB.uint(wid, 32) + RB.uint(lc, 64) + RB.bytes_bits(pk)
            if nq:
                root = RH.build({k: (RB.uint(w.send_mode, 8), (from_lib(w.message.serialize()),)) for k, w in queries.items()}, 64)
                bits, refs = base + '1', (root,)
            else:
                bits, refs = base + '0', ()
            check('HighloadWalletData', (wid, lc, nq), HighloadWalletData(wid, lc, pk, queries if nq else None), bits, refs, HighloadWalletData.deserialize,
                  lambda x, wid=wid, lc=lc, queries=queries: (x.wallet_id, x.last_cleaned, x.public_key) == (wid, lc, pk) and
                  {k: (v.send_mode, lm_lib(v.message)) for k, v in (x.old_queries or {}).items()} == {k: (v.send_mode, lm_lib(v.message)) for k, v in queries.items()})
    for oh, nh in ((bytes(32), b'\xff' * 32), (filler(seed, 'c15-oh', 32), filler(seed, 'c15-nh', 32))):
        check('HashUpdate', oh[:2].hex(), HashUpdate(oh, nh), '01110010' + RB.bytes_bits(oh) + RB.bytes_bits(nh), (), HashUpdate.deserialize, lambda x, oh=oh, nh=nh: (x.old_hash, x.new_hash) == (oh, nh))
    rec.sample({'wrapper': 'CurrencyCollection', 'grams': 256, 'extra': {5: 256}, 'reference_bits': RB.coins(256) + '1'})


def case_isolation(rec):
    """independently constructed values do not share mutable state: the caller edits the extra-currency dictionary of ONE
    collection in place (every order of: create a, create b, edit a, create c); every other collection - and messages built
    from them - still serialise as before"""
    from pytoniq_core.tlb.block import CurrencyCollection, ExtraCurrencyCollection
    from pytoniq_core.tlb.transaction import MessageAny, InternalMsgInfo
    from pytoniq_core.boc import HashMap
    seed = rec.seed
    rec.covered('isolation')

    def bits(cc):
        c = cc.serialize()
        return c.bits.to01(), len(c.refs)
    for ctor_name, mk in (('CurrencyCollection(g)', lambda g: CurrencyCollection(g)), ('CurrencyCollection(g, None)', lambda g: CurrencyCollection(g, None)),
                          ('CurrencyCollection(g, ExtraCurrencyCollection({}))', lambda g: CurrencyCollection(g, ExtraCurrencyCollection({})))):
        for order in ('ab-edit-c', 'a-edit-bc', 'abc-edit'):
            rec.case('isolation')
            rec.state(('iso', ctor_name, order))
            rec.nontriv(('iso', ctor_name, order))
            rec.trans(6)
            try:
                a = mk(5)
                b = mk(7) if order != 'a-edit-bc' else None
                c = mk(9) if order == 'abc-edit' else None
                a.other.dict[3] = 1000          # the caller's own collection
                if b is None:
                    b = mk(7)
                if c is None:
                    c = mk(9)
                msg = MessageAny(InternalMsgInfo(True, False, False, lib_addr(A0, seed), lib_addr(A1, seed), mk(11), 0, 0, 0, 0), None, cell_to_lib(RC.RCell('1')))
                got = (bits(b), bits(c), msg.serialize().begin_parse().remaining_refs)
                want = ((RB.coins(7) + '0', 0), (RB.coins(9) + '0', 0), 0)
                rec.trace()
                if got != want:
                    rec.violation('isolation:currency', f'{ctor_name}, order {order}: after editing the extra currencies of one collection, independently built collections / '
                                  f'messages carry them too ({got} vs {want})', 'case_isolation', {})
                if bits(a) != (RB.coins(5) + '1', 1):
                    rec.violation('isolation:own-edit', f'{ctor_name}: the edited collection itself does not serialise its new entry', 'case_isolation', {})
            except Exception as e:
                rec.violation('isolation:raises', f'{ctor_name}, order {order}: {exc_name(e)}: {e}', 'case_isolation', {})
    # dictionaries built independently
    rec.case('isolation')
    h1, h2 = HashMap(8).with_uint_values(8) if hasattr(HashMap(8), 'with_uint_values') else HashMap(8), HashMap(8)
    try:
        h1.set_int_key(1, 2)
        if h2.map or HashMap(8).map:
            rec.violation('isolation:hashmap', 'independently constructed HashMap objects share their map', 'case_isolation', {})
    except Exception as e:
        rec.violation('isolation:raises', f'HashMap: {exc_name(e)}: {e}', 'case_isolation', {})
    rec.sample({'isolation': 'a = CurrencyCollection(5); b = CurrencyCollection(7); a.other.dict[3] = 1000; b.serialize() unchanged'})


# ------------------------------------------------------------------------------------------ edit histories (explorer S)
# The value objects are plain mutable Python objects: callers build one, serialise it, change a field, serialise again.
# State = the event history, replayed on FRESH objects; after every observing event the cell must be the block.tlb encoding
# of the object's CURRENT fields (nothing remembered from an earlier serialisation).
def _edit_events():
    ev = [('ser_msg',), ('ser_init',), ('ser_value',), ('parse_msg',)]
    ev += [('init', 'split_depth', v) for v in (None, 0, 31)]
    ev += [('init', 'special', v) for v in (None, [True, False], [False, True])]
    ev += [('init', 'code', v) for v in (None, 0, 1)]
    ev += [('init', 'data', v) for v in (None, 1)]
    ev += [('init', 'library', v) for v in (None, 2)]
    ev += [('tick', True), ('tick', False)]                      # in-place edit of the TickTock object held by the init
    ev += [('grams', 0), ('grams', (1 << 120) - 1)]
    ev += [('extra_put', 9, 5), ('extra_put', 9, 300), ('extra_put', 9, 0), ('extra_del', 9), ('extra_new',)]
    ev += [('info', 'bounce', 0), ('info', 'ihr_fee', 255), ('info', 'created_lt', 1 << 63), ('dest', 1), ('src_anycast',)]
    ev += [('body', 0, 0), ('body', 700, 1), ('msg_init', False), ('msg_init', True)]
    return ev


EDIT_EVENTS = _edit_events()
OBSERVERS = {'ser_msg', 'ser_init', 'ser_value', 'parse_msg'}


def case_edit_history(rec, hist):
    """hist: list of indexes into EDIT_EVENTS"""
    from pytoniq_core.tlb.transaction import MessageAny
    from pytoniq_core.tlb.account import TickTock
    from pytoniq_core.tlb.block import ExtraCurrencyCollection
    seed = rec.seed
    h = dict(headers()[0])
    h['extra'] = {}
    h['f'] = list(h['f'])
    i = dict(inits()[1 + 4 + 2])            # split_depth 31, special (False, True), code: present from the start
    i['special'] = list(i['special'])
    body = body_cell(9, 1, seed)
    msg = lib_message(h, i, body, seed)
    init = msg.init
    has_init = True
    args = {'hist': list(hist)}
    names = [EDIT_EVENTS[k] for k in hist]
    rec.case('edit-history')
    rec.state(('edit', tuple(hist)))
    rec.nontriv(('edit', tuple(hist)))
    for step, e in enumerate(names):
        rec.trans()
        what = f'history {names[:step + 1]}'
        try:
            if e[0] == 'init':
                i[e[1]] = e[2] if e[1] != 'special' or e[2] is None else list(e[2])
                if e[1] == 'special':
                    init.special = None if e[2] is None else TickTock(*e[2])
                elif e[1] == 'split_depth':
                    init.split_depth = e[2]
                else:
                    setattr(init, e[1], None if e[2] is None else cell_to_lib(CODE_CELLS[e[2]]))
            elif e[0] == 'tick':
                if init.special is None:
                    continue
                init.special.tick = e[1]
                i['special'][0] = e[1]
            elif e[0] == 'grams':
                msg.info.value.grams = e[1]
                h['grams'] = e[1]
            elif e[0] == 'extra_put':
                msg.info.value.other.dict[e[1]] = e[2]
                h['extra'] = dict(h['extra'], **{str(e[1]): e[2]})
            elif e[0] == 'extra_del':
                msg.info.value.other.dict.pop(e[1], None)
                h['extra'] = {k: v for k, v in h['extra'].items() if k != str(e[1])}
            elif e[0] == 'extra_new':
                msg.info.value.other = ExtraCurrencyCollection({3: 1})
                h['extra'] = {'3': 1}
            elif e[0] == 'info':
                setattr(msg.info, e[1], bool(e[2]) if e[1] == 'bounce' else e[2])
                if e[1] == 'bounce':
                    h['f'][1] = e[2]
                else:
                    h[{'ihr_fee': 'ihr', 'created_lt': 'lt'}[e[1]]] = e[2]
            elif e[0] == 'dest':
                msg.info.dest = lib_addr(A1, seed)
                h['dest'] = A1
            elif e[0] == 'src_anycast':
                msg.info.src.set_anycast(3, 5)
                h['src'] = [h['src'][0], h['src'][1], h['src'][2], [3, 5]]
            elif e[0] == 'body':
                body = body_cell(e[1], e[2], seed)
                msg.body = cell_to_lib(body)
            elif e[0] == 'msg_init':
                has_init = e[1]
                msg.init = init if has_init else None
            elif e[0] == 'ser_init':
                c = init.serialize()
                rec.trace()
                if (c.bits.to01(), tuple(r.hash for r in c.refs)) != (enc_init(i)[0], tuple(r.hash() for r in enc_init(i)[1])):
                    rec.violation('edit:StateInit', f'{what}: StateInit.serialize() is not the encoding of the object\'s current fields {lm_init_spec(i)}', 'case_edit_history', args)
                    return
            elif e[0] == 'ser_value':
                c = msg.info.value.serialize()
                rec.trace()
                eb, er = enc_extra(h['extra'])
                if (c.bits.to01(), tuple(r.hash for r in c.refs)) != (RB.coins(h['grams']) + eb, tuple(r.hash() for r in er)):
                    rec.violation('edit:CurrencyCollection', f'{what}: CurrencyCollection.serialize() is not the encoding of its current grams / extra currencies', 'case_edit_history', args)
                    return
            else:
                c = msg.serialize()
                want = lm_spec(h, i if has_init else None, body, seed)
                got, _ = lm_ref(from_lib(c))
                rec.trace()
                if got != want:
                    rec.violation('edit:message', f'{what}: MessageAny.serialize() does not decode (per schema) to the message\'s current fields', 'case_edit_history', args)
                    return
                if e[0] == 'parse_msg':
                    back = lm_lib(MessageAny.deserialize(c.begin_parse()))
                    if back != want:
                        rec.violation('edit:parse', f'{what}: parsing the serialised message gives another message', 'case_edit_history', args)
                        return
        except RTLB.TlbError as ex:
            rec.violation('edit:schema', f'{what}: result does not follow the schema: {ex}', 'case_edit_history', args)
            return
        except Exception as ex:
            rec.violation('edit:raises', f'{what}: {exc_name(ex)}: {ex}', 'case_edit_history', args)
            return
    rec.outcome('edit-ok')


def shard_edit(rec, first, depth):
    """every history of <= depth events that starts with event `first` and ends with an observer"""
    n = len(EDIT_EVENTS)
    obs = [k for k, e in enumerate(EDIT_EVENTS) if e[0] in OBSERVERS]
    rec.covered('edit-history')
    for d in range(1, depth + 1):
        for mid in itertools.product(range(n), repeat=max(0, d - 2)):
            for last in (obs if d >= 2 else [first] if first in obs else []):
                hist = [first] + list(mid) + ([last] if d >= 2 else [])
                case_edit_history(rec, hist)
    if first == 0:
        rec.sample({'edit_history': [list(EDIT_EVENTS[k]) for k in (1, 4, 1)], 'events': len(EDIT_EVENTS), 'depth': depth})


def selftest():
    S = schema()
    h = headers()[2]
    body = body_cell(100, 2, 0)
    for name, rc in placements(h, inits()[32], body, 0):
        got, _ = lm_ref(rc)
        assert got == lm_spec(h, inits()[32], body, 0), name
    # every header leaves room for the three flag bits
    for h in headers():
        assert len(enc_header(h, 0)[0]) + 3 <= 1023


def case_parsed_edits(rec):
    """wave 10: objects that CAME OUT of the parser are the caller's - editing one in place (a special's tick / tock, a split depth)
    does not change what the parser returns next time, for the same cell or for another one.  State-inits with every (tick, tock) pair x two
    cells each; every ordered pair (first parsed and edited, then parsed)."""
    from pytoniq_core.tlb.account import StateInit, TickTock
    from pytoniq_core.boc import Builder
    rec.case('parsed-edits')
    code = [Builder().store_uint(i + 1, 8).end_cell() for i in range(2)]
    inits_ = [(t, k, ci, StateInit(split_depth=3 + ci, special=TickTock(t, k), code=code[ci]).serialize()) for t in (False, True) for k in (False, True) for ci in (0, 1)]
    n = 0
    for (t1, k1, c1, cell1) in inits_:
        for (t2, k2, c2, cell2) in inits_:
            rec.trans(2)
            n += 1
            try:
                a = StateInit.deserialize(cell1.begin_parse())
                ok_a = (a.special.tick, a.special.tock, a.split_depth) == (t1, k1, 3 + c1)
                a.special.tick = not a.special.tick          # the caller edits what it was given
                a.special.tock = not a.special.tock
                a.split_depth = 30
                b = StateInit.deserialize(cell2.begin_parse())
                ok_b = (b.special.tick, b.special.tock, b.split_depth) == (t2, k2, 3 + c2)
                again = b.serialize().hash == cell2.hash
            except Exception as e:
                rec.violation('parsed-edits:raises', f'state-init (tick {t1}, tock {k1}) parsed and edited, then (tick {t2}, tock {k2}) parsed: {exc_name(e)}: {e}', 'case_parsed_edits', {})
                return
            if not (ok_a and ok_b and again):
                rec.violation('parsed-edits:state-init', f'a state-init with special (tick {t1}, tock {k1}) was parsed and the PARSED object edited in place; a state-init with special '
                              f'(tick {t2}, tock {k2}) parsed afterwards comes back as (tick {b.special.tick}, tock {b.special.tock}, split_depth {b.split_depth}) / serialises to '
                              f'{"the same" if again else "another"} cell', 'case_parsed_edits', {})
                rec.outcome('PARSED-EDIT-LEAKS')
                return
    rec.trace(n)
    rec.state(('parsed-edits', n))
    rec.nontriv(('parsed-edits', n))
    rec.covered('parsed-edits')
    rec.outcome('ok')


def shards(tier, seed):
    out = [{'fn': 'case_wrappers', 'args': {}}, {'fn': 'case_isolation', 'args': {}}, {'fn': 'case_parsed_edits', 'args': {}}]
    for first in range(len(EDIT_EVENTS)):
        out.append({'fn': 'shard_edit', 'args': {'first': first, 'depth': 3 if tier == 'quick' else 4}, 'prio': 1})
    for hi in range(len(headers())):
        for p in range(2):
            out.append({'fn': 'shard_messages', 'args': {'hi': hi, 'part': p, 'parts': 2}, 'prio': 2})
    if tier == 'thorough':
        # EVERY body bit length 0..1023 x 0..4 references for EVERY (header, state-init) pair
        for hi in range(len(headers())):
            for ii in range(len(inits())):
                out.append({'fn': 'shard_all_lengths', 'args': {'hi': hi, 'ii': ii, 'part': 0, 'parts': 1}, 'prio': 1})
    return out
