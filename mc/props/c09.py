"""C09 - dictionary (HashMap) serialise/parse round trip (explorer E)."""
import hashlib, itertools
from ..ref import cell as RC
from ..ref import bits as RBITS
from ..ref import hashmap as RH
from .common import to_lib, exc_name, filler

ID = 'C09'
TITLE = 'Dictionary (HashMap) serialise/parse round trip'
EXPLORER = 'E (all key sets for widths <= 4, all insertion orders for small sets, divergence-pattern key sets for wide keys)'
RULE = ('widths 1..3: EVERY non-empty key set, every insertion order for sets of <= 4 keys (ascending/descending/rotated beyond); width 4: every key '
        'set of size <= 3 and >= 14 plus every 16th of the 65535 sets (quick) / all 65535 sets (thorough) x 2 orders; widths {8,16,32,64,256,267,'
        '1023}: key sets generated from divergence patterns (single entry, all-zero/all-one keys, first/last-bit divergence, dense prefixes); key '
        'forms int, bytes, bit string, Address, hashed string; value kinds uint, int, coins, address, cell. Round trip through HashMap.parse, '
        'HashMap.from_cell, Slice.load_hashmap, store_dict -> load_dict / preload_dict: same pairs, ascending iteration order; empty map <-> None; '
        'keys 2^w, 2^w+1, -1, -2^w must be refused and leave the map unchanged. non-trivial = at least 2 keys; states = distinct (width, key set, '
        'value kind); transitions = serialise/parse calls; traces = parsed maps compared with the reference map')
RULE += ' Fifth session: value functions that are not injective (constant, low bit(s) of the key; for widths <= 3 EVERY assignment of two values to the keys): equal sub-tries are equal cells; HashMap.from_cell(cell).serialize() is the cell again.'
LEVEL_TEXT = ('Bounded-exhaustive: all key sets of widths 1..4 (thorough; quick a declared subset of width 4), all insertion orders of small sets, '
              'and divergence-pattern families for wide keys are serialised and parsed back through every entry point with the real code; results '
              'are compared with the input map and, for the produced cell, with an independent Patricia-trie parser.')
LEVEL_NOTE = 'trusted: mc/ref/hashmap.py parser (cross-check of the produced cell); wide key sets by divergence patterns'
TECHNIQUE = 'small-scope exhaustive enumeration of key sets and insertion orders, round trip compared with a reference trie model'
RULE += ' Per map additionally: HashMap.parse with key deserialisers (identity on the bit string - must receive exactly `width` bits -, signed integer), and an optional dictionary as one field among others: store_dict, store_dict, store_ref, 3 bits -> load_dict, load_dict, load_ref, load_uint.'
ASSUMPTIONS = ['keys wider than 4 bits are covered by divergence patterns, not all subsets']
NOT_ASSERTED = ['behaviour of value serialisers on values they cannot encode']
RULE += ' Sixth session: edits through the public .map after serialize() (item assignment, pop, clear, a new dict) and serialize() again; key FORMS longer than the key (bit strings of more than width characters, byte strings of more whole bytes than the width needs) are refused; bad keys written into the map after it was serialised once (three routes).'


def BOUNDS(tier):
    return {'all_key_sets_up_to_width': 4 if tier == 'thorough' else 3, 'width4_sets': 'all 65535' if tier == 'thorough' else 'size<=3, size>=14, every 16th',
            'wide_widths': [8, 16, 32, 64, 256, 267, 1023], 'exhaustive': True}


def REQUIRED_COVER(tier):
    return {'width:1', 'width:4', 'width:1023', 'order:all-permutations', 'keyform:address', 'keyform:hashed', 'empty', 'badkey', 'value:cell', 'entry:preload_dict', 'values:two-valued-all'}


def val_for(k, kind, seed=0):
    """(python value, reference bits, refs) for key k"""
    if kind == 'uint':
        v = (k * 37 + 11) % 65536
        return v, RBITS.uint(v, 16), ()
    if kind == 'int':
        v = ((k * 53) % 4001) - 2000
        return v, RBITS.sint(v, 13), ()
    if kind == 'coins':
        v = (k * k * 1000003 + 1) % (1 << 70) if k % 3 else 0
        return v, RBITS.coins(v), ()
    # value FUNCTIONS that are not injective: equal values under different keys make equal sub-tries (one shared cell in a bag)
    if kind == 'const':
        return 5, RBITS.uint(5, 16), ()
    if kind == 'low1':
        v = 40000 + (k & 1)
        return v, RBITS.uint(v, 16), ()
    if kind == 'low2':
        v = 7 + (k & 3)
        return v, RBITS.uint(v, 16), ()
    if kind.startswith('two:'):          # 'two:<mask>': value A or B chosen per key by the mask - all of them = every map into a 2-value alphabet
        v = 0xA000 + (int(kind[4:]) >> (k % 64) & 1)
        return v, RBITS.uint(v, 16), ()
    raise ValueError(kind)


def make_map(width, keys, kind):
    from pytoniq_core.boc import HashMap
    hm = HashMap(width)
    if kind in ('uint', 'const', 'low1', 'low2') or kind.startswith('two:'):
        hm.with_uint_values(16)
    elif kind == 'int':
        hm.with_int_values(13)
    elif kind == 'coins':
        hm.with_coins_values()
    return hm


class _Deser(dict):
    def __missing__(self, kind):
        return self['uint']


DESER = _Deser({
    'uint': lambda s: s.load_uint(16),
    'int': lambda s: s.load_int(13),
    'coins': lambda s: s.load_coins(),
})


def case_map(rec, width, keys, kind, check_entries=True):
    """keys: list in insertion order"""
    from pytoniq_core.boc import HashMap, Builder, Slice
    rec.case('map')
    args = {'width': width, 'keys': [str(k) for k in keys], 'kind': kind}
    keys = [int(k) for k in keys]
    want = {k: val_for(k, kind)[0] for k in keys}
    refmap = {k: val_for(k, kind)[1] for k in keys}
    try:
        hm = make_map(width, keys, kind)
        for k in keys:
            hm.set_int_key(k, want[k])
        cell = hm.serialize()
        rec.trans()
    except Exception as e:
        try:
            RH.build(refmap, width)
        except RH.RefDictError:
            rec.outcome('does-not-fit-both')
            return
        rec.violation('serialize-raises', f'width {width}, keys {keys[:8]}..: serialize raised {exc_name(e)}: {e}', 'case_map', args)
        return
    if cell is None:
        rec.violation('serialize-none', f'width {width}: non-empty map serialised to None', 'case_map', args)
        return
    # the produced cell, read by the independent parser
    try:
        leaves, _ = RH.parse(RC.RCell(cell.bits.to01(), tuple(_rc(r) for r in cell.refs)), width)
        got_ref = {k: v[0] for k, v in leaves.items()}
        if got_ref != refmap:
            rec.violation('cell-content', f'width {width}, keys {keys[:8]}: the produced cell holds other pairs according to the reference parser', 'case_map', args)
            return
    except (RH.RefDictError, RC.RefCellError) as e:
        rec.violation('cell-malformed', f'width {width}, keys {keys[:8]}: produced cell is not a valid Hashmap: {e}', 'case_map', args)
        return
    rec.trace()
    # serialising is an observation: the map is unchanged and a second serialisation gives the same cell
    try:
        if dict(hm.map) != {k: want[k] for k in keys} or list(hm.map) != keys:
            rec.violation('serialize-mutates-map', f'width {width}, keys {keys[:8]}: serialize() changed the map (entries or their order)', 'case_map', args)
        elif hm.serialize().hash != cell.hash:
            rec.violation('serialize-not-repeatable', f'width {width}, keys {keys[:8]}: a second serialize() gives another cell', 'case_map', args)
    except Exception as e:
        rec.violation('serialize-not-repeatable', f'width {width}, keys {keys[:8]}: second serialize() raised {exc_name(e)}: {e}', 'case_map', args)
    # the map keeps being used after it was serialised: add a key, overwrite a value - each through both public setters -
    # and serialise again: the new cell must hold the new map (no stale result carried over from the earlier call)
    try:
        free = next((k for k in range(1 << min(width, 12)) if k not in want), None)
        steps_ = [('set_int_key:new', free), ('set:overwrite', keys[0]), ('set_int_key:overwrite', keys[-1]), ('set:new', free if free is None else next((k for k in range(free + 1, 1 << min(width, 12)) if k not in want), None))]
        cur = dict(refmap)
        for tag, k in steps_:
            if k is None:
                continue
            vv_ = val_for(k ^ 1 if 'overwrite' in tag else k, kind)
            v_lib, v_ref = vv_[0], vv_[1]
            if tag.startswith('set_int_key'):
                hm.set_int_key(k, v_lib)
            else:
                hm.set(k, v_lib)
            cur[k] = v_ref
            c2 = hm.serialize()
            rec.trans()
            leaves2, _ = RH.parse(RC.RCell(c2.bits.to01(), tuple(_rc(r) for r in c2.refs)), width)
            if {kk: vv[0] for kk, vv in leaves2.items()} != cur:
                rec.violation(f'incremental:{tag}', f'width {width}, keys {keys[:8]}: after serialize() and then {tag}({k}) a new serialize() does not hold the new map '
                              f'(a result of the earlier call is reused?)', 'case_map', args)
                break
            rec.covered('incremental')
        # ... and through the public .map dictionary itself (item assignment, pop, a new dict object) - sixth session
        nk = next((k for k in range(1 << min(width, 12)) if k not in cur), None)
        for tag in ('map-item:new', 'map-item:overwrite', 'map-pop', 'map-assign', 'map-pop-all'):
            if tag == 'map-item:new':
                if nk is None:
                    continue
                vv_ = val_for(nk, kind)
                hm.map[nk] = vv_[0]
                cur[nk] = vv_[1]
            elif tag == 'map-item:overwrite':
                k = sorted(cur)[0]
                vv_ = val_for(k ^ 3, kind)
                hm.map[k] = vv_[0]
                cur[k] = vv_[1]
            elif tag == 'map-pop':
                if len(cur) < 2:
                    continue
                k = sorted(cur)[-1]
                hm.map.pop(k)
                cur.pop(k)
            elif tag == 'map-assign':
                k = sorted(cur)[0]
                vv_ = val_for(k ^ 5, kind)
                hm.map = {k: vv_[0]}
                cur = {k: vv_[1]}
            else:
                hm.map.clear()
                cur = {}
            c2 = hm.serialize()
            rec.trans()
            if not cur:
                if c2 is not None:
                    rec.violation(f'incremental:{tag}', f'width {width}, keys {keys[:8]}: after the map was emptied through .map, serialize() still returns a cell', 'case_map', args)
                    break
                continue
            leaves2, _ = RH.parse(RC.RCell(c2.bits.to01(), tuple(_rc(r) for r in c2.refs)), width)
            if {kk: vv[0] for kk, vv in leaves2.items()} != cur:
                rec.violation(f'incremental:{tag}', f'width {width}, keys {keys[:8]}: after serialize() and then an edit of .map ({tag}) a new serialize() does not hold the new map '
                              f'(a result of the earlier call is reused?)', 'case_map', args)
                break
            rec.covered('incremental:map')
    except (RH.RefDictError, RC.RefCellError) as e:
        rec.violation('incremental:malformed', f'width {width}, keys {keys[:8]}: cell after an update is not a valid Hashmap: {e}', 'case_map', args)
    except Exception as e:
        try:
            RH.build(cur, width)
            rec.violation('incremental:raises', f'width {width}, keys {keys[:8]}: update after serialize raised {exc_name(e)}: {e}', 'case_map', args)
        except RH.RefDictError:
            pass
    entries = [('parse', lambda: HashMap.parse(cell.begin_parse(), width, None, DESER[kind]))]
    if check_entries:
        entries += [
            ('load_hashmap', lambda: cell.begin_parse().load_hashmap(width, None, DESER[kind])),
            ('from_cell', lambda: {k: DESER[kind](v) for k, v in HashMap.from_cell(cell, width).map.items()}),
            ('load_dict', lambda: Builder().store_dict(cell).end_cell().begin_parse().load_dict(width, None, DESER[kind])),
            ('preload_dict', lambda: Builder().store_uint(1, 1).store_dict(cell).end_cell().begin_parse().skip_bits(1).preload_dict(width, None, DESER[kind])),
        ]
    if check_entries:
        # key deserialisers receive the full key: `width` bits, leading zeros included
        def bitkeys():
            got = HashMap.parse(cell.begin_parse(), width, lambda bits: bits, DESER[kind])
            bad = [k for k in got if not isinstance(k, str) or len(k) != width]
            if bad:
                raise AssertionError(f'key deserializer was handed {bad[0]!r} for a {width}-bit key')
            return {int(k, 2): v for k, v in got.items()}

        def signedkeys():
            got = HashMap.parse(cell.begin_parse(), width, lambda bits: Builder().store_bits(bits).end_cell().begin_parse().load_int(width), DESER[kind])
            return {k % (1 << width): v for k, v in got.items()}

        def two_dicts():
            # an optional dictionary is ONE field among others: a second dictionary and a plain reference follow it
            # (same key set - it is known to fit - with other values)
            hm2 = make_map(width, keys, kind)
            for k in keys:
                hm2.set_int_key(k, val_for(k + 7, kind)[0])
            cell2 = hm2.serialize()
            marker = Builder().store_uint(0xA5, 8).end_cell()
            s = Builder().store_dict(cell).store_dict(cell2).store_ref(marker).store_uint(5, 3).end_cell().begin_parse()
            d1 = s.load_dict(width, None, DESER[kind])
            d2 = s.load_dict(width, None, DESER[kind])
            r = s.load_ref()
            tail = s.load_uint(3)
            if d2 != {k: val_for(k + 7, kind)[0] for k in keys}:
                raise AssertionError(f'second dictionary of the same cell came back as {str(d2)[:100]}')
            if r.hash != marker.hash or tail != 5 or s.remaining_refs or s.remaining_bits:
                raise AssertionError('the reference / bits that follow two dictionaries are not what was stored')
            return d1
        def reserialize():
            # a dictionary object obtained from a cell is a dictionary: serialising it gives the cell back (values are the slices it read)
            h2 = HashMap.from_cell(cell, width)
            c2 = h2.serialize()
            if c2 is None or c2.hash != cell.hash or h2.serialize().hash != cell.hash:
                raise AssertionError('HashMap.from_cell(cell).serialize() is not the cell it was read from')
            return want
        entries += [('parse:bit-string-keys', bitkeys), ('two-dicts-then-ref', two_dicts), ('from_cell:reserialize', reserialize)]
        if width <= 257:
            entries.append(('parse:signed-keys', signedkeys))
    for name, thunk in entries:
        rec.trans()
        try:
            got = thunk()
        except Exception as e:
            rec.violation(f'parse-raises:{name}', f'width {width}, keys {keys[:8]}: {name} raised {exc_name(e)}: {e}', 'case_map', args)
            continue
        rec.covered(f'entry:{name}')
        if got != want:
            rec.violation(f'roundtrip:{name}', f'width {width}, keys {keys[:8]} ({kind}): {name} returned {str(got)[:120]}, stored {str(want)[:120]}', 'case_map', args)
            rec.outcome('DIFFERENT')
        elif list(got.keys()) != sorted(want):
            rec.violation(f'order:{name}', f'width {width}: keys come back as {list(got.keys())[:10]}, not ascending', 'case_map', args)
        rec.trace()
    rec.covered(f'width:{width}')
    rec.state((width, tuple(sorted(keys)), kind))
    if len(keys) >= 2:
        rec.nontriv((width, tuple(sorted(keys)), kind))
    rec.outcome('same')


def _rc(libcell):
    return RC.RCell(libcell.bits.to01(), tuple(_rc(r) for r in libcell.refs), libcell.type_ != -1)


def shard_small(rec, width, part=0, parts=1):
    """every non-empty key set; every insertion order for |S| <= 4"""
    universe = list(range(1 << width))
    kinds = ['uint', 'int', 'coins']
    n = 0
    for mask in range(1, 1 << len(universe)):
        if mask % parts != part:
            continue
        keys = [k for k in universe if mask >> k & 1]
        kind = kinds[mask % 3]
        if len(keys) <= 4:
            for perm in itertools.permutations(keys):
                case_map(rec, width, list(perm), kind, check_entries=(perm == tuple(keys)))
            rec.covered('order:all-permutations')
        else:
            case_map(rec, width, keys, kind)
            case_map(rec, width, keys[::-1], kind, check_entries=False)
            case_map(rec, width, keys[3:] + keys[:3], kind, check_entries=False)
        # every map from this key set into a two-value alphabet (equal values under different keys: equal sub-tries)
        for vm in range(1 << len(keys)):
            spread = sum(1 << k for j, k in enumerate(keys) if vm >> j & 1)
            case_map(rec, width, keys, f'two:{spread}', check_entries=(vm % 4 == 0))
            rec.covered('values:two-valued-all')
        n += 1
    rec.sample({'width': width, 'key_sets': n, 'insertion_orders': 'all permutations for <= 4 keys', 'values': 'injective per kind + every assignment of two values to the keys'})


def shard_w4(rec, part, parts, full):
    kinds = ['uint', 'int', 'coins']
    for mask in range(1, 1 << 16):
        if mask % parts != part:
            continue
        size = bin(mask).count('1')
        if not full and not (size <= 3 or size >= 14 or mask % 16 == 5):
            continue
        keys = [k for k in range(16) if mask >> k & 1]
        kind = kinds[mask % 3]
        case_map(rec, 4, keys, kind, check_entries=(size <= 2 or mask % 64 == 5))
        case_map(rec, 4, keys[::-1], kind, check_entries=False)
        case_map(rec, 4, keys, ('const', 'low1', 'low2')[(mask // 3) % 3], check_entries=(mask % 64 == 5))
    rec.sample({'width': 4, 'keys': [0, 5, 15], 'orders': ['ascending', 'descending']})


def shard_wn(rec, width, maxsize, part, parts):
    """every key set of the width with at most maxsize keys, and every complement of one (thorough)"""
    import itertools
    kinds = ['uint', 'int', 'coins']
    n = 1 << width
    i = 0
    for size in range(1, maxsize + 1):
        for keys in itertools.combinations(range(n), size):
            i += 1
            if i % parts != part:
                continue
            case_map(rec, width, list(keys), kinds[i % 3], check_entries=(i % 50 == 0))
            if size >= 2:
                case_map(rec, width, list(keys)[::-1], kinds[i % 3], check_entries=False)
                case_map(rec, width, list(keys), ('const', 'low1', 'low2')[(i // 3) % 3], check_entries=False)
            if size <= 2 and width <= 6:
                comp = [k for k in range(n) if k not in keys]
                case_map(rec, width, comp, kinds[i % 3], check_entries=False)
    rec.sample({'width': width, 'keys': [0, n // 2, n - 1], 'family': f'all key sets of size <= {maxsize} and complements of sets of size <= 2'})


def wide_key_sets(w, seed):
    """divergence patterns for width w"""
    top = (1 << w) - 1
    f = int.from_bytes(filler(seed, f'c09-{w}', (w + 7) // 8), 'big') & top
    sets = [[0], [top], [f], [0, top], [0, 1], [top, top - 1], [0, 1 << (w - 1)], [f, f ^ 1], [f, f ^ (1 << (w - 1))], [f, f ^ (1 << (w // 2))],
            [0, 1, 2, 3], [top, top - 1, top - 2, top - 3], [0, 1, 1 << (w - 1), top], [f, f ^ 1, f ^ 2, f ^ 3, f ^ (1 << (w - 1))],
            [(i << (w - 3)) for i in range(8)] if w >= 3 else [0],
            [(i << (w - 3)) | (f & ((1 << (w - 3)) - 1)) for i in range(8)] if w >= 3 else [0]]
    if w >= 8:
        sets.append(list(range(16)))
        sets.append([k << (w - 4) for k in range(16)])
        sets.append([f ^ (1 << i) for i in range(0, w, max(1, w // 11))])
    return [sorted(set(s)) for s in sets]


def shard_wide(rec, width):
    for si, keys in enumerate(wide_key_sets(width, rec.seed)):
        for kind in ('uint', 'coins', 'const', 'low1'):
            case_map(rec, width, keys, kind)
            case_map(rec, width, keys[::-1], kind, check_entries=False)
    rec.sample({'width': width, 'pattern': 'keys differing first at bit 0 / middle / last; dense prefixes'})


# ------------------------------------------------------------------ key forms, value kinds, empty map, bad keys
def shard_forms(rec):
    from pytoniq_core.boc import HashMap, Builder, Address, Cell, begin_cell
    seed = rec.seed
    rec.case('forms')
    # bytes keys (32-bit) and bit-string keys
    hm = HashMap(32).with_uint_values(8)
    want = {}
    for i, b in enumerate([b'\x00\x00\x00\x01', b'\xff\xff\xff\xff', filler(seed, 'k', 4), b'\x80\x00\x00\x00']):
        hm.set(b, i)
        want[int.from_bytes(b, 'big')] = i
    hm.set('00000000000000000000000000000111', 9)
    want[7] = 9
    got = HashMap.parse(hm.serialize().begin_parse(), 32, None, lambda s: s.load_uint(8))
    rec.trans(2)
    rec.trace()
    if got != want:
        rec.violation('keyform:bytes', f'bytes / bit-string keys: got {got}, want {want}', 'shard_forms', {})
    # Address keys (267 bits) with address values
    addrs = [Address((0, filler(seed, f'a{i}', 32))) for i in range(3)] + [Address((-1, bytes(32))), Address((127, b'\xff' * 32))]
    hm = HashMap(267).with_address_values()
    for a in addrs:
        hm.set(a, a)
    cell = hm.serialize()
    got = HashMap.parse(cell.begin_parse(), 267, lambda bits: Builder().store_bits(bits).end_cell().begin_parse().load_address(), lambda s: s.load_address())
    rec.trans(2)
    rec.trace()
    rec.covered('keyform:address')
    if len(got) != len(addrs) or any(got.get(a) != a for a in addrs):
        rec.violation('keyform:address', 'Address keys/values do not round trip', 'shard_forms', {})
    # reference key for an address: 100 + wc(8) + hash
    refkeys = sorted(int(RBITS.addr_std(a.wc, a.hash_part), 2) for a in addrs)
    if sorted(HashMap.from_cell(cell, 267).map.keys()) != refkeys:
        rec.violation('keyform:address-bits', 'Address keys are not the 267-bit addr_std encoding', 'shard_forms', {})
    # hashed string keys
    hm = HashMap(256, value_serializer=lambda src, dest: dest.store_ref(begin_cell().store_snake_string(src).end_cell()))
    names = {'name': 'pytoniq', 'description': 'lib', 'image': 'x' * 300}
    for k, v in names.items():
        hm.set(k, v, hash_key=True)
    got = HashMap.parse(hm.serialize().begin_parse(), 256, None, lambda s: s.load_ref().begin_parse().load_snake_string())
    want = {int.from_bytes(hashlib.sha256(k.encode()).digest(), 'big'): v for k, v in names.items()}
    rec.trans(2)
    rec.trace()
    rec.covered('keyform:hashed')
    if got != want:
        rec.violation('keyform:hashed', 'sha256-hashed string keys do not round trip', 'shard_forms', {})
    # cell values (default serializer stores the cell inline)
    hm = HashMap(8)
    cells = {k: begin_cell().store_uint(k, 9).store_ref(begin_cell().store_uint(k % 8, 3).end_cell()).end_cell() for k in (1, 2, 130)}
    for k, c in cells.items():
        hm.set_int_key(k, c)
    got = HashMap.parse(hm.serialize().begin_parse(), 8)
    rec.covered('value:cell')
    if {k: v.to_cell().hash for k, v in got.items()} != {k: c.hash for k, c in cells.items()}:
        rec.violation('value:cell', 'cell values do not round trip', 'shard_forms', {})
    # key serializer
    hm = HashMap(16, key_serializer=lambda s: int(s), value_serializer=lambda src, dest: dest.store_uint(src, 4))
    hm.set('513', 3).set('2', 4)
    got = HashMap.parse(hm.serialize().begin_parse(), 16, lambda bits: str(int(bits, 2)), lambda s: s.load_uint(4))
    if got != {'2': 4, '513': 3}:
        rec.violation('keyform:serializer', f'custom key serializer/deserializer: {got}', 'shard_forms', {})
    # empty map
    rec.case('empty')
    rec.covered('empty')
    for w in (1, 8, 256):
        e = HashMap(w).with_uint_values(8)
        if e.serialize() is not None:
            rec.violation('empty:serialize', f'empty map of width {w} serialises to a cell', 'shard_forms', {})
        s = Builder().store_dict(None).end_cell()
        if s.bits.to01() != '0' or s.refs:
            rec.violation('empty:store_dict', 'store_dict(None) is not a single 0 bit', 'shard_forms', {})
        if s.begin_parse().load_dict(w) is not None or s.begin_parse().preload_dict(w) is not None:
            rec.violation('empty:load_dict', 'load_dict of an empty HashmapE is not None', 'shard_forms', {})
    rec.state('forms')
    rec.nontriv('forms')
    rec.nontriv('forms2')


def case_badkey(rec, width, key, prefill):
    from pytoniq_core.boc import HashMap
    rec.case('badkey')
    rec.covered('badkey')
    args = {'width': width, 'key': str(key), 'prefill': prefill}
    key = int(key)
    hm = HashMap(width).with_uint_values(8)
    for k in prefill:
        hm.set_int_key(k, k % 256)
    before = dict(hm.map)
    rec.trans()
    try:
        hm.set(key, 1)
        raised = False
    except Exception:
        raised = True
    rec.trace()
    if not raised:
        try:
            cell = hm.serialize()
            got = HashMap.parse(cell.begin_parse(), width, None, lambda s: s.load_uint(8))
            rec.violation('badkey:accepted', f'key {key} does not fit {width} bits but was accepted; the map now parses back as keys {sorted(got)[:6]}', 'case_badkey', args)
        except Exception as e:
            rec.violation('badkey:accepted', f'key {key} does not fit {width} bits but set() accepted it (serialize then raised {exc_name(e)})', 'case_badkey', args)
        rec.outcome('ACCEPTED')
        return
    if dict(hm.map) != before:
        rec.violation('badkey:map-changed', f'refused key {key} still changed the map', 'case_badkey', args)
    rec.outcome('refused')
    rec.state(('badkey', width, key, tuple(prefill)))


def shard_badkeys(rec):
    for width in (1, 2, 3, 4, 8, 16, 64, 256, 267):
        for key in (1 << width, (1 << width) + 1, -1, -(1 << width), -2, (1 << (width + 3)), -(1 << (width - 1))):
            for prefill in ([], [0], [1, (1 << width) - 1]):
                case_badkey(rec, width, key, prefill)
    # bytes key longer than the width
    from pytoniq_core.boc import HashMap
    hm = HashMap(8).with_uint_values(8)
    try:
        hm.set(b'\x01\x00', 1)
        rec.violation('badkey:accepted', '2-byte key accepted by an 8-bit map', 'shard_badkeys', {})
    except Exception:
        pass
    # key FORMS that are longer than the key: a bit string of more than `width` characters, a byte string of more whole bytes than the width
    # needs - also when the extra leading bits are zero (the key would be stored under the shorter key: two different keys, one entry)
    for width in (1, 3, 4, 8, 12, 16, 256):
        forms = [('bit string', '-0'), ('bit string', '+1'), ('bit string', '0b1'), ('bit string', ' 1'), ('bit string', '1_0' if width >= 3 else '1_'), ('bit string', '1\n'),
                 ('bit string', '0' + format(1, f'0{width}b')), ('bit string', '000' + '1' * width), ('bit string', '0' * (width + 1)),
                 ('bytes', bytes(1) + (1).to_bytes((width + 7) // 8, 'big')), ('bytes', bytes(2) + b'\xff' * ((width + 7) // 8)), ('bytes', bytes((width + 7) // 8 + 1))]
        for fname, key in forms:
            for prefill in ([], [1]):
                rec.case('badkey-form')
                rec.state(('badform', width, fname, repr(key)[:40], tuple(prefill)))
                rec.nontriv(('badform', width, fname, repr(key)[:40]))
                hm = HashMap(width).with_uint_values(8)
                for k in prefill:
                    hm.set_int_key(k, 7)
                before = dict(hm.map)
                rec.trans()
                try:
                    hm.set(key, 1)
                except Exception:
                    rec.outcome('refused')
                    if dict(hm.map) != before:
                        rec.violation('badkey:form-partial', f'width {width}: the refused {fname} key {key!r} changed the map', 'shard_badkeys', {})
                    continue
                rec.violation('badkey:form-accepted', f'width {width}: the {fname} key {key!r} ({len(key) * (8 if fname == "bytes" else 1)} bits) was accepted by a {width}-bit map; '
                              f'the map now holds keys {sorted(hm.map)[:4]}', 'shard_badkeys', {})
                rec.outcome('ACCEPTED')
        # forms that DO fit stay accepted: exactly `width` characters, and the shortest byte string that holds `width` bits
        hm = HashMap(width).with_uint_values(8)
        try:
            hm.set(format((1 << width) - 1, f'0{width}b'), 1)
            hm.set((0).to_bytes((width + 7) // 8, 'big'), 2)
            if sorted(hm.map) != sorted({(1 << width) - 1, 0}):
                rec.violation('badkey:form-fit', f'width {width}: fitting bit-string / bytes keys give keys {sorted(hm.map)}', 'shard_badkeys', {})
        except Exception as e:
            rec.violation('badkey:form-fit', f'width {width}: a bit string of exactly {width} characters / the shortest byte string was refused: {exc_name(e)}: {e}', 'shard_badkeys', {})
    rec.covered('badkey:forms')
    # the other ways keys get into a map: the map_ constructor argument and the public .map attribute. Whatever the route, a key that does
    # not fit is refused at the latest when the map is serialised - never written under another key, never a malformed cell
    for width in (1, 3, 8, 64):
        for key in (1 << width, -1, -5, -(1 << width), (1 << width) + 5):
            for route in ('map_', '.map'):
                for prefill in ([], [0, (1 << width) - 1]):
                    rec.case('badkey-route')
                    rec.state(('badroute', width, key, route, tuple(prefill)))
                    rec.nontriv(('badroute', width, key, route, tuple(prefill)))
                    m = {k: 1 for k in prefill}
                    m[key] = 2
                    try:
                        rec.trans()
                        if route == 'map_':
                            hm = HashMap(width, map_=m).with_uint_values(8)
                        else:
                            hm = HashMap(width).with_uint_values(8)
                            hm.map.update(m)
                        cell = hm.serialize()
                    except Exception:
                        rec.outcome('refused')
                        continue
                    try:
                        leaves, _ = RH.parse(_rc(cell), width)
                        got = {k: v[0] for k, v in leaves.items()}
                    except (RH.RefDictError, RC.RefCellError) as e:
                        got = f'a malformed dictionary cell ({e})'
                    rec.violation('badkey:route-accepted', f'width {width}: key {key} given through {route} was accepted; the serialised cell holds {got}', 'shard_badkeys', {})
                    rec.outcome('ACCEPTED')
    rec.covered('badkey:routes')
    # ... and the same bad keys written into the map AFTER it was serialised once (the check must not be made only once per object):
    # through .map item assignment, through the caller's own map_ dictionary, and in the map handed out by from_cell
    for width in (1, 2, 3, 8, 64):
        for key in (1 << width, -1, -(1 << width) + 1 if width > 1 else -2, (1 << width) + 5):
            for route in ('.map[k]', 'map_ owner', 'from_cell().map'):
                rec.case('badkey-late')
                rec.state(('badlate', width, key, route))
                rec.nontriv(('badlate', width, key, route))
                good = {0: 1, (1 << width) - 1: 2}
                try:
                    rec.trans(2)
                    if route == '.map[k]':
                        hm = HashMap(width).with_uint_values(8)
                        for k, v in good.items():
                            hm.set_int_key(k, v)
                        owner = hm.map
                    elif route == 'map_ owner':
                        owner = dict(good)
                        hm = HashMap(width, map_=owner).with_uint_values(8)
                    else:
                        src = HashMap(width).with_uint_values(8)
                        for k, v in good.items():
                            src.set_int_key(k, v)
                        hm = HashMap.from_cell(src.serialize(), width)
                        owner = hm.map
                    first = hm.serialize()
                    again = hm.serialize()
                    assert first.hash == again.hash
                except Exception as e:
                    rec.violation('badkey:late-setup', f'width {width}: a valid map could not be made / serialised twice through {route}: {exc_name(e)}: {e}', 'shard_badkeys', {})
                    continue
                from pytoniq_core.boc import Builder as _B
                owner[key] = (_B().store_uint(7, 8).end_cell().begin_parse() if route == 'from_cell().map' else 7)
                try:
                    cell = hm.serialize()
                except Exception:
                    rec.outcome('refused')
                    continue
                try:
                    leaves, _ = RH.parse(_rc(cell), width)
                    got = {k: v[0] for k, v in leaves.items()}
                except (RH.RefDictError, RC.RefCellError) as e:
                    got = f'a malformed dictionary cell ({e})'
                rec.violation('badkey:late-accepted', f'width {width}: key {key} written through {route} after the map had been serialised was accepted; the serialised cell holds {got}', 'shard_badkeys', {})
                rec.outcome('ACCEPTED')
    rec.covered('badkey:late')
    # an address that carries anycast info is longer than the 267-bit addr_std key: refused, not cut to its first 267 bits
    from pytoniq_core.boc import Address
    for depth, pfx in ((1, 1), (5, 21), (30, 12345)):
        rec.case('badkey-anycast')
        a1, a2 = Address((0, bytes(31) + b'\x01')), Address((0, bytes(31) + b'\x02'))
        a1.set_anycast(depth, pfx)
        a2.set_anycast(depth, pfx)
        hm = HashMap(267).with_uint_values(8)
        try:
            rec.trans()
            hm.set(a1, 1)
            hm.set(a2, 2)
        except Exception:
            rec.outcome('refused')
            continue
        rec.violation('badkey:anycast-address', f'two distinct addresses with anycast ({depth}, {pfx}) were accepted as keys of a 267-bit map and occupy {len(hm.map)} key(s)', 'shard_badkeys', {})
    # ... also when the plain address of the same account was a key before (in this or in another map), and when ONE Address object is used as a
    # key, given anycast info by its owner, and used again (wave 9: a conversion memo keyed by the address, whose equality ignores anycast)
    for n_, (depth, pfx) in enumerate(((1, 0), (7, 99), (30, 1))):
        for scenario in ('plain-twin-first', 'plain-twin-other-map', 'same-object-edited'):
            rec.case('badkey-anycast')
            acc = filler(rec.seed, f'c09-anycast-{n_}-{scenario}', 32)
            plain = Address((0, acc))
            hm = HashMap(267).with_uint_values(8)
            try:
                if scenario == 'plain-twin-first':
                    hm.set(plain, 1)
                    bad = Address((0, acc))
                elif scenario == 'plain-twin-other-map':
                    HashMap(267).with_uint_values(8).set(plain, 1).serialize()
                    bad = Address((0, acc))
                else:
                    hm.set(plain, 1)
                    bad = plain
                bad.set_anycast(depth, pfx)
            except Exception as e:
                rec.violation('badkey:anycast-setup', f'a plain address key was refused: {exc_name(e)}: {e}', 'shard_badkeys', {})
                continue
            rec.trans()
            try:
                hm.set(bad, 2)
            except Exception:
                rec.outcome('refused')
                continue
            rec.violation('badkey:anycast-address', f'an address with anycast ({depth}, {pfx}) was accepted as a key of a 267-bit map ({scenario}: the plain address of the same '
                          f'account had been used as a key before); the map holds {len(hm.map)} key(s)', 'shard_badkeys', {})
    rec.sample({'width': 8, 'bad_keys': [256, 257, -1, -256], 'expect': 'refused, map unchanged'})


def shard_unfit(rec):
    """maps the reference cannot fit in cells must fail on both sides; maps that just fit must succeed"""
    from pytoniq_core.boc import HashMap
    rec.case('fit')
    for width, vbits, ok in ((1023, 0, False), (1000, 1, True), (1006, 0, True), (1012, 0, False), (1011, 0, False), (1010, 0, False), (1008, 0, False), (1007, 0, True)):
        # single key of `width` bits with mixed bits: long label needs 2 + klen + width bits
        key = int('10' * 512, 2) & ((1 << width) - 1) | 1
        refmap = {key: '1' * vbits}
        try:
            RH.build(refmap, width)
            ref_ok = True
        except RH.RefDictError:
            ref_ok = False
        hm = HashMap(width, value_serializer=lambda src, dest: dest.store_bits(src))
        hm.set_int_key(key, '1' * vbits)
        rec.trans()
        try:
            c = hm.serialize()
            lib_ok = True
        except Exception:
            lib_ok = False
        rec.trace()
        if ref_ok != lib_ok:
            rec.violation('fit', f'width {width} single mixed key + {vbits} value bits: reference fits={ref_ok}, library fits={lib_ok}', 'shard_unfit', {})
        rec.state(('fit', width, vbits))
    rec.covered('width:1023')
    # width 1023 with an all-zero key fits (same label)
    hm = HashMap(1023).with_uint_values(8)
    hm.set_int_key(0, 5).set_int_key((1 << 1023) - 1, 6).set_int_key(1 << 1022, 7)
    got = HashMap.parse(hm.serialize().begin_parse(), 1023, None, lambda s: s.load_uint(8))
    if got != {0: 5, 1 << 1022: 7, (1 << 1023) - 1: 6}:
        rec.violation('roundtrip:width1023', 'width-1023 map with same-bit keys does not round trip', 'shard_unfit', {})


def shard_deep(rec):
    """comb-shaped key sets {0} u {2^i}: the trie is as deep as the keys are wide.  Run under the interpreter's DEFAULT recursion limit
    (a user's program): serialise with the library, parse a reference-built cell with the library"""
    for width in (64, 256, 400, 520, 1000):
        case_deep(rec, width)
    rec.covered('deep-trie')


def case_deep(rec, width):
    from pytoniq_core.boc import HashMap
    from .common import to_lib, user_recursion_limit
    if True:
        keys = [0] + [1 << i for i in range(width)]
        want = {k: (k.bit_length() * 7) % 251 for k in keys}
        rec.case('deep-trie')
        rec.state(('deep', width))
        rec.nontriv(('deep', width))
        args = {'width': width}
        hm = HashMap(width).with_uint_values(8)
        for k in keys:
            hm.set_int_key(k, want[k])
        rc = RH.build({k: RBITS.uint(v, 8) for k, v in want.items()}, width)
        cell = None
        try:
            rec.trans()
            with user_recursion_limit():
                cell = hm.serialize()
            if cell.hash != rc.hash():
                rec.violation(f'deep-trie:w{width}:hash', f'width {width}, comb of {len(keys)} keys: serialised cell differs from the canonical trie', 'case_deep', args)
        except Exception as e:
            rec.violation(f'deep-trie:w{width}:serialize-raises:{exc_name(e)}', f'width {width}, comb key set {{0}} u {{2^i}} ({len(keys)} keys, trie depth {width}): serialize() raised '
                          f'{exc_name(e)} under the default recursion limit', 'case_deep', args)
        lib = to_lib(rc)
        try:
            rec.trans()
            with user_recursion_limit():
                got = HashMap.parse(lib.begin_parse(), width, None, lambda s: s.load_uint(8))
            rec.trace()
            if got != want:
                rec.violation(f'deep-trie:w{width}:parse-value', f'width {width}, comb of {len(keys)} keys: parsed map differs', 'case_deep', args)
        except Exception as e:
            rec.violation(f'deep-trie:w{width}:parse-raises:{exc_name(e)}', f'width {width}, comb key set ({len(keys)} keys, trie depth {width}): HashMap.parse raised {exc_name(e)} '
                          f'under the default recursion limit', 'case_deep', args)


def shards(tier, seed):
    out = [{'fn': 'shard_small', 'args': {'width': w}} for w in (1, 2)]
    out += [{'fn': 'shard_small', 'args': {'width': 3, 'part': p, 'parts': 8}, 'prio': 3} for p in range(8)]
    out.append({'fn': 'shard_deep', 'args': {}, 'prio': 2})
    parts = 13
    for p in range(parts):
        out.append({'fn': 'shard_w4', 'args': {'part': p, 'parts': parts, 'full': tier == 'thorough'}, 'prio': 3})
    for w in (8, 16, 32, 64, 256, 267, 1023):
        out.append({'fn': 'shard_wide', 'args': {'width': w}, 'prio': 1})
    if tier == 'thorough':
        for p in range(8):
            out.append({'fn': 'shard_wn', 'args': {'width': 5, 'maxsize': 3, 'part': p, 'parts': 8}, 'prio': 2})
        for p in range(4):
            out.append({'fn': 'shard_wn', 'args': {'width': 6, 'maxsize': 2, 'part': p, 'parts': 4}, 'prio': 2})
        out.append({'fn': 'shard_wn', 'args': {'width': 8, 'maxsize': 2, 'part': 0, 'parts': 1}, 'prio': 2})
    out.append({'fn': 'shard_forms', 'args': {}})
    out.append({'fn': 'shard_badkeys', 'args': {}})
    out.append({'fn': 'shard_unfit', 'args': {}})
    return out
