"""C14 - TL serialisation inverts TL parsing and follows TL framing for the bundled schemas
(explorers E + D: every in-scope constructor x deviation-bounded enumeration of its values, against
the independent TL reference model mc/ref/tl.py; the schema registry is additionally built under every
os.listdir order)."""
import itertools
import os
from ..ref import tl as RT
from .. import engine
from .common import filler, exc_name

ID = 'C14'
TITLE = 'TL serialisation inverts TL parsing and follows TL framing for bundled schemas'
EXPLORER = 'D (deviation-bounded enumeration over lazily discovered choice points of TL values) + E (all constructors, all listdir orders, block-id grid)'
RULE = ('every constructor of lite_api.tl and ton_api.tl whose field types are (transitively) within {int,long,int128,int256,Bool,#,true,bytes,string,'
        'vector,bare,boxed} as decided by the reference parser; per constructor the all-defaults value and EVERY value with <= k departures (k=1 quick, '
        'k=2 thorough) over the choice points: integer boundaries per width, every combination of the declared flag bits (plus an undeclared bit), '
        'bytes/string lengths {5,0,1,2,3,4,252,253,254,255,256,257,65536} incl. multi-byte UTF-8, vector lengths {2,0,1,3}, every in-scope constructor of a '
        'polymorphic field, bytes fields holding opaque bytes or a nested object. Oracle: registry id and field list equal the reference parser\'s; '
        'serialize() equals the reference TL encoding byte for byte (boxed and bare); deserialize() returns the same value and consumes exactly all bytes. '
        'The registry is built under all 6 os.listdir orders of the three schema files. Block ids: grid of boundary values through to_bytes/from_bytes, '
        'to_dict/from_dict, hash/eq/dict-key use and the TL codec. non-trivial = value with at least one non-default choice or a variable-length field; '
        'states = distinct (constructor, deviation plan); transitions = serialize/deserialize calls; traces = reference encodings compared')
RULE += ' Fifth session: the value returned by deserialize serialises back to exactly the bytes it was parsed from.'
LEVEL_TEXT = ('Bounded-exhaustive: for every supported constructor of the bundled schemas every value within k deviations of the default (all flag '
              'combinations, all framing boundaries 253/254 and the 4-byte padding classes, all polymorphic alternatives) is encoded by the real code and '
              'compared byte for byte with an independent TL implementation, then parsed back and compared field by field.')
LEVEL_NOTE = ('trusted: mc/ref/tl.py (own schema parser, ids pinned against TON\'s generated headers for dht.ping, tonNode.blockIdExt, adnl.message.query, '
              'liteServer.getMasterchainInfo, liteServer.query; TL string framing pinned on the classic 253/254 vectors)')
TECHNIQUE = 'deviation-bounded exhaustive enumeration of TL values for every bundled constructor against an independent TL reference codec'
RULE += ' Sixth session: registry use histories - for every constructor A with flag-conditional fields a fresh registry object handles the values of A first (<= 1 deviation: every flag combination), then those of every other such constructor B (all ordered pairs with A first in the life of the registry); bytes fields holding a SEQUENCE of boxed objects (parsed into a list, serialised again).'
RULE += ' Nested objects in bytes fields include a constructor without fields (4 bytes: the id alone) and one nested a level deeper.'
ASSUMPTIONS = ['value conventions of the library API are taken as given: objects are dicts with @type, int128/int256 are hex text of the wire bytes, Bool is a Python bool, '
               'a bytes field may hold a nested object',
               'out of scope (the library does not support these field types): double, object/function, the tonlib dialect (vector<T>, int53, secureBytes, ...)']
NOT_ASSERTED = ['constructors using double or the tonlib dialect (counted in notes.out_of_scope)',
                'bytes fields whose opaque content happens to start with a known constructor id (the library auto-parses those by design); the alphabet avoids them',
                'int256 given as Python bytes (the library reverses them; hex text is the documented wire-order form)']


def BOUNDS(tier):
    return {'deviations': 1 if tier == 'quick' else 2, 'listdir_orders': 6, 'string_lengths': LENGTHS, 'vector_lengths': [2, 0, 1, 3], 'max_flag_bits_full': 6, 'exhaustive': True}


def REQUIRED_COVER(tier):
    return {'registry', 'listdir-orders', 'ctor:boxed-alt', 'len:253', 'len:254', 'len:65536', 'flags:all-combos', 'vector:0', 'vector:3', 'nested-object', 'nested-sequence', 'registry-history', 'failure-history', 'opaque-id', 'blockid',
            'string:utf8', 'vector:int', 'vector:int256', 'vector:bytes'}


LENGTHS = [5, 0, 1, 2, 3, 4, 252, 253, 254, 255, 256, 257, 65536]
SCHEMA_FILES = ['lite_api.tl', 'ton_api.tl']
_cache = {}


def schema_dir():
    from .. import repo
    return os.path.join(repo.REPO, 'pytoniq_core', 'tl', 'schemas')


def ref_schema():
    if 'S' not in _cache:
        d = schema_dir()
        _cache['S'] = RT.load_files([os.path.join(d, f) for f in SCHEMA_FILES])
    return _cache['S']


def lib_registry(order=None):
    """the library's registry; order: explicit os.listdir answer for the schema directory (the seam the harness owns)"""
    key = ('L', tuple(order) if order else None)
    if key not in _cache:
        from pytoniq_core.tl.generator import TlGenerator
        real = os.listdir
        if order:
            def fake(path='.'):
                if os.path.normpath(path) == os.path.normpath(schema_dir()):
                    return list(order)
                return real(path)
            os.listdir = fake
        try:
            _cache[key] = TlGenerator.with_default_schemas().generate()
        finally:
            os.listdir = real
    return _cache[key]


def in_scope_decls():
    S = ref_schema()
    ok = S.in_scope()
    return [d for d in S.decls if ok[id(d)]]


def known_ids():
    S = ref_schema()
    return {d.id.to_bytes(4, 'little') for d in S.decls}


# ------------------------------------------------------------------------------------------ generator
class Gen:
    def __init__(self, seed):
        self.S = ref_schema()
        self.seed = seed
        self.n = 0
        self.ids = known_ids()

    def opaque(self, n):
        self.n += 1
        b = bytearray(filler(self.seed, f'c14-{self.n}', n))
        while bytes(b[:4]) in self.ids:      # never look like a known constructor
            b[0] = (b[0] + 1) & 0xFF
        return bytes(b)

    def text(self, nbytes, utf8):
        """str whose UTF-8 encoding has exactly nbytes bytes"""
        if not utf8 or nbytes < 3:
            return ('tl-text-' * (nbytes // 8 + 1))[:nbytes]
        s = '漢' * (nbytes // 3)           # 3 bytes each
        rest = nbytes - 3 * (nbytes // 3)
        s += 'é' if rest == 2 else 'x' * rest
        assert len(s.encode()) == nbytes
        return s

    def value(self, t, ch, path, depth):
        k = t[0]
        if k == 'nat':
            alts = [7, 0, 1, (1 << 31) - 1, 1 << 31, (1 << 32) - 1]
            return alts[ch.choose(path + ':#', len(alts))]
        if k == 'prim':
            p = t[1]
            if p == 'int':
                alts = [0x01020304, 0, -1, (1 << 31) - 1, -(1 << 31), 1]
                return alts[ch.choose(path + ':int', len(alts))]
            if p == 'long':
                alts = [0x0102030405060708, 0, -1, (1 << 63) - 1, -(1 << 63)]
                return alts[ch.choose(path + ':long', len(alts))]
            if p in ('int128', 'int256'):
                n = RT.FIXED[p]
                a = ch.choose(path + ':' + p, 3)
                return [self.opaque(n).hex(), '00' * n, 'ff' * n][a]
            if p == 'Bool':
                return [True, False][ch.choose(path + ':Bool', 2)]
            if p == 'true':
                return True
            if p == 'bytes':
                a = ch.choose(path + ':bytes', len(LENGTHS) + (6 if depth < 3 else 0))
                if a < len(LENGTHS):
                    return self.opaque(LENGTHS[a])
                if a == len(LENGTHS):
                    return {'@type': 'dht.ping', 'random_id': 0x1122334455667788}
                if a == len(LENGTHS) + 1:
                    return {'@type': 'adnl.message.query', 'query_id': 'ab' * 32, 'query': self.opaque(7)}
                if a == len(LENGTHS) + 2:
                    return {'@type': 'liteServer.getMasterchainInfo'}        # an object WITHOUT fields: its encoding is the 4-byte id alone
                if a == len(LENGTHS) + 3:
                    return {'@type': 'liteServer.query', 'data': {'@type': 'liteServer.getTime'}}     # ... and one level down
                if a == len(LENGTHS) + 4:
                    # several boxed objects one after the other (the lite-client form 'prefix query + query'): the parser hands them out as a list
                    return [{'@type': 'liteServer.getTime'}, {'@type': 'liteServer.getVersion'}]
                return [{'@type': 'dht.ping', 'random_id': 5}, {'@type': 'liteServer.getTime'}, {'@type': 'dht.ping', 'random_id': -7}]
            if p == 'string':
                a = ch.choose(path + ':string', 2 * len(LENGTHS) + 2)
                if a >= 2 * len(LENGTHS):
                    # a text that BEGINS with the four id bytes of a bundled constructor (some ids are printable ASCII): text is text
                    ids = sorted(i for i in self.ids if all(32 <= c < 127 for c in i))
                    pre = ids[(a - 2 * len(LENGTHS)) * (len(ids) // 2)].decode()
                    return pre + ['abcd', ' is odd'][a - 2 * len(LENGTHS)]
                return self.text(LENGTHS[a % len(LENGTHS)], a >= len(LENGTHS))
        if k == 'vector':
            n = [2, 0, 1, 3][ch.choose(path + ':veclen', 4)] if depth < 4 else 0
            return [self.value(t[1], ch, f'{path}[{i}]', depth + 1) for i in range(n)]
        if k == 'bare':
            return self.obj(self.S.by_name[t[1]][0], ch, path, depth + 1)
        if k == 'boxed':
            alts = self.S.alternatives(t[1])
            if depth >= 4:                                     # recursion guard: prefer the alternative with fewest fields
                alts = sorted(alts, key=lambda d: len(d.fields))[:1]
            a = ch.choose(path + ':' + t[1], len(alts)) if len(alts) > 1 else 0
            return self.obj(alts[a], ch, path, depth + 1)
        raise RT.TlRefError(f'cannot generate {t}')

    def obj(self, d, ch, path, depth=0):
        out = {'@type': d.name}
        # which '#' fields are flag sources, and their declared bits
        bits = {}
        for n, t in d.fields:
            if t[0] == 'cond':
                bits.setdefault(t[1], set()).add(t[2])
        for n, t in d.fields:
            p = f'{path}.{n}'
            if t[0] == 'nat' and n in bits:
                bl = sorted(bits[n])
                if len(bl) <= 6:
                    combos = [sum(1 << b for b in c) for r in range(len(bl), -1, -1) for c in itertools.combinations(bl, r)]
                else:
                    full = sum(1 << b for b in bl)
                    combos = [full, 0] + [1 << b for b in bl] + [full ^ (1 << b) for b in bl]
                spare = next(b for b in range(30, -1, -1) if b not in bits[n])
                combos.append(combos[0] | (1 << spare))          # an undeclared bit must be carried and ignored
                out[n] = combos[ch.choose(p + ':flags', len(combos))]
                continue
            if t[0] == 'cond':
                if not (out[t[1]] >> t[2]) & 1:
                    continue
                t = t[3]
            out[n] = self.value(t, ch, p, depth)
        return out


# ------------------------------------------------------------------------------------------ canonical comparison form
def canon(S, d, v):
    """canonical comparable form of an object value according to its declaration (drops the @type annotations of
    bare objects, maps the library's {'@type': 'true'} to True); anything unexpected becomes a marker"""
    if not isinstance(v, dict):
        return ('NOT-AN-OBJECT', repr(v)[:80])
    out = []
    names = set()
    for n, t in d.fields:
        names.add(n)
        if t[0] == 'cond':
            fl = v.get(t[1])
            if not isinstance(fl, int) or not (fl >> t[2]) & 1:
                if n in v and v[n] is not None:
                    out.append((n, ('UNEXPECTED-PRESENT', repr(v[n])[:60])))
                continue
            t = t[3]
        if n not in v:
            out.append((n, 'MISSING'))
            continue
        out.append((n, canon_type(S, t, v[n])))
    for k2 in v:
        if k2 != '@type' and k2 not in names:
            out.append((k2, 'EXTRA'))
    return tuple(out)


def canon_type(S, t, v):
    k = t[0]
    if k == 'nat':
        return v
    if k == 'prim':
        p = t[1]
        if p == 'true':
            return True if (v is True or v == {'@type': 'true'} or v == {}) else ('BAD-TRUE', repr(v))
        if p == 'bytes' and isinstance(v, dict):
            ds = S.by_name.get(v.get('@type'), [])
            return ('@', v.get('@type'), canon(S, ds[0], v)) if len(ds) == 1 else ('UNKNOWN-OBJECT', repr(v)[:80])
        if p == 'bytes' and isinstance(v, list):
            return ('@list', tuple(canon_type(S, t, x) if isinstance(x, dict) else ('NOT-AN-OBJECT', repr(x)[:60]) for x in v))
        if p == 'bytes' and isinstance(v, (bytes, bytearray)):
            return bytes(v)
        if p in ('int', 'long') and isinstance(v, bool):
            return ('BOOL-FOR-INT', v)
        return v
    if k == 'vector':
        return tuple(canon_type(S, t[1], x) for x in v) if isinstance(v, (list, tuple)) else ('NOT-A-LIST', repr(v)[:60])
    if k == 'bare':
        return canon(S, S.by_name[t[1]][0], v)
    if k == 'boxed':
        if not isinstance(v, dict):
            return ('NOT-AN-OBJECT', repr(v)[:80])
        ds = [d for d in S.by_class.get(t[1], []) if d.name == v.get('@type')]
        return ('@', v.get('@type'), canon(S, ds[0], v)) if ds else ('WRONG-CONSTRUCTOR', v.get('@type'))
    return ('?', repr(v)[:40])


def first_diff(a, b, path=''):
    if type(a) != type(b) or not isinstance(a, tuple):
        return f'{path}: library {repr(a)[:90]} vs reference {repr(b)[:90]}' if a != b else None
    if len(a) != len(b):
        return f'{path}: {len(a)} vs {len(b)} entries: library {repr(a)[:120]} vs reference {repr(b)[:120]}'
    for i, (x, y) in enumerate(zip(a, b)):
        if x != y:
            sub = f'{path}/{x[0]}' if isinstance(x, tuple) and len(x) == 2 and isinstance(x[0], str) and isinstance(y, tuple) and y[:1] == x[:1] else f'{path}[{i}]'
            if isinstance(x, tuple) and isinstance(y, tuple) and len(x) == 2 and len(y) == 2 and x[0] == y[0] and isinstance(x[0], str):
                return first_diff(x[1], y[1], sub)
            return first_diff(x, y, sub)
    return None


# ------------------------------------------------------------------------------------------ the per-value check
def field_kinds(d, v):
    """coverage tags of a generated value"""
    tags = set()

    def walk(x):
        if isinstance(x, dict):
            for y in x.values():
                walk(y)
        elif isinstance(x, (list, tuple)):
            tags.add(f'vector:{len(x)}')
            for y in x:
                walk(y)
        elif isinstance(x, (bytes, str)):
            n = len(x.encode()) if isinstance(x, str) else len(x)
            if n in (253, 254, 65536):
                tags.add(f'len:{n}')
            if isinstance(x, str) and any(ord(c) > 127 for c in x):
                tags.add('string:utf8')
    walk(v)
    return tags


def check_value(rec, L, S, d, v, key_prefix, fn, args, devs):
    """one reference value through serialize (boxed + bare) and deserialize of the real code"""
    name = d.name
    try:
        want = S.encode(v, True, d)
    except RT.TlRefError:
        return
    rec.case('value')
    rec.trace()
    sch = L.get_by_name(name)
    if sch is None or sch.id != d.id.to_bytes(4, 'big'):
        # the name is missing / shadowed in the registry (reported by the registry sub-check): reach the constructor by its id
        sch = L.get_by_id(d.id.to_bytes(4, 'big'))
    if sch is None:
        rec.violation(f'{key_prefix}registry:missing:{name}', f'{name}: constructor not found in the library registry by name or id', fn, args)
        return
    what = f'{name} with deviations {devs}' if devs else f'{name} (default value)'
    # serialize, boxed
    rec.trans()
    snapshot = repr(v)
    try:
        got = L.serialize(sch, v, boxed=True)
    except Exception as e:
        kind = serialize_failure_kind(d, v)
        rec.violation(f'{key_prefix}serialize-raises:{kind}', f'{what}: serialize raised {exc_name(e)}: {e}', fn, args)
        rec.outcome('serialize raised')
        return
    if got != want:
        kind = diff_kind(S, d, v, got, want)
        rec.violation(f'{key_prefix}serialize-bytes:{kind}', f'{what}: serialised bytes differ from the TL encoding ({kind}): library {got[:48].hex()}... ({len(got)} B) vs reference '
                      f'{want[:48].hex()}... ({len(want)} B)', fn, args)
        rec.outcome('bytes differ')
        return
    if repr(v) != snapshot:
        rec.violation(f'{key_prefix}serialize-mutates-input', f'{what}: serialize changed the caller\'s value', fn, args)
        return
    rec.trans()
    try:
        if L.serialize(sch, v, boxed=True) != got:
            rec.violation(f'{key_prefix}serialize-not-repeatable', f'{what}: serialising the same value twice gives different bytes', fn, args)
    except Exception as e:
        rec.violation(f'{key_prefix}serialize-not-repeatable', f'{what}: second serialize raised {exc_name(e)}: {e}', fn, args)
    # the other documented ways to name the constructor: by its name as text, and the registry look-ups by id in every accepted form
    if L.get_by_name(name) is sch:
        try:
            if L.serialize(name, v, boxed=True) != got:
                rec.violation(f'{key_prefix}serialize-by-name', f'{what}: serialize(<name as str>, ...) differs from serialize(<schema object>, ...)', fn, args)
        except Exception as e:
            rec.violation(f'{key_prefix}serialize-by-name', f'{what}: serialize(<name as str>, ...) raised {exc_name(e)}: {e}', fn, args)
    if not devs:
        idb = d.id.to_bytes(4, 'big')
        forms = {'bytes-big': L.get_by_id(idb), 'bytes-little': L.get_by_id(idb[::-1], 'little'), 'int': L.get_by_id(d.id)}
        for form, r in forms.items():
            if r is None or r.id != idb:
                rec.violation(f'{key_prefix}registry:get_by_id:{form}', f'{name}: get_by_id({form}) does not return the constructor with id {idb.hex()}', fn, args)
    try:
        bare = L.serialize(sch, v, boxed=False)
        if bare != want[4:]:
            rec.violation(f'{key_prefix}serialize-bare', f'{what}: bare serialisation differs from the boxed one without its id', fn, args)
    except Exception as e:
        rec.violation(f'{key_prefix}serialize-bare', f'{what}: bare serialize raised {exc_name(e)}: {e}', fn, args)
    # deserialize
    rec.trans()
    try:
        with rec.limit(5):
            back, used = L.deserialize(want)
    except engine.CaseTimeout:
        rec.violation(f'{key_prefix}deserialize-hangs', f'{what}: deserialize did not return within 5 s', fn, args)
        return
    except Exception as e:
        kind = diff_kind(S, d, v, None, want)
        rec.violation(f'{key_prefix}deserialize-raises:{kind}', f'{what}: deserialize of the reference encoding raised {exc_name(e)}: {e}', fn, args)
        rec.outcome('deserialize raised')
        return
    try:
        again = L.deserialize(bytes(want))
        if repr(again) != repr((back, used)):
            rec.violation(f'{key_prefix}deserialize-not-repeatable', f'{what}: parsing the same bytes twice gives different results', fn, args)
    except Exception as e:
        rec.violation(f'{key_prefix}deserialize-not-repeatable', f'{what}: second deserialize raised {exc_name(e)}: {e}', fn, args)
    if used != len(want):
        rec.violation(f'{key_prefix}deserialize-consumed:{diff_kind(S, d, v, None, want)}', f'{what}: deserialize consumed {used} of {len(want)} bytes', fn, args)
        rec.outcome('consumed differs')
        return
    a = ('@', back.get('@type') if isinstance(back, dict) else None, canon(S, d, back))
    b = ('@', name, canon(S, d, expected_parse(S, L, d, v, True)))
    if a != b:
        rec.violation(f'{key_prefix}deserialize-value:{diff_kind(S, d, v, None, want)}', f'{what}: parsed value differs: {first_diff(a, b)}', fn, args)
        rec.outcome('value differs')
        return
    # serialisation inverts parsing: the PARSED value (with the library's own @type annotations and value forms) serialises
    # back to exactly the bytes it was parsed from
    rec.trans()
    try:
        re_ = L.serialize(sch, back, boxed=True)
    except Exception as e:
        rec.violation(f'{key_prefix}reserialize-raises:{diff_kind(S, d, v, None, want)}', f'{what}: serialising the value returned by deserialize raised {exc_name(e)}: {e}', fn, args)
        rec.outcome('reserialize raised')
        return
    rec.covered('reserialize-parsed')
    if re_ != want:
        rec.violation(f'{key_prefix}reserialize-bytes:{diff_kind(S, d, v, re_, want)}', f'{what}: the value returned by deserialize serialises to other bytes than it was parsed from '
                      f'({re_[:48].hex()}... {len(re_)} B vs {want[:48].hex()}... {len(want)} B)', fn, args)
        rec.outcome('reserialize differs')
        return
    rec.outcome('ok')


def expected_parse(S, L, d, v, boxed):
    """the value the parser is documented to return for the encoding of v: fields listed in the library's
    `untouchables` (adnl.message.part.data, overlay.broadcastFec.data) are never auto-parsed, so a nested
    object stored there comes back as its encoded bytes"""
    unt = getattr(L, 'untouchables', {}).get(d.name, set()) if boxed else set()
    out = {}
    for n, x in v.items():
        out[n] = x
    for n, t in d.fields:
        if n not in v:
            continue
        if t[0] == 'cond':
            t = t[3]
        out[n] = _expected_type(S, L, t, v[n], n in unt)
    return out


def _expected_type(S, L, t, x, untouchable):
    k = t[0]
    if k == 'prim' and t[1] == 'bytes' and isinstance(x, dict):
        if untouchable:
            return S.encode(x, True)
        return expected_parse(S, L, S.by_name[x['@type']][0], x, True)
    if k == 'prim' and t[1] == 'bytes' and isinstance(x, list):
        if untouchable:
            return b''.join(S.encode(y, True) for y in x)
        return [expected_parse(S, L, S.by_name[y['@type']][0], y, True) for y in x]
    if k == 'vector':
        return [_expected_type(S, L, t[1], y, untouchable) for y in x]
    if k == 'bare':
        return expected_parse(S, L, S.by_name[t[1]][0], x, False)
    if k == 'boxed':
        return expected_parse(S, L, [q for q in S.by_class[t[1]] if q.name == x['@type']][0], x, True)
    return x


def types_in(S, d, v, acc=None):
    """set of primitive/vector type tags occurring in value v of declaration d (used to name what fails)"""
    acc = set() if acc is None else acc

    def walk_t(t, x):
        k = t[0]
        if k == 'prim':
            acc.add(t[1] if not (t[1] == 'bytes' and isinstance(x, (dict, list))) else ('bytes-object' if isinstance(x, dict) else 'bytes-objects'))
            if t[1] == 'bytes' and isinstance(x, dict):
                types_in(S, S.by_name[x['@type']][0], x, acc)
            if t[1] == 'bytes' and isinstance(x, list):
                for y in x:
                    types_in(S, S.by_name[y['@type']][0], y, acc)
        elif k == 'nat':
            acc.add('#')
        elif k == 'vector':
            acc.add('vector-of-' + (t[1][1] if t[1][0] == 'prim' else t[1][0]))
            for y in x:
                walk_t(t[1], y)
        elif k == 'bare':
            types_in(S, S.by_name[t[1]][0], x, acc)
        elif k == 'boxed':
            types_in(S, [q for q in S.by_class[t[1]] if q.name == x['@type']][0], x, acc)
    for n, t in d.fields:
        if t[0] == 'cond':
            if n not in v:
                continue
            t = t[3]
        walk_t(t, v[n])
    return acc


def serialize_failure_kind(d, v):
    for n, t in d.fields:
        if t[0] == 'nat' and isinstance(v.get(n), int) and v[n] >= (1 << 31):
            return 'nat>=2^31'
    return 'other'


PRIORITY = ['bytes-objects', 'string', 'vector-of-int', 'vector-of-long', 'vector-of-int256', 'vector-of-int128', 'vector-of-bytes', 'vector-of-string', 'vector-of-boxed', 'vector-of-bare', 'true', 'bytes-object']


def diff_kind(S, d, v, got, want):
    """stable name for what differs: the most specific field type involved (for de-duplication / known findings)"""
    ts = types_in(S, d, v)
    for n, t in d.fields:
        if t[0] == 'nat' and isinstance(v.get(n), int) and v[n] >= (1 << 31):
            return 'nat>=2^31'
    for p in PRIORITY:
        if p in ts:
            return p
    return 'other'


def explore_decl(rec, L, S, d, k, key_prefix=''):
    g = Gen(rec.seed)

    def gen_one(ch):
        g.n = 0
        return g.obj(d, ch, d.name)
    n = 0
    for plan, ch, res in engine.explore(gen_one, k):
        if isinstance(res, Exception):
            if isinstance(res, RT.TlRefError):
                continue
            raise res
        devs = [(lbl, a) for _, lbl, a in ch.deviations()]
        args = {'name': d.name, 'plan': {str(i): a for i, a in plan.items()}}
        rec.state((d.name, tuple(sorted(plan.items()))))
        if plan or any(t[0] in ('vector',) or t == ('prim', 'bytes') or t == ('prim', 'string') for _, t in d.fields):
            rec.nontriv((d.name, tuple(sorted(plan.items()))))
        for tag in field_kinds(d, res):
            rec.covered(tag)
        for _, lbl, a in ch.deviations():
            if lbl.endswith(':flags'):
                rec.covered('flags:all-combos')
            if lbl.split(':')[-1][:1].isupper() or '.' in lbl.split(':')[-1]:
                rec.covered('ctor:boxed-alt')
        ts = types_in(S, d, res)
        for tname in ('vector-of-int', 'vector-of-int256', 'vector-of-bytes'):
            if tname in ts:
                rec.covered('vector:' + tname.split('-')[-1])
        if 'bytes-object' in ts:
            rec.covered('nested-object')
        if 'bytes-objects' in ts:
            rec.covered('nested-sequence')
        check_value(rec, L, S, d, res, key_prefix, 'case_value', args, devs)
        n += 1
    return n


def case_value(rec, name, plan):
    S = ref_schema()
    L = lib_registry()
    d = S.by_name[name][0]
    g = Gen(rec.seed)
    ch = engine.Chooser({int(i): a for i, a in plan.items()})
    v = g.obj(d, ch, d.name)
    check_value(rec, L, S, d, v, '', 'case_value', {'name': name, 'plan': plan}, [(lbl, a) for _, lbl, a in ch.deviations()])


def shard_values(rec, part, parts):
    S = ref_schema()
    L = lib_registry()
    k = 1 if rec.tier == 'quick' else 2
    decls = in_scope_decls()
    for i, d in enumerate(decls):
        if i % parts != part:
            continue
        explore_decl(rec, L, S, d, k)
    if part == 0:
        g = Gen(rec.seed)
        d = S.by_name['liteServer.runMethodResult'][0]
        v = g.obj(d, engine.Chooser({}), d.name)
        rec.sample({'constructor': d.name, 'default_value_keys': sorted(v), 'reference_encoding_prefix': S.encode(v, True, d)[:24].hex(), 'choice_points': 'flags combos, lengths, boundaries'})
    rec.notes['in_scope_constructors'] = len(decls)
    rec.notes['out_of_scope'] = len(S.decls) - len(decls)


# ------------------------------------------------------------------------------------------ registry use histories (sixth session)
def flag_decls():
    S = ref_schema()
    return [d for d in in_scope_decls() if any(t[0] == 'cond' for _, t in d.fields)]


def shard_pair_histories(rec, part, parts):
    """ONE registry object used for two constructors one after the other: for every constructor A with flag-conditional fields a FRESH
    registry serialises and parses the values of A first (every flag combination the value explorer reaches with <= 1 deviation), then
    those of every other such constructor B - whatever was learnt from A must not change what B means.  Covers every ordered pair (A, B)
    with A first in the life of the registry."""
    from pytoniq_core.tl.generator import TlGenerator
    S = ref_schema()
    decls = flag_decls()
    rec.notes['flag_constructors'] = len(decls)
    for i, a in enumerate(decls):
        if i % parts != part:
            continue
        L = TlGenerator.with_default_schemas().generate()       # fresh object: A is the first thing it ever sees
        n = explore_decl(rec, L, S, a, 1, key_prefix=f'after-nothing:')
        for b in decls:
            if b is a:
                continue
            rec.state(('pair', a.name, b.name))
            explore_decl(rec, L, S, b, 1, key_prefix=f'after[{a.name}]:')
        rec.covered('registry-history')
    rec.sample({'registry_history': 'fresh TlGenerator: liteServer.getOutMsgQueueSizes (all flag combinations), then every other constructor with optional fields'})


def shard_opaque_ids(rec):
    """sixth session (wave 9): opaque bytes that BEGIN with the id of a bundled constructor.  What the parser makes of them is the library's
    documented auto-parse and is not asserted - but whatever it hands out, serialising THAT value again gives the bytes it was parsed from."""
    L = lib_registry()
    S = ref_schema()
    heads = [S.encode({'@type': 'liteServer.getTime'}, True), S.encode({'@type': 'dht.ping', 'random_id': 5}, True), S.encode({'@type': 'liteServer.getVersion'}, True)]
    tails = [b'\x01', b'\x01\x02\x03\x04', bytes(range(1, 9)), bytes(12)]
    hosts = [('liteServer.query', 'data', {}), ('adnl.message.query', 'query', {'query_id': 'ab' * 32}), ('liteServer.sendMessage', 'body', {})]
    for host, field, rest in hosts:
        for h in heads:
            for h2 in (b'', heads[0]):
                for t in tails:
                    x = bytes(h) + bytes(h2) + t
                    v = dict(rest, **{'@type': host, field: x})
                    enc = bytes(S.encode(v, True))
                    rec.case('opaque-id')
                    rec.state(('opaque', host, x.hex()))
                    rec.nontriv(('opaque', host, x.hex()))
                    rec.trans(2)
                    try:
                        back, used = L.deserialize(enc)
                    except Exception:
                        rec.outcome('parse-refused(not asserted)')
                        continue
                    try:
                        again = L.serialize(L.get_by_name(host), back)
                    except Exception as e:
                        rec.violation('opaque-id:reserialize-raises', f'{host}.{field} = {x.hex()} (a constructor id followed by bytes that are no object): the value deserialize returned '
                                      f'({str(back)[:160]}) cannot be serialised: {exc_name(e)}: {e}', 'shard_opaque_ids', {})
                        continue
                    rec.trace()
                    if bytes(again) != enc:
                        rec.violation('opaque-id:reserialize-bytes', f'{host}.{field} = {x.hex()}: the value deserialize returned serialises to other bytes than it was parsed from', 'shard_opaque_ids', {})
                        continue
                    rec.outcome('ok')
    rec.covered('opaque-id')


def shard_failure_histories(rec):
    """sixth session (wave 9): ONE registry object that has refused many inputs.  Valid values with nested objects in bytes fields are parsed,
    then every proper prefix of their encodings and every single-byte damage of the nested length / vector-count bytes is fed to the same
    registry (hundreds of refused or mis-framed parses, nested up to three levels), then the valid values are parsed again: same results."""
    from pytoniq_core.tl.generator import TlGenerator
    S = ref_schema()
    libs = {'@type': 'liteServer.getLibraries', 'library_list': ['ab' * 32, 'cd' * 32]}
    vals = [{'@type': 'liteServer.query', 'data': libs},
            {'@type': 'adnl.message.query', 'query_id': 'ab' * 32, 'query': {'@type': 'liteServer.query', 'data': libs}},
            {'@type': 'adnl.message.query', 'query_id': '01' * 32, 'query': {'@type': 'liteServer.query', 'data': {'@type': 'liteServer.query', 'data': {'@type': 'liteServer.getTime'}}}},
            {'@type': 'liteServer.query', 'data': [{'@type': 'liteServer.getTime'}, {'@type': 'liteServer.getVersion'}]},
            {'@type': 'dht.ping', 'random_id': 77}]
    for fresh_first in (True, False):
        L = TlGenerator.with_default_schemas().generate()
        encs = [S.encode(v, True) for v in vals]
        first = []
        if not fresh_first:
            for e in encs:
                first.append(repr(L.deserialize(bytes(e))))
        refused = accepted = 0
        for e in encs:
            damaged = [bytes(e[:k]) for k in range(0, len(e))]
            for k in range(4, min(len(e), 48)):
                for val in (0xff, 0xfe, 0x7f, (e[k] + 4) & 0xff):
                    damaged.append(bytes(e[:k]) + bytes([val]) + bytes(e[k + 1:]))
            for d in damaged:
                rec.trans()
                try:
                    L.deserialize(d)
                    accepted += 1
                except Exception:
                    refused += 1
        rec.notes['tl-failure-history:refused'] = refused
        for i, (v, e) in enumerate(zip(vals, encs)):
            rec.case('failure-history')
            rec.state(('failhist', i, fresh_first))
            rec.nontriv(('failhist', i, fresh_first))
            d = S.by_name[v['@type']][0]
            args = {'value': i, 'fresh_first': fresh_first}
            try:
                back, used = L.deserialize(bytes(e))
            except Exception as ex:
                rec.violation('failure-history:raises', f'{v["@type"]} (value #{i}): parsed after {refused} refused / {accepted} mis-framed inputs on the same registry: {exc_name(ex)}: {ex}',
                              'shard_failure_histories', args)
                continue
            rec.trace()
            want = ('@', d.name, canon(S, d, expected_parse(S, L, d, v, True)))
            got = ('@', back.get('@type') if isinstance(back, dict) else None, canon(S, d, back))
            if got != want or used != len(e) or (first and repr((back, used)) != first[i]):
                rec.violation('failure-history:value', f'{v["@type"]} (value #{i}): after {refused} refused / {accepted} mis-framed inputs on the same registry the valid encoding parses to '
                              f'{str(back)[:200]} ({used} of {len(e)} bytes)', 'shard_failure_histories', args)
                rec.outcome('HISTORY')
                continue
            rec.outcome('ok')
    rec.covered('failure-history')


# ------------------------------------------------------------------------------------------ registry under every listdir order
def norm_type(s):
    return ' '.join(s.replace('(', ' ( ').replace(')', ' ) ').split())


def type_text(t):
    k = t[0]
    if k == 'nat':
        return '#'
    if k == 'prim' or k == 'bare' or k == 'boxed':
        return t[1]
    if k == 'vector':
        return f'( vector {type_text(t[1])} )'
    if k == 'cond':
        return f'{t[1]}.{t[2]}?{type_text(t[3])}'
    return '?'


def shard_registry(rec):
    rec.covered('registry', 'listdir-orders')
    S = ref_schema()
    decls = in_scope_decls()
    files = SCHEMA_FILES + ['tonlib_api.tl']
    first = None
    for order in itertools.permutations(files):
        L = lib_registry(order)
        on = '>'.join(f.split('_')[0] for f in order)
        for d in decls:
            rec.case('registry')
            rec.trans()
            args = {'order': list(order), 'name': d.name}
            sch = L.get_by_name(d.name)
            if sch is None:
                rec.violation(f'registry:missing:{d.name}', f'{d.name}: not registered (listdir order {on})', 'case_registry', args)
                continue
            if sch.id != d.id.to_bytes(4, 'big'):
                rec.violation(f'registry:id:{d.name}', f'{d.name}: registered id {sch.id.hex()} differs from the TL constructor id {d.id:08x} (crc32 of "{RT.normalise(d.text)[:80]}"), '
                              f'listdir order {on}', 'case_registry', args)
                continue
            got = [(n, norm_type(t)) for n, t in sch.args.items()]
            want = [(n, norm_type(type_text(t))) for n, t in d.fields]
            if got != want:
                rec.violation(f'registry:fields:{d.name}', f'{d.name}: registered fields {got[:6]} differ from the declaration {want[:6]} (listdir order {on})', 'case_registry', args)
                continue
            if sch.class_name != d.cls:
                rec.violation(f'registry:class:{d.name}', f'{d.name}: class {sch.class_name!r} vs {d.cls!r}', 'case_registry', args)
            rec.trace()
            rec.state(('reg', on, d.name))
        # the default value of every constructor under this order
        if first is None:
            first = order
        else:
            for d in decls:
                explore_decl(rec, L, S, d, 0, key_prefix=f'order[{on}]:')
    rec.sample({'listdir_order': list(first), 'checked': 'id, field list, class of every in-scope constructor; default value codec under every order'})


def case_registry(rec, order, name):
    S = ref_schema()
    L = lib_registry(order)
    d = S.by_name[name][0]
    sch = L.get_by_name(name)
    if sch is None or sch.id != d.id.to_bytes(4, 'big'):
        rec.violation(f'registry:{"missing" if sch is None else "id"}:{name}', 'replayed', 'case_registry', {'order': order, 'name': name})
        return
    got = [(n, norm_type(t)) for n, t in sch.args.items()]
    want = [(n, norm_type(type_text(t))) for n, t in d.fields]
    if got != want:
        rec.violation(f'registry:fields:{name}', 'replayed', 'case_registry', {'order': order, 'name': name})


# ------------------------------------------------------------------------------------------ block id helpers
def shard_blockid(rec):
    from pytoniq_core.tl.block import BlockId, BlockIdExt
    rec.covered('blockid')
    S = ref_schema()
    L = lib_registry()
    d = S.by_name['tonNode.blockIdExt'][0]
    wcs = [-(1 << 31), -1, 0, (1 << 31) - 1]
    shards_ = [-(1 << 63), -1, 0, 1, (1 << 63) - 1, None]
    seqnos = [0, 1, (1 << 31) - 1]
    hashes = [filler(rec.seed, 'c14-h', 32), bytes(32), b'\xff' * 32]
    table = {}
    for wc, sh, sq, rh, fh in itertools.product(wcs, shards_, seqnos, hashes, hashes):
        args = {'wc': wc, 'shard': sh, 'seqno': sq, 'rh': rh.hex(), 'fh': fh.hex()}
        case_blockid(rec, **args)
    rec.sample({'block_id': [-1, -(1 << 63), 1, hashes[0].hex()[:16] + '...'], 'checked': 'to_bytes/from_bytes, to_dict/from_dict, hash, eq, dict key, TL codec'})


def case_blockid(rec, wc, shard, seqno, rh, fh):
    from pytoniq_core.tl.block import BlockId, BlockIdExt
    S = ref_schema()
    L = lib_registry()
    args = {'wc': wc, 'shard': shard, 'seqno': seqno, 'rh': rh, 'fh': fh}
    rec.case('blockid')
    rec.state(('bid', wc, shard, seqno, rh, fh))
    rec.nontriv(('bid', wc, shard, seqno, rh, fh))
    eff_shard = -(1 << 63) if shard is None else shard
    try:
        a = BlockIdExt(wc, shard, seqno, bytes.fromhex(rh), bytes.fromhex(fh))
        b = BlockIdExt(wc, shard, seqno, rh, fh)            # hex text form
        rec.trans(6)
        raw = a.to_bytes()
        want_raw = wc.to_bytes(4, 'big', signed=True) + eff_shard.to_bytes(8, 'big', signed=True) + seqno.to_bytes(4, 'big', signed=True) + bytes.fromhex(rh) + bytes.fromhex(fh)
        if raw != want_raw:
            rec.violation('blockid:to_bytes', f'{args}: to_bytes {raw.hex()} != {want_raw.hex()}', 'case_blockid', args)
        c = BlockIdExt.from_bytes(raw)
        e = BlockIdExt.from_dict(a.to_dict())
        for nm, x in (('hex-ctor', b), ('from_bytes', c), ('from_dict', e)):
            if (x.workchain, x.shard, x.seqno, x.root_hash, x.file_hash) != (wc, eff_shard, seqno, bytes.fromhex(rh), bytes.fromhex(fh)):
                rec.violation(f'blockid:{nm}:fields', f'{args}: {nm} gives {x!r}', 'case_blockid', args)
            if not (x == a):
                rec.violation(f'blockid:{nm}:eq', f'{args}: {nm} result does not compare equal to the original', 'case_blockid', args)
            try:
                if hash(x) != hash(a):
                    rec.violation(f'blockid:{nm}:hash', f'{args}: equal block ids hash differently', 'case_blockid', args)
                if {a: 'v'}.get(x) != 'v' or len({a, x}) != 1:
                    rec.violation(f'blockid:{nm}:dictkey', f'{args}: equal block ids do not collide as dictionary keys', 'case_blockid', args)
            except TypeError as ex:
                rec.violation('blockid:hash', f'{args}: hash(BlockIdExt) raised {exc_name(ex)}: {ex}', 'case_blockid', args)
        other = BlockIdExt(wc, shard, seqno ^ 1, bytes.fromhex(rh), bytes.fromhex(fh))
        if other == a:
            rec.violation('blockid:eq-different', f'{args}: ids with different seqno compare equal', 'case_blockid', args)
        # through the TL codec
        v = dict(a.to_dict(), **{'@type': 'tonNode.blockIdExt'})
        want = S.encode(v, True, S.by_name['tonNode.blockIdExt'][0])
        got = L.serialize(L.get_by_name('tonNode.blockIdExt'), a.to_dict(), boxed=True)
        if got != want:
            rec.violation('blockid:tl', f'{args}: to_dict() serialised through TL differs from the reference encoding', 'case_blockid', args)
        back, used = L.deserialize(want)
        f = BlockIdExt.from_dict(back)
        if not (f == a) or used != len(want):
            rec.violation('blockid:tl-back', f'{args}: TL round trip gives {f!r}', 'case_blockid', args)
        bi = BlockId(wc, shard, seqno)
        bj = BlockId.from_dict(bi.to_dict())
        if (bj.workchain, bj.shard, bj.seqno) != (wc, eff_shard, seqno):
            rec.violation('blockid:BlockId', f'{args}: BlockId dict round trip gives {bj.to_dict()}', 'case_blockid', args)
        {bi: 1}
        rec.trace()
        rec.outcome('ok')
    except Exception as ex:
        rec.violation(f'blockid:raises:{exc_name(ex)}', f'{args}: {exc_name(ex)}: {ex}', 'case_blockid', args)
        rec.outcome('raised')


def selftest():
    RT.selftest()
    S = ref_schema()
    assert len(in_scope_decls()) > 500, len(in_scope_decls())
    # every generated default value re-decodes to itself under the reference
    g = Gen(0)
    for d in in_scope_decls():
        g.n = 0
        v = g.obj(d, engine.Chooser({}), d.name)
        e = S.encode(v, True, d)
        nested = set()
        back, pos = S.decode(e, 0)
        assert pos == len(e) and back['@type'] == d.name, d.name
        assert S.encode(back, True, d) == e, d.name


def shards(tier, seed):
    out = [{'fn': 'shard_registry', 'args': {}, 'prio': 3}, {'fn': 'shard_blockid', 'args': {}}]
    parts = 30 if tier == 'quick' else 96
    for p in range(parts):
        out.append({'fn': 'shard_values', 'args': {'part': p, 'parts': parts}, 'prio': 1})
    out.append({'fn': 'shard_failure_histories', 'args': {}, 'prio': 2})
    out.append({'fn': 'shard_opaque_ids', 'args': {}})
    hp = 16 if tier == 'quick' else 48
    for p in range(hp):
        out.append({'fn': 'shard_pair_histories', 'args': {'part': p, 'parts': hp}, 'prio': 2})
    return out
