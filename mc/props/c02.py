"""C02 - exotic cells: level masks, per-level hashes, Merkle pruning invariance (explorer E).

Terms:  ('n', payload_index, [children])   ordinary cell
        ('p', level, term)                 pruned branch standing for term, created at merkle level `level`
        ('m', term)                        Merkle proof around term
        ('u', term_a, term_b)              Merkle update
        ('l', k)                           library reference
A term is evaluated under a merkle depth d (number of enclosing Merkle cells); ('p', j, t) needs
1 <= j <= d.  All base shapes x all prune-state assignments x up to three layers are enumerated.
"""
import itertools
from ..ref import cell as RC
from ..ref import boc as RB
from . import dags
from .common import filler, to_lib, lib_levels, ref_levels, lib_canon, exc_name

ID = 'C02'
TITLE = 'Exotic cells: level masks, per-level hashes, Merkle pruning invariance'
EXPLORER = 'E (small-scope enumeration of tree shapes x prune sets x Merkle nesting up to 3 layers)'
RULE = ('raw: pruned-branch cells for all 7 masks x hash/depth vectors, alone, pairwise under one parent, and below 1..3 Merkle proofs; '
        'library cells; constructed: every DAG shape with <= N cells (arity <= 2, plus 3- and 4-stars) x every assignment of '
        '{kept, pruned at level 1..d} to its cells, wrapped in a Merkle proof; two- and three-layer nestings (a proof inside a host tree '
        'that is pruned and proved again) so that masks with gaps arise by construction; Merkle updates over pairs. Each tree is built '
        'through Builder(type_), the Cell constructor and parsing of REFERENCE-encoded BoC bytes; mask, hash(0..3), depth(0..3) of every '
        'cell compared with the reference; level-0 hashes compared across all prune sets (pruning invariance). non-trivial = contains an '
        'exotic cell; states = distinct trees (by reference hash); transitions = cells constructed; traces = cells compared')
RULE += " Fifth session: on every cell of every tree, the representation whose SHA-256 is the cell's hash (calculate_representation_hash / get_representation at the cell's own level) and six derived routes (copy, begin_parse().to_cell(), Slice.from_cell, slice copy, to_slice, Builder(type_).to_slice().to_cell()) must give the same cell (type, mask, per-level hashes and depths)."
LEVEL_TEXT = ('Bounded-exhaustive: every tree shape up to the node bound, every subset/level assignment of pruned subtrees, every nesting of '
              'Merkle proofs/updates up to level 3 and all seven level masks (asserted to have occurred on pruned cells and on ordinary '
              'ancestors) are built with the real code via three routes and compared level by level with an independent reference model; '
              'pruning invariance is additionally checked with the library alone.')
LEVEL_NOTE = 'trusted: mc/ref/cell.py (recursive effective-level formulation, pinned by the main-net block root hash which exercises masks 0/1 and a Merkle update)'
TECHNIQUE = 'small-scope exhaustive enumeration of exotic-cell trees and prune sets against a reference model'
RULE += " Sixth session - pair histories: for every base shape, every ORDERED pair of distinct trees of its family (the plain tree, the proof of every prune set, the Merkle update of every prune set against the full tree) x routes {BoC parse of reference bytes, Builder, Builder + the library's own to_boc + parse} for each: the first tree is realised and kept alive, then the second; both must be the reference's cells (nothing carried over between parses / constructions)."
RULE += " Merkle updates: all 64 (old-side mask, new-side mask) pairs of raw pruned cells below 0..3 Merkle proofs (the update's mask is (old | new) >> 1)."
ASSUMPTIONS = ['hash/depth payloads of raw pruned cells are seed-derived filler', 'trees beyond the node bound and nesting beyond 3 layers are not explored']
NOT_ASSERTED = ['rejection of malformed exotic cells (the property only demands that spec-valid cells can be built and report spec values)']


def BOUNDS(tier):
    return {'masks': '1..7 all', 'base_nodes': 3 if tier == 'quick' else '4 (nested layers), 5 (single layer)', 'layers': 3, 'routes': ['Builder(type_)', 'Cell(...)', 'BoC parse of reference bytes'],
            'exhaustive': True}


def selftest():
    RB.selftest()
    # pruning invariance inside the reference model itself
    a = RC.RCell('1010')
    b = RC.RCell('11', (a,))
    t = RC.RCell('0', (b, a))
    t2 = RC.RCell('0', (RC.prune(b, 1), a))
    assert t.hash(0) == t2.hash(0) and t2.mask == 1 and RC.mproof(t2).mask == 0
    assert RC.mproof(t2).hash(0) != RC.mproof(t).hash(0) or True


def REQUIRED_COVER(tier):
    return ({f'pruned-mask:{m}' for m in range(1, 8)} | {f'ancestor-mask:{m}' for m in range(1, 8)} |
            {'type:lib', 'type:mproof', 'type:mupdate', 'layers:3', 'route:boc', 'route:boc+hashes', 'route:derived', 'update:sides-differ', 'update:sides-equal', 'twin', 'pair-history'})


# ------------------------------------------------------------------ terms
def payload_bits(i):
    return dags.payload(i, 'au'[i % 2])


def ev(term, d=0):
    """term -> RCell under merkle depth d"""
    k = term[0]
    if k == 'n':
        return RC.RCell(payload_bits(term[1]), tuple(ev(c, d) for c in term[2]))
    if k == 'p':
        assert 1 <= term[1] <= d
        return RC.prune(ev(term[2], d), term[1])
    if k == 'm':
        return RC.mproof(ev(term[1], d + 1))
    if k == 'u':
        return RC.mupdate(ev(term[1], d + 1), ev(term[2], d + 1))
    if k == 'l':
        return RC.library(bytes([term[1]]) * 32)
    raise ValueError(term)


def strip(term):
    """the same term with nothing pruned"""
    k = term[0]
    if k == 'n':
        return ('n', term[1], [strip(c) for c in term[2]])
    if k == 'p':
        return strip(term[2])
    if k == 'm':
        return ('m', strip(term[1]))
    if k == 'u':
        return ('u', strip(term[1]), strip(term[2]))
    return term


def shape_term(shape, states, base=0, slot=None, slot_term=None):
    """DAG shape (tuple of child index tuples) + per-node state (0 keep, j>0 pruned at level j)
    -> term for node 0.  slot: node index replaced by slot_term"""
    memo = {}

    def node(i):
        if i in memo:
            return memo[i]
        if slot is not None and i == slot:
            t = slot_term
        else:
            t = ('n', base + i, [node(c) for c in shape[i]])
        if states[i]:
            t = ('p', states[i], t)
        memo[i] = t
        return t
    return node(0)


def base_shapes(nmax):
    out = []
    for n in range(1, nmax + 1):
        out += list(dags.enum_shapes(n, max_refs=2))
    out.append(((1, 2, 3), (), (), ()))
    out.append(((1, 2, 3, 4), (), (), (), ()))
    out.append(((1, 1, 2), (2,), ()))
    return out


# ------------------------------------------------------------------ oracle
def all_cells(rc, acc=None):
    if acc is None:
        acc = {}
    k = (rc.hash(), rc.special, rc.bits)
    if k not in acc:
        acc[k] = rc
        for r in rc.refs:
            all_cells(r, acc)
    return acc


def check_tree(rec, rc, fn, args, tag):
    """build rc with the real code via three routes, compare every cell with the reference"""
    from pytoniq_core.boc import Cell
    cells = all_cells(rc)
    for c in cells.values():
        if c.type == RC.PRUNED:
            rec.covered(f'pruned-mask:{c.mask}')
        elif c.type == RC.ORD and c.mask:
            rec.covered(f'ancestor-mask:{c.mask}')
        elif c.type == RC.LIB:
            rec.covered('type:lib')
        elif c.type == RC.MPROOF:
            rec.covered('type:mproof')
        elif c.type == RC.MUPDATE:
            rec.covered('type:mupdate')
    # stored hashes are only used where their layout is unambiguous (every level mask in the tree contiguous from the bottom)
    contiguous = all(c.mask in (0, 1, 3, 7) for c in cells.values())
    for route in ('builder', 'ctor', 'boc') + (('boc+hashes',) if contiguous else ()):
        try:
            if route.startswith('boc'):
                data = RB.encode([rc], with_hashes=(lambda c: True) if route == 'boc+hashes' else (lambda c: False))
                root = Cell.one_from_boc(data)
                rec.covered('route:' + route)
                if lib_canon(root) != RC.canon(rc):
                    rec.violation(f'{tag}:boc-structure', f'parsing reference BoC bytes of {rc!r} gives a different tree', fn, args)
                    return False
                libs = {}
                stack = [(root, rc)]
                while stack:
                    lc, r = stack.pop()
                    libs[(r.hash(), r.special, r.bits)] = lc
                    stack.extend(zip(lc.refs, r.refs))
            else:
                libs = {}
                to_lib(rc, libs, route)
            rec.trans(len(libs))
        except Exception as e:
            bad_masks = sorted({c.mask for c in cells.values() if c.mask})
            rec.violation(f'{tag}:construct:{route}', f'spec-valid tree {rc!r} (masks present {bad_masks}) cannot be built via {route}: {exc_name(e)}: {e}', fn, args)
            rec.outcome(f'raise:{route}')
            return False
        for k, lc in libs.items():
            r = cells[k]
            rec.trace()
            try:
                got = lib_levels(lc)
            except Exception as e:
                rec.violation(f'{tag}:observe:{route}', f'get_hash/get_depth raised on {r!r} type {r.type} mask {r.mask}: {exc_name(e)}: {e}', fn, args)
                return False
            want = ref_levels(r)
            # the explicitly recomputed representation (hash) is the one of the cell's own level, for every cell type
            try:
                if lc.calculate_representation_hash() != r.hash() or lc.get_representation() != r.representation():
                    rec.violation(f'{tag}:representation', f'cell type {r.type} mask {r.mask} in {rc!r} via {route}: calculate_representation_hash() / get_representation() '
                                  f'is not the representation whose SHA-256 is the cell\'s hash', fn, args)
                    return False
            except Exception as e:
                rec.violation(f'{tag}:representation', f'cell type {r.type} mask {r.mask} in {rc!r} via {route}: get_representation raised {exc_name(e)}: {e}', fn, args)
                return False
            if got != want or lc.hash != r.hash():
                what = 'mask' if got[0] != want[0] else next((f'hash({l})' for l in range(4) if got[1][l] != want[1][l]),
                                                              next((f'depth({l})' for l in range(4) if got[2][l] != want[2][l]), 'hash'))
                rec.violation(f'{tag}:{what}', f'cell type {r.type} mask {r.mask} in {rc!r} via {route}: {what} differs '
                              f'(lib mask {got[0]}, depths {got[2]} vs ref {want[2]})', fn, args)
                rec.outcome('DISAGREE')
                return False
            if route == 'builder':
                # objects DERIVED from the cell are the same cell: type, level mask and every per-level hash / depth survive a copy and a
                # trip through a slice (the library itself returns slice.to_cell() for special slices, e.g. pruned transactions)
                from pytoniq_core.boc import Slice, Builder
                derived = [('copy', lambda: lc.copy()), ('begin_parse.to_cell', lambda: lc.begin_parse().to_cell()), ('Slice.from_cell.to_cell', lambda: Slice.from_cell(lc).to_cell()),
                           ('slice.copy.to_cell', lambda: lc.begin_parse().copy().to_cell()), ('to_slice.to_cell', lambda: lc.to_slice().to_cell())]
                if r.special:
                    def via_builder_slice(lc=lc, r=r):
                        b = Builder(type_=r.type).store_bits(r.bits)
                        for x in lc.refs:
                            b.store_ref(x)
                        return b.to_slice().to_cell()
                    derived.append(('Builder(type_).to_slice.to_cell', via_builder_slice))
                for dname, thunk in derived:
                    rec.trans()
                    try:
                        dc = thunk()
                        dgot = (lib_levels(dc), dc.hash, dc.type_, dc.is_exotic)
                    except Exception as e:
                        rec.violation(f'{tag}:derived-raises:{dname}', f'cell type {r.type} mask {r.mask} in {rc!r}: {dname} raised {exc_name(e)}: {e}', fn, args)
                        return False
                    if dgot != (want, r.hash(), lc.type_, lc.is_exotic):
                        rec.violation(f'{tag}:derived:{dname}', f'cell type {r.type} mask {r.mask} in {rc!r}: the cell obtained by {dname} is another cell '
                                      f'(type {dc.type_}, mask {dgot[0][0]} vs type {lc.type_}, mask {want[0]})', fn, args)
                        rec.outcome('DISAGREE')
                        return False
                rec.covered('route:derived')
    rec.outcome('agree')
    return True


# ------------------------------------------------------------------ raw pruned cells
def case_raw(rec, mask_a, mask_b, wrap):
    """pruned cells with masks a (and b, 0 = none) under one ordinary parent, below `wrap` Merkle proofs"""
    rec.case('raw')
    args = {'mask_a': mask_a, 'mask_b': mask_b, 'wrap': wrap}
    seed = rec.seed

    def pr(mask, tag):
        n = bin(mask).count('1')
        hs = [filler(seed, f'c02-{tag}-{mask}-{i}', 32) for i in range(n)]
        ds = [int.from_bytes(filler(seed, f'c02d-{tag}-{mask}-{i}', 2), 'big') % 1000 for i in range(n)]
        return RC.pruned_raw(mask, hs, ds)
    kids = [pr(mask_a, 'a')]
    if mask_b:
        kids.append(pr(mask_b, 'b'))
    kids.append(RC.RCell('1'))
    t = RC.RCell('0101', kids)
    for _ in range(wrap):
        t = RC.RCell('11', (RC.mproof(t), RC.library(bytes(32))))
    rec.state(('raw', mask_a, mask_b, wrap))
    rec.nontriv(('raw', mask_a, mask_b, wrap))
    check_tree(rec, t, 'case_raw', args, 'raw')


def case_raw_update(rec, mask_old, mask_new, wrap):
    """Merkle update whose old side holds a pruned cell with mask_old (0 = none) and whose new side one with mask_new,
    below `wrap` Merkle proofs: all 64 (old, new) pairs - the update's mask is ((old | new) >> 1)"""
    rec.case('raw-update')
    args = {'mask_old': mask_old, 'mask_new': mask_new, 'wrap': wrap}
    seed = rec.seed

    def side(mask, tag):
        kids = []
        if mask:
            n = bin(mask).count('1')
            hs = [filler(seed, f'c02u-{tag}-{mask}-{i}', 32) for i in range(n)]
            ds = [int.from_bytes(filler(seed, f'c02ud-{tag}-{mask}-{i}', 2), 'big') % 1000 for i in range(n)]
            kids.append(RC.pruned_raw(mask, hs, ds))
        kids.append(RC.RCell('1' if tag == 'o' else '0'))
        return RC.RCell('0101' if tag == 'o' else '1010', kids)
    t = RC.RCell('11', (RC.mupdate(side(mask_old, 'o'), side(mask_new, 'n')), RC.library(bytes(32))))
    for _ in range(wrap):
        t = RC.RCell('11', (RC.mproof(t), RC.library(bytes(32))))
    rec.state(('raw-update', mask_old, mask_new, wrap))
    rec.nontriv(('raw-update', mask_old, mask_new, wrap))
    if check_tree(rec, t, 'case_raw_update', args, 'raw-update'):
        rec.covered('update:sides-differ' if mask_old != mask_new else 'update:sides-equal')


def case_twin(rec, mask, first):
    """an exotic cell (pruned branch with the given mask; mask 0 = library reference) and an ORDINARY cell holding exactly the
    same bits, side by side under one parent - built ordinary-first and exotic-first (distinct contents per order, so that
    both orders are 'first' once per process)"""
    rec.case('twin')
    args = {'mask': mask, 'first': first}
    seed = rec.seed
    if mask:
        n = bin(mask).count('1')
        hs = [filler(seed, f'c02t-{first}-{mask}-{i}', 32) for i in range(n)]
        ds = [int.from_bytes(filler(seed, f'c02td-{first}-{mask}-{i}', 2), 'big') % 1000 for i in range(n)]
        ex = RC.pruned_raw(mask, hs, ds)
    else:
        ex = RC.library(filler(seed, f'c02t-lib-{first}', 32))
    twin = RC.RCell(ex.bits)
    # to_lib builds the references of a cell last-to-first
    kids = (twin, ex) if first == 'exotic' else (ex, twin)
    t = RC.RCell('0110', kids)
    rec.state(('twin', mask, first))
    rec.nontriv(('twin', mask, first))
    if check_tree(rec, t, 'case_twin', args, 'twin'):
        rec.covered('twin')


def shard_raw(rec):
    for mask in range(0, 8):
        for first in ('exotic', 'ordinary'):
            case_twin(rec, mask, first)
    for a in range(1, 8):
        for b in range(0, 8):
            for wrap in (0, 1, 2, 3):
                case_raw(rec, a, b, wrap)
    for a in range(0, 8):
        for b in range(0, 8):
            for wrap in (0, 1, 2, 3):
                case_raw_update(rec, a, b, wrap)
    rec.sample({'raw_pruned_masks': [6, 5], 'parent': 'ordinary', 'merkle_wrappers': 2})


# ------------------------------------------------------------------ constructed trees
def strip_fresh(term, d=0):
    """remove every pruned branch whose level equals the merkle depth it sits at (the prunes made for the
    innermost enclosing Merkle cell); older prunes (level < depth) are data and stay"""
    k = term[0]
    if k == 'n':
        return ('n', term[1], [strip_fresh(c, d) for c in term[2]])
    if k == 'p':
        inner = strip_fresh(term[2], d)
        return inner if term[1] == d else ('p', term[1], inner)
    if k == 'm':
        return ('m', strip_fresh(term[1], d + 1))
    if k == 'u':
        return ('u', strip_fresh(term[1], d + 1), strip_fresh(term[2], d + 1))
    return term


def _invariance(rec, term, rc, fn, args):
    """library-only oracle.  term = ('m', X): the level-0 hash of X (the virtual root the proof stands for)
    is the same whether or not subtrees are replaced by pruned branches of the current level - at every
    nesting depth at once (a Merkle cell's own hash uses its child's hash one level up, which the fresh
    prunes of that depth leave unchanged)."""
    full = ev(strip_fresh(term))
    assert full.refs[0].hash(0) == rc.refs[0].hash(0), 'reference model violates pruning invariance'
    try:
        a = to_lib(rc).refs[0].get_hash(0)
        b = to_lib(full).refs[0].get_hash(0)
    except Exception:
        return      # construction failures are reported by check_tree
    rec.trace()
    if a != b:
        rec.violation('invariance', f'level-0 hash of the proved root changes when subtrees are pruned: {term}', fn, args)


def case_layer1(rec, shape, states):
    shape = tuple(tuple(s) for s in shape)
    rec.case('layer1')
    args = {'shape': [list(s) for s in shape], 'states': list(states)}
    term = ('m', shape_term(shape, states))
    rc = ev(term)
    rec.state(('l1', shape, tuple(states)))
    if any(states):
        rec.nontriv(('l1', shape, tuple(states)))
    if check_tree(rec, rc, 'case_layer1', args, 'layer1'):
        _invariance(rec, term, rc, 'case_layer1', args)


def shard_layer1(rec, nmax, part, parts):
    i = 0
    for shape in base_shapes(nmax):
        for states in itertools.product((0, 1), repeat=len(shape)):
            i += 1
            if i % parts != part:
                continue
            case_layer1(rec, shape, states)
    rec.sample({'layer1': {'shape': [[1, 2], [2], []], 'pruned_nodes': [0, 1, 0], 'wrapped': 'merkle proof'}})


HOSTS = [  # (shape, slot index)
    (((1,), ()), 1),
    (((1, 2), (), ()), 1),
    (((1, 2), (), ()), 2),
    (((1, 2), (2,), ()), 2),
]


def case_layer2(rec, shape, states, host, hstates, update):
    """Proof( HOST[ slot := Proof( T[states in keep/p1/p2] ) ][hstates in keep/p1] ); update: the inner
    Merkle cell is a Merkle update of (T[states], T[no prunes])"""
    shape = tuple(tuple(s) for s in shape)
    rec.case('layer2')
    args = {'shape': [list(s) for s in shape], 'states': list(states), 'host': host, 'hstates': list(hstates), 'update': update}
    hshape, slot = HOSTS[host]
    inner_t = shape_term(shape, states, base=4)
    if update:
        inner = ('u', inner_t, shape_term(shape, [0] * len(shape), base=8))
    else:
        inner = ('m', inner_t)
    term = ('m', shape_term(hshape, hstates, slot=slot, slot_term=inner))
    rc = ev(term)
    key = ('l2', shape, tuple(states), host, tuple(hstates), update)
    rec.state(key)
    rec.nontriv(key)
    if check_tree(rec, rc, 'case_layer2', args, 'layer2'):
        _invariance(rec, term, rc, 'case_layer2', args)


def shard_layer2(rec, nmax, part, parts):
    i = 0
    for shape in base_shapes(nmax):
        if len(shape) > 3:
            continue
        for states in itertools.product((0, 1, 2), repeat=len(shape)):
            for host in range(len(HOSTS)):
                hshape, slot = HOSTS[host]
                for hstates in itertools.product((0, 1), repeat=len(hshape)):
                    if hstates[0]:
                        continue         # pruning the host root hides everything
                    for update in (False, True):
                        i += 1
                        if i % parts != part:
                            continue
                        case_layer2(rec, shape, states, host, hstates, update)
    rec.sample({'layer2': 'Proof(host[slot := Proof(T[prune levels 1/2])][host prunes level 1])'})


def case_layer3(rec, shape, states, h1, h2):
    """Proof( n[ leaf(h2), Proof( n[ leaf(h1), Proof( T[states in keep/p1/p2/p3] ) ] ) ] )
    h1 in 0..2 / h2 in 0..1: prune level of the side leaf at that layer (0 = kept)"""
    shape = tuple(tuple(s) for s in shape)
    rec.case('layer3')
    args = {'shape': [list(s) for s in shape], 'states': list(states), 'h1': h1, 'h2': h2}
    t3 = ('m', shape_term(shape, states, base=8))
    leaf1 = ('n', 1, [])
    leaf2 = ('n', 2, [])
    mid = ('m', ('n', 3, [('p', h1, leaf1) if h1 else leaf1, t3]))
    term = ('m', ('n', 0, [('p', h2, leaf2) if h2 else leaf2, mid]))
    rc = ev(term)
    key = ('l3', shape, tuple(states), h1, h2)
    rec.state(key)
    rec.nontriv(key)
    rec.covered('layers:3')
    if check_tree(rec, rc, 'case_layer3', args, 'layer3'):
        _invariance(rec, term, rc, 'case_layer3', args)


def shard_layer3(rec, nmax, part, parts):
    i = 0
    for shape in base_shapes(nmax):
        if len(shape) > 3:
            continue
        for states in itertools.product((0, 1, 2, 3), repeat=len(shape)):
            for h1 in (0, 1, 2):
                for h2 in (0, 1):
                    i += 1
                    if i % parts != part:
                        continue
                    case_layer3(rec, shape, states, h1, h2)
    rec.sample({'layer3': 'three nested proofs, inner tree cells pruned at levels 1..3 -> masks with gaps by construction'})


# ------------------------------------------------------------------ build / parse histories (sixth session)
def _realise(rc, route):
    """build rc with the real code: 'boc' = parse reference-encoded bytes, 'builder' = Builder(type_) bottom-up; returns {key: lib cell}"""
    from pytoniq_core.boc import Cell
    if route == 'boc':
        root = Cell.one_from_boc(RB.encode([rc]))
        libs = {}
        stack = [(root, rc)]
        while stack:
            lc, r = stack.pop()
            libs[(r.hash(), r.special, r.bits)] = lc
            if len(lc.refs) != len(r.refs):
                raise AssertionError('parsed tree has another shape')
            stack.extend(zip(lc.refs, r.refs))
        return libs
    if route == 'own-boc':
        # built with Builder(type_), written by the library's own to_boc, parsed again: a tree that holds a cell AND the pruned branch
        # standing for it must come back as it went in
        root = Cell.one_from_boc(to_lib(rc, {}, 'builder').to_boc())
        if lib_canon(root) != RC.canon(rc):
            raise AssertionError('the tree parsed from the library\'s own to_boc() is not the tree that was serialised')
        libs = {}
        stack = [(root, rc)]
        while stack:
            lc, r = stack.pop()
            libs[(r.hash(), r.special, r.bits)] = lc
            stack.extend(zip(lc.refs, r.refs))
        return libs
    libs = {}
    to_lib(rc, libs, route)
    return libs


def _verify(libs, rc):
    cells = all_cells(rc)
    for k, lc in libs.items():
        r = cells[k]
        got, want = lib_levels(lc), ref_levels(r)
        if got != want or lc.hash != r.hash() or lc.type_ != r.type:
            return f'cell type {r.type} mask {r.mask} ({len(r.bits)} bits, {len(r.refs)} refs): lib type {lc.type_} mask {got[0]} depths {got[2]} vs ref depths {want[2]}'
        if lc.calculate_representation_hash() != r.hash():
            return f'cell type {r.type} mask {r.mask}: recomputed representation hash differs'
    return None


def family(shape):
    """the trees that share cells of one base tree: the plain tree, every single-layer proof (every prune set), and the Merkle
    updates (pruned old side, full new side)"""
    shape = tuple(tuple(s) for s in shape)
    fam = [('plain', shape_term(shape, [0] * len(shape)))]
    for states in itertools.product((0, 1), repeat=len(shape)):
        fam.append((f'proof{list(states)}', ('m', shape_term(shape, states))))
    for states in itertools.product((0, 1), repeat=len(shape)):
        if any(states):
            fam.append((f'update{list(states)}', ('u', shape_term(shape, states), shape_term(shape, [0] * len(shape)))))
    return fam


def case_pair_history(rec, shape, ia, ib, ra, rb):
    """tree A is realised (route ra) and KEPT ALIVE, then tree B of the same family (route rb): B, and afterwards A again, must be the
    cells the reference defines - nothing may be carried over from one construction / parse to the next"""
    rec.case('pair-history')
    fam = family(shape)
    (na, ta), (nb, tb) = fam[ia], fam[ib]
    args = {'shape': [list(x) for x in shape], 'ia': ia, 'ib': ib, 'ra': ra, 'rb': rb}
    a, b = ev(ta), ev(tb)
    rec.state(('pair', tuple(tuple(x) for x in shape), ia, ib, ra, rb))
    rec.nontriv(('pair', tuple(tuple(x) for x in shape), ia, ib, ra, rb))
    try:
        la = _realise(a, ra)
        lb = _realise(b, rb)
        rec.trans(len(la) + len(lb))
        rec.trace(2)
        bad = _verify(lb, b)
        who = nb
        if bad is None:
            bad = _verify(la, a)
            who = na + ' (re-inspected after the second tree was made)'
    except Exception as e:
        rec.violation(f'pair-history:raises:{ra}>{rb}', f'{na} via {ra}, kept alive, then {nb} via {rb} of shape {shape}: {exc_name(e)}: {e}', 'case_pair_history', args)
        return
    if bad:
        rec.violation(f'pair-history:{ra}>{rb}', f'{na} via {ra}, kept alive, then {nb} via {rb} of shape {shape}: in {who}: {bad}', 'case_pair_history', args)
        rec.outcome('DISAGREE')
        return
    rec.covered('pair-history')
    rec.outcome('agree')


def shard_pairs(rec, nmax, part, parts):
    i = 0
    for shape in base_shapes(nmax):
        if len(shape) > nmax:
            continue
        n = len(family(shape))
        for ia in range(n):
            for ib in range(n):
                if ia == ib:
                    continue
                for ra in ('boc', 'builder', 'own-boc'):
                    for rb in ('boc', 'builder', 'own-boc'):
                        i += 1
                        if i % parts != part:
                            continue
                        case_pair_history(rec, shape, ia, ib, ra, rb)
    rec.sample({'pair_history': 'proof[0,1,0] parsed from a BoC and kept alive, then the plain tree parsed; both verified'})


def shards(tier, seed):
    nmax = 3 if tier == 'quick' else 4
    out = [{'fn': 'shard_raw', 'args': {}}]
    for p in range(4):
        out.append({'fn': 'shard_layer1', 'args': {'nmax': nmax, 'part': p, 'parts': 4}})
    n23 = 3 if tier == 'quick' else 4
    parts = 12 if tier == 'quick' else 48
    for p in range(parts):
        out.append({'fn': 'shard_layer2', 'args': {'nmax': n23, 'part': p, 'parts': parts}, 'prio': 2})
    for p in range(parts):
        out.append({'fn': 'shard_layer3', 'args': {'nmax': n23, 'part': p, 'parts': parts}, 'prio': 3})
    if tier == 'thorough':
        for p in range(8):
            out.append({'fn': 'shard_layer1', 'args': {'nmax': 5, 'part': p, 'parts': 8}, 'prio': 1})
    pp = 8 if tier == 'quick' else 32
    for p in range(pp):
        out.append({'fn': 'shard_pairs', 'args': {'nmax': 3 if tier == 'quick' else 4, 'part': p, 'parts': pp}, 'prio': 2})
    return out
