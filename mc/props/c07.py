"""C07 - cell capacity, value ranges and read bounds are enforced (explorer S over builder fill states)."""
import itertools
from ..ref import cell as RC
from ..ref import bits as RBITS
from .common import to_lib, exc_name, filler_bits

ID = 'C07'
TITLE = 'Cell capacity, value ranges and read bounds are enforced'
EXPLORER = 'S (explicit-state: all 5120 builder fill states x store alphabet, BFS over store histories) + E (ranges, over-reads)'
RULE = ('states: every builder fill state (bits 0..1023 x refs 0..4), reached by a canonical history on a fresh Builder; transitions: every '
        'store operation (bit, bits, uint, int, var_uint, var_int, coins, bytes, string, snake bytes, 4 address forms, ref, maybe_ref, dict, '
        'cell, fresh slice, partly consumed slice) with sizes {1,7,8,9,64,256,257, exactly the remaining room, room+1, room+8} and 0..4 refs; '
        'oracle: raises iff bits+need > 1023 or refs+need > 4, otherwise grows by exactly need. BFS over store histories from the empty builder '
        '(differential: fill state equals the reference arithmetic after every step). ranges: every width 1..256/257 x {2^w, -1} / '
        '{2^(w-1), -2^(w-1)-1} must raise, the neighbours must not. depth: end_cell with a child of depth 1022 ok / 1023 refused. reads: every '
        'remaining length r in 0..64 + {255,1022,1023} x every consuming read asking for r+1.. bits (or one more ref than remain) must raise, '
        'exact-fit reads must succeed with the right data; slices from 8 routes. non-trivial = need > 1 bit or refs involved; states = '
        'distinct (fill state) / (slice route, remaining); transitions = store/load calls; traces = transitions whose outcome was compared '
        'with the reference capacity arithmetic')
RULE += ' Fifth session: width 0 in the range alphabet (value 0 accepted in no bits, any other value refused).'
LEVEL_TEXT = ('Explicit-state exploration of the builder: all 5120 fill states are constructed with the real Builder and every store operation of '
              'the alphabet is fired in each (accept-iff-fits, grows-by-need), plus BFS over store histories; complete width sweep for range '
              'errors; complete small-remaining-length sweep for over-reads on slices obtained through every route.')
LEVEL_NOTE = 'trusted: reference capacity arithmetic (need bits/refs per operation from mc/ref/bits.py encodings)'
TECHNIQUE = 'explicit-state exploration of all builder fill states x store operations, BFS over store histories, exhaustive over-read sweep'
ASSUMPTIONS = ['sizes between the listed size classes behave like their neighbours (all fill levels are complete)']
NOT_ASSERTED = ['state of a builder after a refused composite store (the property does not require atomicity)',
                'preload_* over-reads (the property speaks of consuming reads)']
RULE += ' Sixth session: store_bits argument forms (text with separators, iterators, generators, tuples, map objects), store_bytes argument forms (bytearray, memoryview, wide-item buffers); every cell taken from the builder during a BFS history is re-inspected after every later step; no route yields a cell with more than 4 references (refs assigned / += on the builder, plain constructor, BoC descriptor 5..7); after every rightly refused store the builder still enforces its capacity.'


def BOUNDS(tier):
    return {'fill_states': 5120, 'bfs_depth': 3 if tier == 'quick' else 6, 'widths': '0..257', 'read_remaining': '0..64,255,1022,1023', 'exhaustive': True}


def REQUIRED_COVER(tier):
    return {'fill:1023/4', 'op:store_slice_consumed', 'op:snake', 'fits-exactly', 'overflow-by-one', 'range:257', 'range:0', 'depth:1023', 'read:route:plain', 'read:route:vm',
            'read:exact', 'bfs', 'ref-limit', 'after-refusal'}


LEAF = RC.RCell('1')


def mk_builder(b, r):
    from pytoniq_core.boc import Builder
    bd = Builder()
    if b:
        bd.store_bits(('10' * 512)[:b])
    leaf = to_lib(LEAF)
    for _ in range(r):
        bd.store_ref(leaf)
    return bd


def ops_for(room_bits, room_refs, seed=0):
    """store alphabet for a builder with the given room: list of (name, need_bits, need_refs, thunk(builder))"""
    from pytoniq_core.boc import Builder, Address, ExternalAddress
    leaf = to_lib(LEAF)
    out = []
    sizes = sorted({1, 7, 8, 9, 64, 256, 257, room_bits, room_bits + 1, room_bits + 8, room_bits - 1} - {0, -1})
    sizes = [s for s in sizes if 1 <= s <= 1031]
    out.append(('store_bit', 1, 0, lambda b: b.store_bit(1)))
    out.append(('store_bool', 1, 0, lambda b: b.store_bool(True)))
    def bits_arg(form, n):
        """the same n bits in every argument form store_bits accepts; a TvmBitarray longer than a cell arises from the
        caller's own `+` of two loaded bit strings"""
        from bitarray import bitarray
        from pytoniq_core.boc.tvm_bitarray import TvmBitarray
        if form == 'str':
            return '1' * n
        if form == 'list':
            return [1] * n
        if form == 'bitarray':
            return bitarray('1' * n)
        if form == 'tuple':
            return (1,) * n
        if form == 'str_sep':
            # bitarray's text form: white space and '_' between the digits are separators, not bits
            return ' '.join(['1_1' if i % 2 else '11' for i in range(n // 2)] + (['1'] if n % 2 else [])) + ' '
        if form == 'iter':
            return iter([1] * n)
        if form == 'gen':
            return (1 for _ in range(n))
        if form == 'range01':
            return map(int, '1' * n)
        parts = []
        left = n
        while left > 0 or not parts:
            k = min(left, 1000)
            t = TvmBitarray()
            t.extend('1' * k)
            parts.append(t)
            left -= k
        acc = parts[0]
        for t in parts[1:]:
            acc = acc + t
        return acc
    for n in sizes + [2046]:
        for form in ('str', 'list', 'bitarray', 'tvm', 'tuple', 'str_sep', 'iter', 'gen', 'range01'):
            if form == 'str' and n <= 1023:
                out.append((f'store_bits:{n}', n, 0, lambda b, n=n: b.store_bits('1' * n)))
            else:
                out.append((f'store_bits[{form}]:{n}', n, 0, lambda b, n=n, form=form: b.store_bits(bits_arg(form, n))))
    for n in sizes:
        if n <= 256:
            out.append((f'store_uint:{n}', n, 0, lambda b, n=n: b.store_uint((1 << n) - 1, n)))
        if n <= 257:
            out.append((f'store_int:{n}', n, 0, lambda b, n=n: b.store_int(-(1 << (n - 1)), n)))
    # bytes / string: k bytes
    for k in sorted({1, room_bits // 8, room_bits // 8 + 1, 127}):
        if 1 <= k <= 128:
            out.append((f'store_bytes:{k}', 8 * k, 0, lambda b, k=k: b.store_bytes(b'\xa5' * k)))
            if k <= 127:
                out.append((f'store_string:{k}', 8 * k, 0, lambda b, k=k: b.store_string('s' * k)))
            # the same k bytes as other bytes-like objects (items wider than one byte: the length in items is not the length in bytes)
            import array
            out.append((f'store_bytes[bytearray]:{k}', 8 * k, 0, lambda b, k=k: b.store_bytes(bytearray(b'\xa5' * k))))
            out.append((f'store_bytes[memoryview]:{k}', 8 * k, 0, lambda b, k=k: b.store_bytes(memoryview(b'\xa5' * k))))
            if k % 4 == 0:
                out.append((f'store_bytes[array-I]:{k}', 8 * k, 0, lambda b, k=k: b.store_bytes(array.array('I', [0xa5a5a5a5] * (k // 4)))))
            if k % 8 == 0:
                out.append((f'store_bytes[memoryview-Q]:{k}', 8 * k, 0, lambda b, k=k: b.store_bytes(memoryview(b'\xa5' * k).cast('Q'))))
    for k in (128, 256, 512):   # wide-item buffers whose ITEM count would fit
        import array
        out.append((f'store_bytes[array-I]:{k}', 8 * k, 0, lambda b, k=k: b.store_bytes(array.array('I', [0xa5a5a5a5] * (k // 4)))))
        out.append((f'store_bytes[memoryview-Q]:{k}', 8 * k, 0, lambda b, k=k: b.store_bytes(memoryview(b'\xa5' * k).cast('Q'))))
    # var ints: length field lb, value with byte length L
    for lb in (3, 4, 5):
        Ls = {0, 1, (1 << lb) - 1}
        if room_bits - lb >= 0:
            Ls |= {(room_bits - lb) // 8, (room_bits - lb) // 8 + 1}
        for L in sorted(Ls):
            if 0 <= L < (1 << lb):
                v = (1 << (8 * L)) - 1 if L else 0
                out.append((f'store_var_uint:{lb}:{L}', lb + 8 * L, 0, lambda b, v=v, lb=lb: b.store_var_uint(v, lb)))
                vs = -(1 << (8 * L - 1)) if L else 0
                out.append((f'store_var_int:{lb}:{L}', lb + 8 * L, 0, lambda b, vs=vs, lb=lb: b.store_var_int(vs, lb)))
    for L in (0, 1, 15):
        v = (1 << (8 * L)) - 1 if L else 0
        out.append((f'store_coins:{L}', 4 + 8 * L, 0, lambda b, v=v: b.store_coins(v)))
    # addresses
    out.append(('store_address:none', 2, 0, lambda b: b.store_address(None)))
    for ln in sorted({1, 9, 511, max(0, room_bits - 11), max(0, room_bits - 10)}):
        if 0 <= ln <= 511:
            out.append((f'store_address:ext:{ln}', 11 + ln, 0, lambda b, ln=ln: b.store_address(ExternalAddress((1 << ln) - 1 if ln else 0, ln))))
    acc = bytes(range(32))
    out.append(('store_address:std', 267, 0, lambda b: b.store_address(Address((-1, acc)))))
    out.append(('store_address:str', 267, 0, lambda b: b.store_address(Address((0, acc)).to_str())))

    def anycast(b, depth):
        a = Address((0, acc))
        a.set_anycast(depth, 1)
        return b.store_address(a)
    for depth in (1, 30):
        out.append((f'store_address:anycast:{depth}', 267 + 5 + depth, 0, lambda b, depth=depth: anycast(b, depth)))
    # refs
    out.append(('store_ref', 0, 1, lambda b: b.store_ref(leaf)))
    out.append(('store_maybe_ref:none', 1, 0, lambda b: b.store_maybe_ref(None)))
    out.append(('store_maybe_ref:cell', 1, 1, lambda b: b.store_maybe_ref(leaf)))
    out.append(('store_dict:none', 1, 0, lambda b: b.store_dict(None)))
    out.append(('store_dict:cell', 1, 1, lambda b: b.store_dict(leaf)))
    # cells and slices with cb bits and cr refs
    for cb in sorted({0, 1, 9, room_bits, room_bits + 1} - {-1}):
        if not 0 <= cb <= 1023:
            continue
        for cr in sorted({0, 1, room_refs, room_refs + 1, 4}):
            if not 0 <= cr <= 4:
                continue
            def mkcell(cb=cb, cr=cr):
                bd = Builder()
                bd.store_bits('1' * cb)
                for _ in range(cr):
                    bd.store_ref(leaf)
                return bd.end_cell()
            out.append((f'store_cell:{cb}:{cr}', cb, cr, lambda b, mkcell=mkcell: b.store_cell(mkcell())))
            out.append((f'store_slice:{cb}:{cr}', cb, cr, lambda b, mkcell=mkcell: b.store_slice(mkcell().begin_parse())))
    # partly consumed slices: source cell has (cb+skip) bits and (cr+used) refs, after consuming skip bits / used refs (cb, cr) remain
    for cb, cr, skip, used in ((5, 1, 3, 1), (0, 0, 8, 4), (room_bits, room_refs, 1, min(1, 4 - room_refs)), (3, room_refs, 0, 4 - room_refs),
                               (room_bits + 1, 0, 1, 2), (1, room_refs + 1, 2, 0)):
        if not (0 <= cb and cb + skip <= 1023 and 0 <= cr and cr + used <= 4):
            continue

        def mkslice(cb=cb, cr=cr, skip=skip, used=used):
            bd = Builder()
            bd.store_bits('01' * 512 if False else ('1' * (cb + skip)))
            for _ in range(cr + used):
                bd.store_ref(leaf)
            s = bd.end_cell().begin_parse()
            if skip:
                s.skip_bits(skip)
            for _ in range(used):
                s.load_ref()
            return s
        out.append((f'store_slice_consumed:{cb}:{cr}:{skip}:{used}', cb, cr, lambda b, mkslice=mkslice: b.store_slice(mkslice())))
    # snake: fits inline when len <= available bytes (no ref needed); else needs one ref
    avail = room_bits // 8
    for L in sorted({0, 1, avail, avail + 1, avail + 200}):
        need_ref = 1 if L > avail else 0
        out.append((f'store_snake:{L}', 8 * min(L, avail), need_ref, lambda b, L=L: b.store_snake_bytes(b'\x5a' * L)))
    return out


def case_state(rec, b, r):
    """all store operations from fill state (b bits, r refs)"""
    room_b, room_r = 1023 - b, 4 - r
    args = {'b': b, 'r': r}
    rec.case('fill-state')
    rec.state(('fill', b, r))
    if (b, r) == (1023, 4):
        rec.covered('fill:1023/4')
    for name, nb, nr, thunk in ops_for(room_b, room_r):
        try:
            bd = mk_builder(b, r)
        except Exception as e:
            rec.violation('canonical-fill', f'cannot fill a builder to {b} bits / {r} refs: {exc_name(e)}: {e}', 'case_state', args)
            return
        fits = nb <= room_b and nr <= room_r
        rec.trans()
        rec.trace()
        op = name.split(':')[0]
        rec.covered(f'op:{op}') if op in ('store_slice_consumed',) else None
        if op == 'store_snake':
            rec.covered('op:snake')
        if fits and nb == room_b and nb > 0:
            rec.covered('fits-exactly')
        if not fits and (nb == room_b + 1 or nr == room_r + 1):
            rec.covered('overflow-by-one')
        try:
            thunk(bd)
            raised = None
        except Exception as e:
            raised = e
        if fits and raised is not None:
            rec.violation(f'refused-fit:{op}', f'{name} needs {nb} bits/{nr} refs, room is {room_b}/{room_r}, but raised {exc_name(raised)}: {raised}', 'case_state', args)
            rec.outcome(f'REFUSED:{op}')
            continue
        if not fits and raised is None:
            rec.violation(f'accepted-overflow:{op}', f'{name} needs {nb} bits/{nr} refs, room is {room_b}/{room_r}, but did not raise '
                          f'(builder now {len(bd.bits)} bits/{len(bd.refs)} refs)', 'case_state', args)
            rec.outcome(f'OVERFLOW:{op}')
            continue
        if fits:
            if len(bd.bits) != b + nb or len(bd.refs) != r + nr:
                rec.violation(f'grew-wrong:{op}', f'{name}: builder went from {b}/{r} to {len(bd.bits)}/{len(bd.refs)}, expected +{nb}/+{nr}', 'case_state', args)
                continue
            try:
                c = bd.end_cell()
                if len(c.bits) > 1023 or len(c.refs) > 4 or c.get_depth(0) > 1023 or len(c.bits) != b + nb:
                    rec.violation(f'cell-limits:{op}', f'{name}: produced cell with {len(c.bits)} bits / {len(c.refs)} refs', 'case_state', args)
            except Exception as e:
                rec.violation(f'end_cell:{op}', f'{name}: end_cell raised {exc_name(e)}: {e}', 'case_state', args)
            rec.outcome('fits-ok')
        else:
            rec.outcome('refused-ok')
            # the builder goes on being used after it refused a store (sixth session, wave 9): whatever a refused composite store left
            # behind, the capacity is enforced as before - one bit / one reference too many is refused, the cell taken is within the limits
            cur_b, cur_r = len(bd.bits), len(bd.refs)
            probes = [('store_bits', lambda: bd.store_bits('1' * (1024 - cur_b))), ('store_bytes', lambda: bd.store_bytes(b'\xa5' * ((1023 - cur_b) // 8 + 1))),
                      ('store_uint', lambda: bd.store_uint(0, min(256, 1024 - cur_b)) if 1024 - cur_b <= 256 else (_ for _ in ()).throw(OverflowError('n/a')))]
            for pname, probe in probes:
                rec.trans()
                try:
                    probe()
                    rec.violation(f'after-refusal:{op}', f'{name} was refused at {b} bits / {r} refs (builder then at {cur_b} / {cur_r}); after that {pname} of one bit more than '
                                  f'the remaining room was ACCEPTED (builder now {len(bd.bits)} bits)', 'case_state', args)
                    rec.outcome('AFTER-REFUSAL')
                    break
                except Exception:
                    pass
            else:
                try:
                    if cur_r == 4:
                        try:
                            bd.store_ref(to_lib(LEAF))
                            rec.violation(f'after-refusal:{op}', f'{name} was refused; after that a fifth reference was accepted', 'case_state', args)
                        except Exception:
                            pass
                    c = bd.end_cell()
                    if len(c.bits) > 1023 or len(c.refs) > 4:
                        rec.violation(f'after-refusal:{op}', f'{name} was refused; the cell taken afterwards has {len(c.bits)} bits / {len(c.refs)} refs', 'case_state', args)
                    s2 = bd.to_slice()
                    try:
                        s2.load_bits(len(s2.bits) + 1)
                        rec.violation(f'after-refusal:{op}', f'{name} was refused; an over-read on the slice taken from the builder afterwards returned data', 'case_state', args)
                    except Exception:
                        pass
                except Exception as e:
                    rec.violation(f'after-refusal:{op}', f'{name} was refused; end_cell / to_slice afterwards raised {exc_name(e)}: {e}', 'case_state', args)
                rec.covered('after-refusal')
        if nb > 1 or nr:
            rec.nontriv(('t', b, r, name))


def shard_states(rec, lo, hi):
    for b in range(lo, hi + 1):
        for r in range(5):
            case_state(rec, b, r)
    rec.sample({'fill_state': [hi, 3], 'ops': [n for n, *_ in ops_for(1023 - hi, 1)][:12]})


# ------------------------------------------------------------------ BFS over histories
BFS_OPS = [('bit', 1, 0), ('uint9', 9, 0), ('int257', 257, 0), ('bits300', 300, 0), ('coins', 12, 0), ('addr', 267, 0), ('bytes16', 128, 0),
           ('ref', 0, 1), ('maybe', 1, 1), ('cell', 100, 2), ('slice', 7, 1), ('slice_consumed', 6, 1), ('string', 40, 0), ('var_int', 20, 0)]


def _apply_bfs(bd, name):
    from pytoniq_core.boc import Builder, Address
    leaf = to_lib(LEAF)
    if name == 'bit':
        bd.store_bit(0)
    elif name == 'uint9':
        bd.store_uint(257, 9)
    elif name == 'int257':
        bd.store_int(-5, 257)
    elif name == 'bits300':
        bd.store_bits('01' * 150)
    elif name == 'coins':
        bd.store_coins(255)
    elif name == 'addr':
        bd.store_address(Address((-1, bytes(32))))
    elif name == 'bytes16':
        bd.store_bytes(bytes(16))
    elif name == 'ref':
        bd.store_ref(leaf)
    elif name == 'maybe':
        bd.store_maybe_ref(leaf)
    elif name == 'cell':
        bd.store_cell(Builder().store_bits('1' * 100).store_ref(leaf).store_ref(leaf).end_cell())
    elif name == 'slice':
        bd.store_slice(Builder().store_bits('1' * 7).store_ref(leaf).end_cell().begin_parse())
    elif name == 'slice_consumed':
        s = Builder().store_bits('1' * 10).store_ref(leaf).store_ref(leaf).store_ref(leaf).end_cell().begin_parse()
        s.load_bits(4)
        s.load_ref()
        s.load_ref()
        bd.store_slice(s)
    elif name == 'string':
        bd.store_string('hello')
    elif name == 'var_int':
        bd.store_var_int(-30000, 4)
    else:
        raise ValueError(name)


def case_history(rec, hist):
    """replay a store history on a fresh builder; after every step the fill state must equal the reference
    arithmetic; the first op that does not fit must raise (history ends there)"""
    from pytoniq_core.boc import Builder
    rec.case('bfs')
    bd = Builder()
    b = r = 0
    sizes = {n: (nb, nr) for n, nb, nr in BFS_OPS}
    taken = []      # cells taken from the builder on the way (the builder goes on being used): (step, cell, bits, refs, depth)

    def check_taken(upto):
        for j, c, cb, cr, cd in taken:
            real = 0 if not c.refs else 1 + max(x.get_depth(0) for x in c.refs)
            if (len(c.bits), len(c.refs)) != (cb, cr) or c.get_depth(0) != cd or real != cd or len(c.bits) > 1023 or len(c.refs) > 4 or real > 1023:
                rec.violation('bfs-taken-cell', f'history {hist}: the cell taken from the builder after step {j} ({cb} bits / {cr} refs / depth {cd}) is, after step {upto}, '
                              f'{len(c.bits)} bits / {len(c.refs)} refs / reported depth {c.get_depth(0)} / real depth {real}', 'case_history', {'hist': hist})
                return False
        return True
    for i, name in enumerate(hist):
        nb, nr = sizes[name]
        fits = b + nb <= 1023 and r + nr <= 4
        rec.trans()
        try:
            _apply_bfs(bd, name)
            raised = None
        except Exception as e:
            raised = e
        if fits and raised is not None:
            rec.violation(f'bfs-refused:{name}', f'history {hist}: step {i} {name} fits ({b}+{nb} bits, {r}+{nr} refs) but raised {exc_name(raised)}: {raised}',
                          'case_history', {'hist': hist})
            return None
        if not fits:
            if raised is None:
                rec.violation(f'bfs-overflow:{name}', f'history {hist}: step {i} {name} overflows ({b}+{nb} bits, {r}+{nr} refs) but was accepted',
                              'case_history', {'hist': hist})
            return None
        b += nb
        r += nr
        if (len(bd.bits), len(bd.refs)) != (b, r):
            rec.violation(f'bfs-state:{name}', f'history {hist}: after step {i} builder is {len(bd.bits)}/{len(bd.refs)}, reference {b}/{r}', 'case_history', {'hist': hist})
            return None
        if not check_taken(i):
            return None
        try:
            c = bd.end_cell()
        except Exception as e:
            rec.violation('bfs-end_cell', f'history {hist}: end_cell after step {i} raised {exc_name(e)}: {e}', 'case_history', {'hist': hist})
            return None
        taken.append((i, c, b, r, c.get_depth(0)))
        if (len(c.bits), len(c.refs)) != (b, r):
            rec.violation('bfs-taken-cell', f'history {hist}: the cell taken after step {i} has {len(c.bits)} bits / {len(c.refs)} refs, builder {b}/{r}', 'case_history', {'hist': hist})
            return None
    if not check_taken(len(hist)):
        return None
    rec.trace()
    return (b, r)


def shard_bfs(rec, first, depth):
    frontier = [[BFS_OPS[first][0]]]
    seen_states = set()
    while frontier:
        nxt = []
        for hist in frontier:
            st = case_history(rec, hist)
            rec.depth(len(hist))
            if st is None:
                continue
            rec.state(('bfs-fill', st))
            seen_states.add(st)
            if len(hist) < depth:
                for n, _, _ in BFS_OPS:
                    nxt.append(hist + [n])
        frontier = nxt
    rec.covered('bfs')
    rec.notes[f'bfs_fill_states_from_{BFS_OPS[first][0]}'] = len(seen_states)
    if first == 0:
        rec.sample({'history': ['bits300', 'bits300', 'bits300', 'bits300'], 'expect': '4th store refused (1200 > 1023)'})


# ------------------------------------------------------------------ value ranges
def case_range(rec, w, fill):
    from pytoniq_core.boc import Builder
    rec.case('range')
    args = {'w': w, 'fill': fill}
    checks = []
    if w <= 256:
        checks += [('store_uint', 1 << w, False), ('store_uint', -1, False), ('store_uint', (1 << w) - 1, True), ('store_uint', 0, True),
                   ('store_uint', (1 << w) + 1, False), ('store_uint', 1 << (w + 7), False)]
    if w == 0:
        # a zero-bit field holds the value 0 and nothing else (block.tlb uses `## 0`-like fields through computed widths)
        checks += [('store_int', 0, True), ('store_int', 1, False), ('store_int', -1, False), ('store_int', 255, False)]
        rec.covered('range:0')
    else:
        checks += [('store_int', 1 << (w - 1), False), ('store_int', -(1 << (w - 1)) - 1, False), ('store_int', (1 << (w - 1)) - 1, True),
                   ('store_int', -(1 << (w - 1)), True), ('store_int', 1 << w, False)]
    for meth, v, ok in checks:
        bd = mk_builder(fill, 0)
        rec.trans()
        rec.trace()
        try:
            getattr(bd, meth)(v, w)
            raised = None
        except Exception as e:
            raised = e
        if ok and raised is not None:
            rec.violation(f'range-refused:{meth}', f'{meth}({v}, {w}) is in range but raised {exc_name(raised)}', 'case_range', args)
        if ok and raised is None and len(bd.bits) - fill != w:
            rec.violation(f'range-grew-wrong:{meth}', f'{meth}({v}, {w}) wrote {len(bd.bits) - fill} bits', 'case_range', args)
        if not ok and raised is None:
            rec.violation(f'range-accepted:{meth}', f'{meth}({v}, {w}) is out of range but was stored ({len(bd.bits) - fill} bits written)', 'case_range', args)
        rec.outcome('in-range-ok' if ok else 'out-of-range-refused')
    if w == 257:
        rec.covered('range:257')
    rec.state(('range', w, fill))
    rec.nontriv(('range', w, fill))


def shard_ranges(rec):
    for w in range(0, 258):
        for fill in (0, 5, 1023 - w if 1023 - w >= 0 else 0):
            case_range(rec, w, fill)
    # var ints: value too long for the length field, negative var_uint / coins
    from pytoniq_core.boc import Builder
    for name, thunk in (('var_uint_too_long', lambda b: b.store_var_uint(1 << 120, 4)), ('coins_too_long', lambda b: b.store_coins(1 << 120)),
                        ('coins_negative', lambda b: b.store_coins(-1)), ('var_uint_negative', lambda b: b.store_var_uint(-5, 4)),
                        ('var_int_too_long', lambda b: b.store_var_int(1 << 119, 4)), ('var_int_too_long_neg', lambda b: b.store_var_int(-(1 << 119) - 1, 4)),
                        ('var_uint3_too_long', lambda b: b.store_var_uint(1 << 56, 3))):
        rec.case('range-var')
        rec.trans()
        bd = Builder()
        try:
            thunk(bd)
            rec.violation(f'range-accepted:{name}', f'{name}: out-of-range value was stored as {bd.bits.to01()[:40]}...', 'shard_ranges', {})
        except Exception:
            rec.outcome('var-refused')
    for name, thunk, want in (('coins_max', lambda b: b.store_coins((1 << 120) - 1), 124), ('var_int_max', lambda b: b.store_var_int((1 << 119) - 1, 4), 124),
                              ('var_int_min', lambda b: b.store_var_int(-(1 << 119), 4), 124)):
        rec.case('range-var')
        bd = Builder()
        try:
            thunk(bd)
            if len(bd.bits) != want:
                rec.violation(f'range-size:{name}', f'{name}: wrote {len(bd.bits)} bits, expected {want}', 'shard_ranges', {})
        except Exception as e:
            rec.violation(f'range-refused:{name}', f'{name}: in-range value refused: {exc_name(e)}', 'shard_ranges', {})
    rec.sample({'width': 256, 'out_of_range': ['2^256', '-1'], 'expect': 'raise'})


# ------------------------------------------------------------------ depth limit
def case_ref_limit(rec):
    """sixth session: no route yields a cell with more than 4 references - the builder's public refs attribute assigned a longer list,
    the plain constructor, a bag whose descriptor claims 5..7 references"""
    from pytoniq_core.boc import Builder, Cell
    from pytoniq_core.boc.tvm_bitarray import TvmBitarray
    from ..ref import boc as RB
    rec.case('ref-limit')
    leaf = to_lib(LEAF)
    for n in (5, 6, 7, 8):
        routes = []

        def via_setter(n=n):
            b = Builder().store_bits('101')
            b.refs = [leaf] * n
            return b.end_cell()

        def via_setter_slice(n=n):
            b = Builder().store_bits('101')
            b.refs = [leaf] * n
            return b.to_slice().to_cell()

        def via_ctor(n=n):
            ba = TvmBitarray(1023)
            ba.extend('101')
            return Cell(ba, [leaf] * n, -1)

        def via_iadd(n=n):
            b = Builder()
            for _ in range(4):
                b.store_ref(leaf)
            b.refs += [leaf] * (n - 4)
            return b.end_cell()
        routes = [('refs-setter', via_setter), ('refs-setter+to_slice', via_setter_slice), ('constructor', via_ctor), ('refs+=', via_iadd)]
        if n <= 7:
            def via_boc(n=n):
                # a two-cell bag written by hand: cell 0 has descriptor d1 = n and n one-byte reference indexes, all pointing at cell 1
                cells = bytes([n, 2, 0xa0]) + bytes([1] * n) + bytes([0, 2, 0xc0])
                data = bytes.fromhex('b5ee9c72') + bytes([1, 1, 2, 1, 0, len(cells), 0]) + cells
                return Cell.one_from_boc(data)
            routes.append(('boc-descriptor', via_boc))
        for name, thunk in routes:
            rec.trans()
            rec.trace()
            try:
                c = thunk()
            except Exception:
                rec.outcome('refused-ok')
                continue
            if len(c.refs) > 4:
                rec.violation(f'cell-limits:{name}', f'{name}: a cell with {len(c.refs)} references was produced', 'case_ref_limit', {})
                rec.outcome('OVERFLOW')
    rec.covered('ref-limit')


def shard_depth(rec):
    case_ref_limit(rec)
    from pytoniq_core.boc import Builder
    rec.case('depth')
    leaf = to_lib(LEAF)
    c = leaf
    for d in range(1, 1024):
        c = Builder().store_ref(c).end_cell()
    rec.trans(1023)
    # c has depth 1023; storing it as a ref is allowed, end_cell must raise
    for width, pos in ((1, 0), (4, 3), (2, 0)):
        bd = Builder()
        for i in range(width):
            bd.store_ref(c if i == pos else leaf)
        try:
            x = bd.end_cell()
            rec.violation('depth:1024-accepted', f'end_cell produced a cell of depth {x.get_depth(0)} > 1023', 'shard_depth', {})
        except Exception:
            rec.covered('depth:1023')
            rec.outcome('depth-refused')
        # through composite stores too
        try:
            x = Builder().store_maybe_ref(c).end_cell()
            rec.violation('depth:1024-accepted', 'store_maybe_ref(depth-1023 cell).end_cell() accepted', 'shard_depth', {})
        except Exception:
            pass
    # depth 1022 child is fine
    c2 = c.refs[0]
    try:
        x = Builder().store_ref(leaf).store_ref(c2).end_cell()
        if x.get_depth(0) != 1023:
            rec.violation('depth:value', f'depth {x.get_depth(0)} reported for a 1023-deep cell', 'shard_depth', {})
    except Exception as e:
        rec.violation('depth:1023-refused', f'a cell of depth exactly 1023 was refused: {exc_name(e)}', 'shard_depth', {})
    # depth comes in through exotic cells too: a pruned branch CARRIES depths (one per level of its mask). A parent of a pruned branch
    # whose stored depth at some level is d has depth d + 1 at that level: every level counts, not only the top one
    from ..ref import cell as RC
    for mask in (1, 2, 3, 5, 7):
        nl = bin(mask).count('1')
        for li in range(nl):
            for stored in (0, 1021, 1022, 1023, 1024, 65535):
                depths = [3] * nl
                depths[li] = stored
                hashes = [bytes([17 + k]) * 32 for k in range(nl)]
                rec.case('depth-exotic')
                rec.state(('depth-exotic', mask, li, stored))
                rec.nontriv(('depth-exotic', mask, li, stored))
                try:
                    pr = RC.pruned_raw(mask, hashes, depths)
                    parent_ok = True
                    try:
                        RC.RCell('1', (pr, LEAF))
                    except RC.RefCellError:
                        parent_ok = False
                except RC.RefCellError:
                    continue
                rec.trans()
                try:
                    lp = to_lib(pr)
                except Exception:
                    rec.outcome('pruned-refused')
                    continue
                try:
                    x = Builder().store_ref(lp).store_ref(leaf).end_cell()
                    built = True
                except Exception:
                    built = False
                rec.trace()
                if built and any(x.get_depth(l) > 1023 for l in range(4)):
                    rec.violation('depth:exotic-accepted', f'a parent of a pruned branch (mask {mask}) whose stored depth #{li} is {stored} was built with depths '
                                  f'{[x.get_depth(l) for l in range(4)]} (> 1023)', 'shard_depth', {})
                elif not built and parent_ok:
                    rec.violation('depth:exotic-refused', f'a parent of a pruned branch (mask {mask}, stored depth #{li} = {stored}) of depth <= 1023 was refused', 'shard_depth', {})
                rec.covered('depth:exotic')
    rec.state('depth')
    rec.nontriv('depth')
    rec.trace(4)


# ------------------------------------------------------------------ read bounds
ROUTES = ['begin_parse', 'builder_to_slice', 'copy', 'from_cell', 'boc', 'plain', 'vm', 'to_slice']


def mk_slice(route, bits, nrefs):
    from bitarray import bitarray
    from pytoniq_core.boc import Builder, Slice, Cell
    leaf = to_lib(LEAF)
    bd = Builder().store_bits(bits)
    for _ in range(nrefs):
        bd.store_ref(leaf)
    if route == 'begin_parse':
        return bd.end_cell().begin_parse()
    if route == 'to_slice':
        return bd.end_cell().to_slice()
    if route == 'builder_to_slice':
        return bd.to_slice()
    if route == 'copy':
        return bd.end_cell().begin_parse().copy()
    if route == 'from_cell':
        return Slice.from_cell(bd.end_cell())
    if route == 'boc':
        return Slice.one_from_boc(bd.end_cell().to_boc())
    if route == 'plain':
        return Cell(bitarray(bits), [leaf] * nrefs, -1).begin_parse()
    if route == 'vm':
        from pytoniq_core.tlb.vm_stack import VmCellSlice
        ser = VmCellSlice.serialize(bd.end_cell().begin_parse())
        return VmCellSlice.deserialize(ser.begin_parse())
    raise ValueError(route)


def reads_for(r, bits):
    """consuming reads on a slice holding `bits` (r = len): (name, thunk, need_bits or None, expected value)"""
    out = []
    for n in sorted({r, r + 1, r + 7, r + 8, 1023, 1024} - {0}):
        exp_ok = n <= r
        out.append((f'load_bits:{n}', lambda s, n=n: s.load_bits(n).to01(), n, bits[:n]))
        out.append((f'skip_bits:{n}', lambda s, n=n: s.skip_bits(n) and None, n, None))
        if n <= 300:
            out.append((f'load_uint:{n}', lambda s, n=n: s.load_uint(n), n, int(bits[:n], 2) if exp_ok and n else None))
            out.append((f'load_int:{n}', lambda s, n=n: s.load_int(n), n, RBITS.dec_sint(bits[:n]) if exp_ok and n else None))
    for k in sorted({(r // 8), r // 8 + 1, 128} - {0}):
        out.append((f'load_bytes:{k}', lambda s, k=k: s.load_bytes(k), 8 * k, RBITS.bits_bytes(bits[:8 * k]) if 8 * k <= r else None))
    out.append(('load_bit', lambda s: int(s.load_bit()), 1, int(bits[0]) if r else None))
    out.append(('load_bool', lambda s: s.load_bool(), 1, bool(int(bits[0])) if r else None))
    return out


def case_read(rec, route, r, nrefs):
    rec.case('read')
    args = {'route': route, 'r': r, 'nrefs': nrefs}
    bits = filler_bits(rec.seed, f'c07r{r}', r)
    rec.state(('read', route, r, nrefs))
    rec.covered(f'read:route:{route}')
    for name, thunk, need, want in reads_for(r, bits):
        try:
            s = mk_slice(route, bits, nrefs)
        except Exception as e:
            rec.violation(f'read-route:{route}', f'cannot obtain a slice via {route}: {exc_name(e)}: {e}', 'case_read', args)
            return
        rec.trans()
        rec.trace()
        try:
            got = thunk(s)
            raised = None
        except Exception as e:
            raised = e
        op = name.split(':')[0]
        if need > r:
            if raised is None:
                rec.violation(f'overread:{op}:{route}' if route in ('plain', 'vm') else f'overread:{op}',
                              f'{name} on a {route} slice with {r} bits remaining returned {got!r} instead of raising', 'case_read', args)
                rec.outcome('OVERREAD')
            else:
                rec.outcome('overread-refused')
        else:
            if raised is not None:
                rec.violation(f'read-refused:{op}', f'{name} on a {route} slice with {r} bits raised {exc_name(raised)}: {raised}', 'case_read', args)
            elif want is not None and got != want:
                rec.violation(f'read-value:{op}', f'{name} on a {route} slice returned {got!r}, data is {want!r}', 'case_read', args)
            else:
                rec.covered('read:exact')
                if s.remaining_bits != r - need:
                    rec.violation(f'read-consumed:{op}', f'{name} left {s.remaining_bits} bits, expected {r - need}', 'case_read', args)
            rec.outcome('read-ok')
    # references: one more than remain
    for meth in ('load_ref', 'load_maybe_ref', 'load_dict'):
        s = mk_slice(route, ('1' + bits)[:1023], nrefs)     # leading 1 = "present" for maybe/dict
        rec.trans()
        try:
            for i in range(nrefs):
                s.load_ref()
            if meth == 'load_ref':
                s.load_ref()
            elif meth == 'load_maybe_ref':
                s.load_maybe_ref()
            else:
                s.load_dict(8)
            rec.violation(f'overread:{meth}', f'{meth} with no references left returned instead of raising ({route})', 'case_read', args)
        except Exception:
            rec.outcome('ref-overread-refused')
    rec.nontriv(('read', route, r, nrefs))


def case_read_typed(rec, route):
    """truncated typed values: the value's own length field promises more data than remains"""
    rec.case('read-typed')
    args = {'route': route}
    truncated = [
        ('load_coins', '1111' + '1' * 119, lambda s: s.load_coins()),
        ('load_coins', '0001' + '1' * 7, lambda s: s.load_coins()),
        ('load_coins', '111', lambda s: s.load_coins()),
        ('load_var_uint', '11111' + '0' * 200, lambda s: s.load_var_uint(5)),
        ('load_var_int', '011' + '1' * 23, lambda s: s.load_var_int(3)),
        ('load_address', '10' + '0' * 264, lambda s: s.load_address()),
        ('load_address', '01' + '111111111' + '1' * 510, lambda s: s.load_address()),
        ('load_address', '01' + '0000', lambda s: s.load_address()),
        ('load_address', '1', lambda s: s.load_address()),
        ('load_address', '101' + '11110' + '1' * 29 + '0' * 200, lambda s: s.load_address()),
        ('load_string', '0' * 15, lambda s: s.load_string(2)),
        ('load_bytes', '0' * 1023, lambda s: s.load_bytes(128)),
    ]
    for name, bits, thunk in truncated:
        s = mk_slice(route, bits, 0)
        rec.trans()
        rec.trace()
        try:
            got = thunk(s)
            rec.violation(f'overread:{name}', f'{name} on truncated data ({len(bits)} bits, {route}) returned {got!r} instead of raising', 'case_read_typed', args)
        except Exception:
            rec.outcome('typed-overread-refused')
    rec.state(('read-typed', route))


def shard_reads(rec, route):
    for r in list(range(0, 65)) + [255, 1022, 1023]:
        for nrefs in ((0, 2) if r < 1023 else (0,)):
            if route == 'vm' and r + 1 > 1023:
                continue
            case_read(rec, route, r, nrefs)
    case_read_typed(rec, route)
    rec.sample({'route': route, 'remaining_bits': 13, 'read': 'load_uint(14)', 'expect': 'raise'})


def shards(tier, seed):
    out = []
    for lo in range(0, 1024, 32):
        out.append({'fn': 'shard_states', 'args': {'lo': lo, 'hi': lo + 31}, 'prio': 5})
    depth = 3 if tier == 'quick' else 6
    for first in range(len(BFS_OPS)):
        out.append({'fn': 'shard_bfs', 'args': {'first': first, 'depth': depth}})
    out.append({'fn': 'shard_ranges', 'args': {}})
    out.append({'fn': 'shard_depth', 'args': {}})
    for route in ROUTES:
        out.append({'fn': 'shard_reads', 'args': {'route': route}})
    return out
