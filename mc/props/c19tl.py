"""TL part of C19: the TL parser on adversarial variants of valid encodings (count / length fields set
to huge values, length markers, nested-bytes towers) under the step monitor."""
import struct
from .. import engine
from . import c14

WORDS = [0, 1, None, (1 << 31) - 1, 1 << 31, (1 << 32) - 1]      # None = the length of the input
BYTES = [0xFE, 0xFF, 253]


def has_var_field(S, d, seen=None):
    seen = seen or set()
    if d.name in seen:
        return False
    seen.add(d.name)
    for n, t in d.fields:
        if t[0] == 'cond':
            t = t[3]
        if t[0] == 'vector' or t in (('prim', 'bytes'), ('prim', 'string')):
            return True
        if t[0] == 'bare' and has_var_field(S, S.by_name[t[1]][0], seen):
            return True
        if t[0] == 'boxed' and any(has_var_field(S, x, seen) for x in S.alternatives(t[1])):
            return True
    return False


def targets():
    S = c14.ref_schema()
    return [d for d in c14.in_scope_decls() if has_var_field(S, d)]


def base_encoding(rec, d):
    S = c14.ref_schema()
    g = c14.Gen(rec.seed)
    v = g.obj(d, engine.Chooser({}), d.name)
    return S.encode(v, True, d)


def mutations(data):
    n = len(data)
    k = 0
    for off in range(4, n - 3, 4):
        orig = data[off:off + 4]
        for w in WORDS:
            w = n if w is None else w
            m = struct.pack('<I', w)
            if m != orig:
                yield k, f'word@{off}={w}', data[:off] + m + data[off + 4:]
            k += 1
    for off in range(4, n):
        for b in BYTES:
            if data[off] != b:
                yield k, f'byte@{off}=0x{b:02x}', data[:off] + bytes([b]) + data[off + 1:]
            k += 1
    # truncations of the valid encoding (a count field now points past the end)
    for cut in range(4, n, 4):
        yield k, f'truncated@{cut}', data[:cut]
        k += 1


def tower(depth, seed=0):
    """adnl.message.query whose bytes field holds an adnl.message.query whose ... (depth levels)"""
    S = c14.ref_schema()
    v = {'@type': 'dht.ping', 'random_id': 5}
    for i in range(depth):
        v = {'@type': 'adnl.message.query', 'query_id': format(i, '02x') * 32, 'query': v}
    return S.encode(v, True)


def tower_seq(depth):
    """like tower(), but every bytes field holds a SEQUENCE: the deeper object followed by one more small object
    (a parser that re-parses the first object of a sequence doubles its work per level)"""
    S = c14.ref_schema()
    tail = S.encode({'@type': 'dht.ping', 'random_id': 9}, True)
    inner = S.encode({'@type': 'dht.ping', 'random_id': 5}, True)
    for i in range(depth):
        inner = S.encode({'@type': 'adnl.message.query', 'query_id': format(i, '02x') * 32, 'query': inner + tail}, True)
    return inner


def many_objects(count):
    """a bytes field holding `count` concatenated tiny objects"""
    S = c14.ref_schema()
    inner = S.encode({'@type': 'dht.ping', 'random_id': 1}, True) * count
    return S.encode({'@type': 'adnl.message.query', 'query_id': '00' * 32, 'query': inner}, True)


def shard_tl(rec, part, parts, run_parser):
    L = c14.lib_registry()
    ts = targets()
    rec.notes['tl_targets'] = len(ts)
    for i, d in enumerate(ts):
        if i % parts != part:
            continue
        data = base_encoding(rec, d)
        for k, what, m in mutations(data):
            rec.state(m)
            rec.nontriv(m)
            run_parser(rec, 'tl:word', f'TL {d.name} with {what}', lambda m=m: L.deserialize(m), len(m), 'case_tl', {'name': d.name, 'k': k}, 'tl:word')
    if part == 0:
        for depth in list(range(1, 31)) + [60, 100]:
            data = tower(depth)
            rec.state(data)
            run_parser(rec, 'tl:tower', f'TL nested-bytes tower of depth {depth}', lambda data=data: L.deserialize(data), len(data), 'case_tl', {'name': '@tower', 'k': depth}, 'tl:tower')
        for depth in range(1, 31):
            data = tower_seq(depth)
            rec.state(data)
            run_parser(rec, 'tl:tower', f'TL nested-bytes tower of sequences, depth {depth}', lambda data=data: L.deserialize(data), len(data), 'case_tl', {'name': '@towerseq', 'k': depth}, 'tl:towerseq')
        for count in (1, 2, 10, 100, 1000):
            data = many_objects(count)
            rec.state(data)
            run_parser(rec, 'tl:tower', f'TL bytes field holding {count} objects', lambda data=data: L.deserialize(data), len(data), 'case_tl', {'name': '@many', 'k': count}, 'tl:many')
        d = ts[0]
        rec.sample({'tl_constructor': d.name, 'base_encoding': base_encoding(rec, d)[:40].hex(), 'mutation': 'word@4=4294967295'})


def case_tl(rec, name, k, run_parser):
    L = c14.lib_registry()
    if name == '@tower':
        data = tower(k)
        run_parser(rec, 'tl:tower', f'TL nested-bytes tower of depth {k}', lambda: L.deserialize(data), len(data), 'case_tl', {'name': name, 'k': k}, 'tl:tower')
        return
    if name == '@towerseq':
        data = tower_seq(k)
        run_parser(rec, 'tl:tower', f'TL nested-bytes tower of sequences, depth {k}', lambda: L.deserialize(data), len(data), 'case_tl', {'name': name, 'k': k}, 'tl:towerseq')
        return
    if name == '@many':
        data = many_objects(k)
        run_parser(rec, 'tl:tower', f'TL bytes field holding {k} objects', lambda: L.deserialize(data), len(data), 'case_tl', {'name': name, 'k': k}, 'tl:many')
        return
    S = c14.ref_schema()
    d = S.by_name[name][0]
    data = base_encoding(rec, d)
    for kk, what, m in mutations(data):
        if kk == k:
            run_parser(rec, 'tl:word', f'TL {name} with {what}', lambda: L.deserialize(m), len(m), 'case_tl', {'name': name, 'k': k}, 'tl:word')
            return
