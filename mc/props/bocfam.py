"""The DAG family shared by the BoC properties C03/C04 (and parts of C05/C19): a deterministic list of
(name, builder thunk) whose thunk returns the reference root cell."""
import itertools
from ..ref import cell as RC
from ..ref import boc as RB
from . import dags
from .common import filler_bits

CONTENT_LENGTHS = [0, 1, 7, 8, 9, 1023]


def shape_family(nmax):
    """every DAG shape with <= nmax cells x content classes"""
    out = []
    for n in range(1, nmax + 1):
        for si, shape in enumerate(dags.enum_shapes(n)):
            variant_sets = ['au', 'ee', 'xz'] if n <= 3 else ['ua']
            for vs in variant_sets:
                out.append((f'shape:{n}:{si}:{vs}', (lambda shape=shape, vs=vs: dags.build_ref(shape, vs)[0])))
    return out


def content_family(seed):
    """single cells and small trees over the content-length alphabet {0,1,7,8,9,1023} incl. data that
    looks like padding (ends with 1 followed by zeros) and all-zero data"""
    out = []
    for L in CONTENT_LENGTHS:
        for pat in ('fill', 'zeros', 'ones', 'tag'):
            def mk(L=L, pat=pat):
                if pat == 'fill':
                    bits = filler_bits(seed, f'boc-{L}', L)
                elif pat == 'zeros':
                    bits = '0' * L
                elif pat == 'ones':
                    bits = '1' * L
                else:
                    bits = ('0' * L + '10000000')[-L:] if L else ''
                leaf = RC.RCell(bits)
                return RC.RCell(bits[: L // 2], (leaf, RC.RCell('1' + bits[:100]), leaf))
            out.append((f'content:{L}:{pat}', mk))
            out.append((f'single:{L}:{pat}', (lambda mk=mk: mk().refs[0])))
    return out


def exotic_family():
    from . import c02
    out = []
    shapes = [((1, 2), (2,), ()), ((1,), ()), ((1, 1), ()), ((1, 2), (), ())]
    for si, shape in enumerate(shapes):
        for states in itertools.product((0, 1), repeat=len(shape)):
            out.append((f'exotic1:{si}:{"".join(map(str, states))}',
                        (lambda shape=shape, states=states: c02.ev(('m', c02.shape_term(shape, states))))))
    for states in itertools.product((0, 1, 2, 3), repeat=2):
        def mk3(states=states):
            t3 = ('m', c02.shape_term(((1,), ()), states, base=8))
            mid = ('m', ('n', 3, [('p', 2, ('n', 1, [])), t3]))
            return c02.ev(('m', ('n', 0, [('p', 1, ('n', 2, [])), mid])))
        out.append((f'exotic3:{"".join(map(str, states))}', mk3))
    # an exotic cell and an ordinary cell holding exactly the same bits in one bag, in both orders
    lib = RC.library(bytes(range(32)))
    out.append(('twin:lib:exotic-first', lambda: RC.RCell('1', (lib, RC.RCell(lib.bits)))))
    out.append(('twin:lib:ordinary-first', lambda: RC.RCell('1', (RC.RCell(lib.bits), lib, RC.RCell('0')))))

    def twin_pruned(exotic_first):
        pr = RC.prune(RC.RCell('1010', (RC.RCell('1'),)), 1)
        tw = RC.RCell(pr.bits)
        return RC.mproof(RC.RCell('01', (pr, tw) if exotic_first else (tw, pr)))
    out.append(('twin:pruned:exotic-first', lambda: twin_pruned(True)))
    out.append(('twin:pruned:ordinary-first', lambda: twin_pruned(False)))
    out.append(('update', lambda: c02.ev(('u', c02.shape_term(((1, 2), (), ()), (0, 1, 0)), c02.shape_term(((1, 2), (), ()), (0, 0, 1), base=4)))))
    # one bag holding a cell AND the pruned branch that stands for it (equal level-0 hashes, different cells): a Merkle update whose old
    # side prunes what the new side carries in full; two proofs of one tree pruned differently; a sub-tree pruned in one slot and kept in another
    for si, shape in enumerate(shapes):
        for states in itertools.product((0, 1), repeat=len(shape)):
            if any(states):
                out.append((f'standfor:update:{si}:{"".join(map(str, states))}',
                            (lambda shape=shape, states=states: c02.ev(('u', c02.shape_term(shape, states), c02.shape_term(shape, [0] * len(shape)))))))
    sh = shapes[0]
    for sa in itertools.product((0, 1), repeat=3):
        for sb in itertools.product((0, 1), repeat=3):
            if sa < sb:
                out.append((f'standfor:two-proofs:{"".join(map(str, sa))}:{"".join(map(str, sb))}',
                            (lambda sa=sa, sb=sb: RC.RCell('1', (c02.ev(('m', c02.shape_term(sh, sa))), c02.ev(('m', c02.shape_term(sh, sb))))))))
    x = ('n', 5, [('n', 6, [])])
    out.append(('standfor:slots:pruned-first', lambda: c02.ev(('m', ('n', 0, [('p', 1, x), x])))))
    out.append(('standfor:slots:pruned-last', lambda: c02.ev(('m', ('n', 0, [x, ('p', 1, x)])))))
    out.append(('library', lambda: RC.RCell('1', (RC.library(bytes(range(32))), RC.RCell('0')))))
    out.append(('pruned-root', lambda: RC.pruned_raw(5, [bytes([7]) * 32, bytes([9]) * 32], [3, 4])))
    return out


def many_cells(n, seed=0, data_bits=16):
    """DAG with exactly n distinct cells: a 4-ary heap-shaped tree, cell i holds i in data_bits bits"""
    cells = [None] * n
    for i in reversed(range(n)):
        kids = [cells[j] for j in range(4 * i + 1, min(4 * i + 5, n))]
        cells[i] = RC.RCell(format(i, f'0{data_bits}b'), kids)
    return cells[0]


def payload_sized(target, seed=0):
    """DAG whose cell-data section (as any minimal-width writer emits it: 2 descriptor bytes + data + 1-byte
    or 2-byte refs) has exactly `target` bytes.  Chain of cells with full 127-byte data, last cell trimmed."""
    # each full cell: 2 + 127 + refsize*nrefs.  Build a chain; solve for the size of the tail.
    for size in (1, 2):
        cells_needed = None
        per_full = 2 + 127 + size          # one ref each
        k = max(0, (target - 2) // per_full)
        for k_try in range(max(0, k - 2), k + 1):
            rest = target - k_try * per_full      # bytes for the last cell: 2 + data
            if 2 <= rest <= 2 + 127:
                n = k_try + 1
                if (n < 256) == (size == 1):
                    cells_needed = (k_try, rest - 2)
                    break
        if cells_needed:
            k_full, last_bytes = cells_needed
            c = RC.RCell('1' * (8 * last_bytes))
            for i in range(k_full):
                c = RC.RCell(format(i, '016b') + '0' * (1016 - 16), (c,))
            assert RB.decode(RB.encode([c]))[1]['tot'] == target, (target, RB.decode(RB.encode([c]))[1]['tot'])
            return c
    raise AssertionError(f'cannot build payload of {target} bytes')


def boundary_family(tier):
    out = []
    for n in (255, 256, 257):
        out.append((f'cells:{n}', (lambda n=n: many_cells(n))))
    for t in (255, 256, 257):
        out.append((f'payload:{t}', (lambda t=t: payload_sized(t))))
    for t in (65535, 65536, 65537):
        out.append((f'payload:{t}', (lambda t=t: payload_sized(t))))
    # index entries are doubled with cache bits: payload 127/128 and 32767/32768 are boundaries for the offset width
    for t in (127, 128, 32767, 32768):
        out.append((f'payload:{t}', (lambda t=t: payload_sized(t))))
    if tier == 'thorough':
        for n in (65535, 65536, 65537):
            out.append((f'cells:{n}', (lambda n=n: many_cells(n, data_bits=24))))
    return out


def full_family(seed):
    """maximal cells: data of 1015..1023 bits (every residue of the last byte) x 0..4 references, as the root, as an
    inner cell and as a leaf - the largest serialised cell is 2 + 128 + 4*size bytes"""
    out = []
    for L in (1015, 1016, 1017, 1022, 1023):
        for nrefs in range(5):
            def mk(L=L, nrefs=nrefs):
                kids = tuple(RC.RCell(format(i, '03b')) for i in range(nrefs))
                full = RC.RCell(filler_bits(seed, f'full-{L}-{nrefs}', L - 1) + '1', kids)
                return RC.RCell('1', (full, RC.RCell('0' * L, kids[:1])))
            out.append((f'full:{L}:{nrefs}', mk))
            out.append((f'fullroot:{L}:{nrefs}', (lambda mk=mk: mk().refs[0])))
    return out


def deep_family():
    """DAGs at the depth limit (a cell may be 1023 levels deep): single-reference chains and 'ladders' whose every cell
    references its only child twice (2^depth root paths), so that neither a recursive nor a per-path traversal survives"""
    out = []
    for d in (512, 1000, 1023):
        def chain(d=d):
            c = RC.RCell('1')
            for i in range(d):
                c = RC.RCell(format(i, '010b') + '1', (c,))
            return c
        out.append((f'deep:chain:{d}', chain))
    for d in (999, 1022):
        def ladder(d=d):
            c = RC.RCell('0')
            for i in range(d):
                c = RC.RCell(format(i, '010b'), (c, c))
            return c
        out.append((f'deep:ladder:{d}', ladder))
    return out


def family(tier, seed):
    fam = shape_family(3 if tier == 'quick' else 4) + content_family(seed) + full_family(seed) + exotic_family() + boundary_family(tier) + deep_family()
    return fam


def to_lib_unshared(rc):
    """library cells for rc where EVERY occurrence of a sub-cell is a separately built Python object (equal by hash,
    distinct by identity) - what a caller gets who parses or builds the same sub-tree twice.  Tree expansion: only for
    small DAGs."""
    from .common import to_lib
    from pytoniq_core.boc import Builder
    b = Builder(type_=rc.type if rc.special else -1)
    b.store_bits(rc.bits)
    for r in rc.refs:
        b.store_ref(to_lib_unshared(r))
    return b.end_cell()


def lib_nodes(root):
    """the distinct cell objects of a library DAG in first-visit (pre-)order"""
    seen, out, stack = set(), [], [root]
    while stack:
        c = stack.pop()
        if id(c) in seen:
            continue
        seen.add(id(c))
        out.append(c)
        stack.extend(reversed(c.refs))
    return out


OPTION_SETS = [
    dict(has_idx=False, hash_crc32=False, has_cache_bits=False),
    dict(has_idx=True, hash_crc32=False, has_cache_bits=False),
    dict(has_idx=True, hash_crc32=False, has_cache_bits=True),
    dict(has_idx=False, hash_crc32=True, has_cache_bits=False),
    dict(has_idx=True, hash_crc32=True, has_cache_bits=False),
    dict(has_idx=True, hash_crc32=True, has_cache_bits=True),
    # cache bits requested WITHOUT the index they live in: whatever the library emits for this request has to be a conforming bag too
    # (TON's reader refuses has_cache_bits without has_idx; the library implies the index since fix 30c95bd)
    dict(has_idx=False, hash_crc32=False, has_cache_bits=True),
    dict(has_idx=False, hash_crc32=True, has_cache_bits=True),
]


def opt_name(o):
    if o['has_cache_bits'] and not o['has_idx']:
        return ('crc+' if o['hash_crc32'] else '') + 'cache-without-idx'
    return ('idx' if o['has_idx'] else '') + ('+crc' if o['hash_crc32'] else '') + ('+cache' if o['has_cache_bits'] else '') or 'plain'


def damaged_bags(seed=0):
    """bags the parser must refuse, each for another reason and at another point of the parse (used for parse HISTORIES: a refused bag
    followed by a valid one): list of (name, bytes)"""
    from ..ref import boc as RB
    leaf = RC.RCell('1011')
    mid = RC.RCell('0110', (leaf,))
    root = RC.RCell('11110000', (mid, leaf))
    good = RB.encode([root])
    out = [('truncated-cells', good[:-3]), ('truncated-header', good[:7]), ('trailing-byte', good + b'\x00'), ('empty', b''), ('bad-magic', b'\x00' * 4 + good[4:])]

    def patch_back(i, refs):
        return [0] * len(refs) if i == 1 else refs

    def patch_self(i, refs):
        return [i] * len(refs) if refs else refs

    def patch_dangling(i, refs):
        return [9] * len(refs) if i == 0 else refs
    order = RB.topo([root])
    out.append(('backward-ref', RB.encode([root], order=order, raw_patch=patch_back)))
    out.append(('self-ref', RB.encode([root], order=order, raw_patch=patch_self)))
    out.append(('dangling-ref', RB.encode([root], order=order, raw_patch=patch_dangling)))
    out.append(('bad-crc', RB.encode([root], has_crc=True)[:-1] + b'\x55'))
    out.append(('root-out-of-range', RB.encode([root], root_idx=[7])))
    # a cell flagged exotic whose type the constructor refuses (type byte 0x09), written by hand: d1 = 8 (exotic, no refs), d2 = 2 (one byte)
    cells = bytes([8, 2, 0x09])
    out.append(('unknown-exotic-type', bytes.fromhex('b5ee9c72') + bytes([1, 1, 1, 1, 0, len(cells), 0]) + cells))
    # ... and a valid first cell followed by a refused second one (the parse fails half-way through building the cells)
    cells = bytes([1, 2, 0xaa, 1]) + bytes([8, 2, 0x09])
    out.append(('second-cell-refused', bytes.fromhex('b5ee9c72') + bytes([1, 1, 2, 1, 0, len(cells), 0]) + cells))
    return out
