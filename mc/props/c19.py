"""C19 - work is bounded by the size of the input; every parser terminates (explorer E with a
deterministic cost monitor: LINE events inside pytoniq_core counted by sys.monitoring, the run is cut
off when the budget is exceeded)."""
import itertools
from ..ref import cell as RC
from ..ref import boc as RB
from ..ref import hashmap as RH
from .. import steps
from . import dags
from .common import to_lib, exc_name, filler

ID = 'C19'
TITLE = 'Work is bounded by the size of the input; every parser terminates'
EXPLORER = 'E (small-scope enumeration of DAG shapes / sharing families / adversarial field values) with a deterministic step monitor'
RULE = ('cost = number of Python LINE events executed inside pytoniq_core during one public call (sys.monitoring; deterministic, independent of '
        'machine load); a run is cut off when it exceeds its budget. (a) every DAG shape up to the node bound and the sharing families that '
        'defeat per-path traversals (k-fold reference chains, ladders, diamonds, dense DAGs; depth 1..40, so 2^40 root paths) through '
        'construction, to_boc (6 option sets), from_boc, order, copy, begin_parse/to_cell, to_builder/end_cell, hash/eq/representation hash, '
        'walking with load_ref, check_proof: budget 60*(n+e+1)^2+5000 steps for n cells / e references; (b) BoC parser on adversarial input: '
        'for each base BoC every header count/size/offset field set to {0,1,2,255,256,65535,2^24,2^31,2^32-1} (masked to the field width), '
        'every value of the flags and offset-width bytes, every PAIR of header fields over {0,1,255,2^24-1,2^32-1,2^56-1} also truncated right after the header, every descriptor byte of every cell set to all 256 values, every reference index to '
        '{self, 0, n-1, n, max}; CRC re-computed so the mutation is reached: budget 400*(len+16) steps and never more than 300000; (c) TL parser: '
        'for every constructor with a vector / bytes / string field a valid reference encoding with every 4-byte word replaced by '
        '{0,1,len,2^31-1,2^31,2^32-1} and every length byte by {0xFE,0xFF,253}, plus nested-bytes towers (single objects and sequences of objects per level, depth 1..30): same budget; (d) dictionary '
        'parser on every label kind with every claimed length up to the field maximum (incl. lengths beyond the key and beyond the cell), '
        'unterminated unary lengths, 1023-bit keys: same budget. '
        'non-trivial = the DAG shares at least one cell / the mutated field differs from the original; states = distinct inputs; '
        'transitions = monitored calls; traces = calls whose cost was compared with the budget')
RULE += ' Fifth session: 12 malformed exotic roots (wrong reference count / hash / depth / type byte, short payload) x {from_boc, Cell(), Builder.end_cell} on every shared DAG under the step budget; valid dictionaries whose forks share one child (2^d entries in d + 1 cells; recorded finding).'
LEVEL_TEXT = ('Bounded-exhaustive with a deterministic cost oracle: every DAG shape up to the bound, sharing families with up to 2^40 (4^40) root '
              'paths, and every adversarial value of every length/count/descriptor field of small BoC, TL and dictionary inputs is run through the '
              'real code under a step monitor that aborts the call at the budget, so exponential re-traversal and count-field-driven loops are '
              'reported instead of hanging the check.')
LEVEL_NOTE = ('trusted: sys.monitoring LINE events as the work measure (C-level work such as bytes slicing is not counted); budgets are generous '
              'constants (an order of magnitude above the measured cost of the current code) so only super-polynomial / count-driven work trips them')
TECHNIQUE = 'small-scope exhaustive enumeration of DAG shapes, sharing families and adversarial field values under a deterministic step-count monitor'
RULE += ' Second cost measure for parsers: peak bytes allocated during the call (tracemalloc), budget 256 KiB + 512 x input length - work hidden inside one C-level operation (a 2^20-bit label) is invisible to LINE events. Dictionary towers: chains of 1..20 (thorough 24) fork cells whose labels (same0/same1/long/short) claim more key bits than remain, for key lengths {1,4,32,256,1023}, through parse_hashmap, HashMap.parse, parse_hashmap_aug, load_dict.'
LEVEL_TEXT += ' Parser inputs are also budgeted on peak allocated bytes.'
ASSUMPTIONS = ['work is measured in executed Python lines of pytoniq_core; time spent inside C extensions (bitarray, hashlib, bytes slicing) is not measured',
               'budgets: DAG operations 60*(n+e+1)^2+5000; parsers 400*(len+16) and at most 300000 for inputs <= 512 bytes']
NOT_ASSERTED = ['Cell.__str__ / print(cell): the rendered text is itself the unfolded tree (exponential output by definition)',
                'dictionary parsing of dictionaries with shared subtrees: the resulting mapping has one entry per path, i.e. the output itself is '
                'exponential in the number of cells; only tree-shaped dictionaries and malformed labels are budgeted',
                'parsers are allowed to raise or to return garbage on adversarial input - only their cost is asserted here']


def BOUNDS(tier):
    return {'dag_shapes': 'all with <= 3 cells, 4 cells with <= 3 refs each' if tier == 'quick' else 'all with <= 4 cells, 5 cells with <= 2 refs each', 'family_depth': 40,
            'parser_mem_budget': '262144 + 512*len', 'dict_tower_depth': 20 if tier == 'quick' else 24, 'boc_field_values': FIELD_VALUES,
            'dag_budget': '60*(n+e+1)^2+5000', 'parser_budget': 'min(400*(len+16), 300000)', 'exhaustive': True}


def REQUIRED_COVER(tier):
    return {'dag:shape', 'dag:family:kchain2', 'dag:family:kchain4', 'dag:family:ladder', 'dag:family:diamond', 'dag:family:dense',
            'boc:header', 'boc:header2', 'boc:descriptor', 'boc:refidx', 'dict:label', 'dict:tower', 'dict:shared', 'tl:word', 'tl:tower'}


FIELD_VALUES = [0, 1, 2, 255, 256, 65535, 1 << 24, 1 << 31, (1 << 32) - 1]
OPTION_SETS = [dict(), dict(has_idx=True), dict(has_idx=True, has_cache_bits=True), dict(hash_crc32=True), dict(has_idx=True, hash_crc32=True),
               dict(has_idx=True, hash_crc32=True, has_cache_bits=True)]


def dag_budget(n, e):
    return 60 * (n + e + 1) ** 2 + 5000


def parser_budget(length):
    return min(400 * (length + 16), 300000)


def parser_mem_budget(length):
    """peak bytes allocated while parsing `length` input bytes.  Measured on the current code: <= 50 bytes per input byte
    (main-net block: 450 KB for 9 882 bytes; small inputs: ~10 KB).  An amplification driven by a length field
    (a 2^20-bit label from a 130-byte dictionary) is megabytes."""
    return 262144 + 512 * length


# ------------------------------------------------------------------------------------------ (a)
def family(name, d):
    """-> reference root cell.  All have O(d) cells and exponentially many root paths."""
    leaf = RC.RCell('1')
    if name.startswith('kchain'):
        k = int(name[-1])
        c = leaf
        for i in range(d):
            c = RC.RCell(format(i, '06b'), (c,) * k)
        return c
    if name == 'ladder':
        a, b = RC.RCell('10'), RC.RCell('01')
        for i in range(d):
            a, b = RC.RCell('0' + format(i, '06b'), (a, b)), RC.RCell('1' + format(i, '06b'), (a, b))
        return RC.RCell('', (a, b))
    if name == 'diamond':
        x = leaf
        for i in range(d):
            l, r = RC.RCell('0' + format(i, '06b'), (x,)), RC.RCell('1' + format(i, '06b'), (x,))
            x = RC.RCell(format(i, '06b'), (l, r))
        return x
    if name == 'dense':
        cells = []
        for i in range(d + 1):
            cells.append(RC.RCell(format(i, '07b'), tuple(cells[-4:][::-1])))
        return cells[-1]
    if name == 'mixed':
        # sharing across distance: node i references i-1 twice and i-3, i-7 (paths grow like 2^d)
        cells = [leaf]
        for i in range(1, d + 1):
            refs = [cells[i - 1], cells[i - 1]]
            if i >= 3:
                refs.append(cells[i - 3])
            if i >= 7:
                refs.append(cells[i - 7])
            cells.append(RC.RCell(format(i, '07b'), tuple(refs)))
        return cells[-1]
    raise ValueError(name)


FAMILIES = ['kchain2', 'kchain3', 'kchain4', 'ladder', 'diamond', 'dense', 'mixed']


def count_ne(rc):
    order = RC.topo([rc])
    return len(order), sum(len(c.refs) for c in order)


def dag_ops(rec, rc, name, fn, args, dead=None):
    """run every DAG operation on the library twin of rc under the step budget"""
    from pytoniq_core.boc import Cell, Builder, Slice
    from pytoniq_core.proof.check_proof import check_proof
    n, e = count_ne(rc)
    budget = dag_budget(n, e)
    shared = e > n - 1
    rec.state(('dag', rc.hash()))
    if shared:
        rec.nontriv(('dag', rc.hash()))
    box = {}

    def run(label, thunk):
        if dead is not None and label in dead:
            return None         # already reported at a smaller depth of this family (the deeper DAG would only cost the full budget again)
        rec.trans()
        st, res, exc, exceeded = steps.measure(thunk, budget)
        rec.trace()
        rec.case('dag-op')
        if exceeded:
            rec.violation(f'dag:{label}:budget', f'{name} (n={n} cells, e={e} refs): {label} exceeded {budget} steps (work not polynomial in n+e: shared sub-DAGs re-traversed?)',
                          fn, args)
            rec.outcome(f'EXCEEDED:{label}')
            if dead is not None:
                dead.add(label)
            return None
        rec.outcome('within budget')
        if exc is not None:
            # DAG operations on valid cells must not fail either (that is C01/C03's business, reported here only as a note)
            rec.notes.setdefault('dag_op_exceptions', {})[label] = f'{name}: {exc_name(exc)}'
            return None
        box.setdefault('max', (0, ''))
        if st > box['max'][0]:
            box['max'] = (st, label)
        return res

    cell = run('construct', lambda: to_lib(rc))
    if cell is None:
        return
    bocs = []
    for oi, o in enumerate(OPTION_SETS):
        b = run(f'to_boc[{oi}]', lambda o=o: cell.to_boc(**o))
        if b is not None:
            bocs.append(b)
    for b in bocs[:1] + bocs[-1:]:
        run('from_boc', lambda b=b: Cell.one_from_boc(b))
    run('order', lambda: len(cell.order()))
    run('order(arg)', lambda: len(cell.order({})))
    run('copy', lambda: cell.copy().hash)
    run('begin_parse.to_cell', lambda: cell.begin_parse().to_cell().hash)
    run('to_builder.end_cell', lambda: cell.to_builder().end_cell().hash)
    run('hash/eq', lambda: (cell.hash, cell == cell.copy(), hash(cell), cell.get_depth(0), cell.get_hash(3), cell.calculate_representation_hash()))
    run('store_ref.end_cell', lambda: Builder().store_ref(cell).store_ref(cell).end_cell().hash)
    # the same DAG held as TWO object graphs (built twice / parsed twice): equal cells that are not identical objects -
    # comparing them, using both as keys, and serialising a cell that references both must not walk them once per path
    cell2 = run('construct-again', lambda: to_lib(rc, {}))
    if cell2 is not None:
        run('eq:two-graphs', lambda: (cell == cell2, cell2 == cell, cell != cell2))
        run('keys:two-graphs', lambda: ({cell: 1}.get(cell2), len({cell, cell2}), cell2 in [cell]))
        run('to_boc:two-graphs', lambda: len(Builder().store_ref(cell).store_ref(cell2).end_cell().to_boc()))
        run('order:two-graphs', lambda: len(Builder().store_ref(cell2).store_ref(cell).end_cell().order()))
    if bocs:
        run('eq:parsed-twice', lambda: Cell.one_from_boc(bocs[0]) == Cell.one_from_boc(bocs[0]))
    run('slice-entry', lambda: Slice.one_from_boc(bocs[0]).to_cell().hash if bocs else None)

    def walk():
        s = cell.begin_parse()
        k = 0
        while s.remaining_refs:
            s = s.load_ref().begin_parse()
            k += 1
        return k
    run('walk', walk)

    def proof():
        p = Builder(type_=3).store_uint(3, 8).store_bytes(cell.get_hash(0)).store_uint(cell.get_depth(0), 16).store_ref(cell).end_cell()
        check_proof(p, cell.get_hash(0))
        return len(p.to_boc())
    run('merkle-proof', proof)
    # REJECTED input over the same DAG: an exotic root with the wrong number of references / wrong payload on top of the shared
    # sub-DAG, through the bag-of-cells parser and through both constructors.  Being refused must not cost a walk per path either
    # (e.g. an error message that renders the offending cell's whole unfolded tree).
    if shared:
        from pytoniq_core.boc.tvm_bitarray import TvmBitarray
        h0, d0 = rc.hash(), rc.depth()
        hb, db = ''.join(format(x, '08b') for x in h0), format(d0, '016b')
        bad = [('pruned+2refs', 1, '00000001' + '00000001' + hb + db, 2), ('pruned+1ref', 1, '00000001' + '00000001' + hb + db, 1),
               ('library+1ref', 2, '00000010' + hb, 1), ('proof+0refs', 3, '00000011' + hb + db, 0), ('proof+2refs', 3, '00000011' + hb + db, 2),
               ('proof:wrong-hash', 3, '00000011' + '0' * 256 + db, 1), ('proof:wrong-depth', 3, '00000011' + hb + '1' * 16, 1),
               ('update+1ref', 4, '00000100' + hb * 2 + db * 2, 1), ('update+3refs', 4, '00000100' + hb * 2 + db * 2, 3),
               ('update:wrong-hash', 4, '00000100' + hb + '1' * 256 + db * 2, 2), ('unknown-type+2refs', 9, '00001001' + hb, 2), ('short-exotic+2refs', 1, '101', 2)]
        for bname, typ, bits, nr in bad:
            def via_boc(bits=bits, nr=nr):
                plain = Builder().store_bits(bits)
                for _ in range(nr):
                    plain.store_ref(cell)
                data = bytearray(plain.end_cell().to_boc())
                size, off = data[4] & 7, data[5]
                data[6 + 3 * size + off + size] |= 8          # the root (cell 0) becomes exotic
                try:
                    return Cell.one_from_boc(bytes(data)).hash
                except Exception as e:
                    return exc_name(e)

            def via_ctor(bits=bits, nr=nr, typ=typ):
                ba = TvmBitarray(1023)
                ba.extend(bits)
                try:
                    return Cell(ba, [cell] * nr, typ).hash
                except Exception as e:
                    return exc_name(e)

            def via_builder(bits=bits, nr=nr, typ=typ):
                b = Builder(type_=typ).store_bits(bits)
                for _ in range(nr):
                    b.store_ref(cell)
                try:
                    return b.end_cell().hash
                except Exception as e:
                    return exc_name(e)
            run(f'rejected:{bname}:from_boc', via_boc)
            run(f'rejected:{bname}:Cell()', via_ctor)
            run(f'rejected:{bname}:Builder', via_builder)
        rec.covered('dag:rejected-exotic-root')
    rec.notes['dag_max_steps_seen'] = max(rec.notes.get('dag_max_steps_seen', 0), box.get('max', (0, ''))[0])


def _shape_refs(n, tier):
    """references per cell in the enumerated shapes: quick: all shapes up to 3 cells, 4 cells with <= 3 references each; thorough: all shapes
    up to 4 cells, 5 cells with <= 2 references each (cost blow-ups need depth, which the sharing families provide - not width)"""
    if n <= 3:
        return 4
    if n == 4:
        return 3 if tier == 'quick' else 4
    return 2


def shard_shapes(rec, n, part, parts, max_refs=None):
    rec.covered('dag:shape')
    for si, shape in enumerate(dags.enum_shapes(n, max_refs or _shape_refs(n, rec.tier))):
        if si % parts != part:
            continue
        rc = dags.build_ref(shape, 'ua')[0]
        dag_ops(rec, rc, f'shape n={n} #{si} {shape}', 'case_shape', {'n': n, 'si': si, 'max_refs': max_refs or _shape_refs(n, rec.tier)})
    if part == 0:
        rec.sample({'dag_shape': [list(x) for x in next(iter(dags.enum_shapes(n, 2)))], 'ops': 'construct,to_boc x6,from_boc,order,copy,...', 'budget': 'see rule'})


def case_shape(rec, n, si, max_refs=None):
    for i, shape in enumerate(dags.enum_shapes(n, max_refs or _shape_refs(n, rec.tier))):
        if i == si:
            dag_ops(rec, dags.build_ref(shape, 'ua')[0], f'shape n={n} #{si} {shape}', 'case_shape', {'n': n, 'si': si, 'max_refs': max_refs or _shape_refs(n, rec.tier)})
            return


def shard_family(rec, fam, lo, hi):
    rec.covered(f'dag:family:{fam}')
    dead = set()
    for d in range(lo, hi + 1):
        rc = family(fam, d)
        dag_ops(rec, rc, f'family {fam} depth {d}', 'case_family', {'fam': fam, 'd': d}, dead)
    rec.sample({'family': fam, 'depth': hi, 'cells_refs': list(count_ne(family(fam, hi)))})


def case_family(rec, fam, d):
    rc = family(fam, d)
    dag_ops(rec, rc, f'family {fam} depth {d}', 'case_family', {'fam': fam, 'd': d})


# ------------------------------------------------------------------------------------------ (b)
def base_bocs(seed):
    """small base BoCs (name, bytes, layout) encoded by the reference encoder with wide fields, so
    that every count field can hold 2^32-1"""
    leaf = RC.RCell('1010')
    mid = RC.RCell('11110000' * 3, (leaf, leaf))
    top = RC.RCell('1', (mid, leaf))
    chain = RC.RCell('0')
    for i in range(5):
        chain = RC.RCell(format(i, '04b'), (chain,))
    out = []
    for name, roots in (('one', [leaf]), ('dag3', [top]), ('chain6', [chain]), ('tworoots', [top, mid])):
        for size, off in ((4, 4), (1, 1), (2, 3)):
            for idx, cache, crc in ((0, 0, 0), (1, 0, 1), (1, 1, 0), (0, 0, 1)):
                if size == 2 and not idx:
                    continue
                data = RB.encode(roots, size=size, off=off, has_idx=bool(idx), has_cache=bool(cache), has_crc=bool(crc))
                out.append((f'{name}:s{size}o{off}:{"i" if idx else ""}{"c" if cache else ""}{"k" if crc else ""}', data,
                            dict(size=size, off=off, idx=idx, cache=cache, crc=crc, nroots=len(roots), roots=roots)))
    return out


def _fix_crc(data, layout):
    from ..ref.crc import crc32c as crc32c_bytes
    if layout['crc']:
        return data[:-4] + crc32c_bytes(data[:-4])
    return data


def boc_mutations(data, layout):
    """yield (tag, description, mutated bytes)"""
    size, off = layout['size'], layout['off']
    n = int.from_bytes(data[6:6 + size], 'big')
    fields = [('cells', 6, size), ('roots', 6 + size, size), ('absent', 6 + 2 * size, size), ('tot_cells_size', 6 + 3 * size, off)]
    p = 6 + 3 * size + off
    for r in range(layout['nroots']):
        fields.append((f'root[{r}]', p, size))
        p += size
    if layout['idx']:
        for i in range(n):
            fields.append((f'index[{i}]', p, off))
            p += off
    cells_start = p
    for name, pos, width in fields:
        orig = int.from_bytes(data[pos:pos + width], 'big')
        for v in FIELD_VALUES + [orig + 1, max(orig - 1, 0)]:
            v &= (1 << (8 * width)) - 1
            if v == orig:
                continue
            m = data[:pos] + v.to_bytes(width, 'big') + data[pos + width:]
            yield 'boc:header', f'{name}={v}', m
    for v in range(256):
        if v != data[4]:
            yield 'boc:header', f'flags=0x{v:02x}', data[:4] + bytes([v]) + data[5:]
        if v != data[5]:
            yield 'boc:header', f'offset_bytes={v}', data[:5] + bytes([v]) + data[6:]
    # pairs of header fields (2 deviations): a guard computed from one field while the loop runs over another
    hdr = [('flags', 4, 1), ('offset_bytes', 5, 1)] + [f for f in fields if not f[0].startswith('index[')]
    hdr_end = cells_start if not layout['idx'] else cells_start - n * off
    pair_values = [0, 1, 255, (1 << 24) - 1, (1 << 32) - 1, (1 << 56) - 1]
    for (n1, p1, w1), (n2, p2, w2) in itertools.combinations(hdr, 2):
        for v1 in pair_values:
            for v2 in pair_values:
                v1m, v2m = v1 & ((1 << (8 * w1)) - 1), v2 & ((1 << (8 * w2)) - 1)
                if n1 == 'flags':
                    v1m = (data[4] & 0xF8) | (v1m & 7)        # only the size field of the flags byte (0..7)
                m = bytearray(data)
                m[p1:p1 + w1] = v1m.to_bytes(w1, 'big')
                m[p2:p2 + w2] = v2m.to_bytes(w2, 'big')
                m = bytes(m)
                if m != data:
                    yield 'boc:header2', f'{n1}={v1m},{n2}={v2m}', m
                    yield 'boc:header2', f'{n1}={v1m},{n2}={v2m},truncated after the header', m[:hdr_end]
    # per-cell descriptor bytes and reference indexes (walk the cells with the reference layout)
    order = RC.topo(layout['roots'])
    q = cells_start
    for ci, c in enumerate(order):
        for v in range(256):
            if v != data[q]:
                yield 'boc:descriptor', f'cell{ci}.d1=0x{v:02x}', data[:q] + bytes([v]) + data[q + 1:]
            if v != data[q + 1]:
                yield 'boc:descriptor', f'cell{ci}.d2=0x{v:02x}', data[:q + 1] + bytes([v]) + data[q + 2:]
        rp = q + 2 + len(c.data_bytes())
        for ri in range(len(c.refs)):
            orig = int.from_bytes(data[rp:rp + size], 'big')
            for v in {ci, 0, n - 1, n, (1 << (8 * size)) - 1, max(ci - 1, 0)}:
                v &= (1 << (8 * size)) - 1
                if v != orig:
                    yield 'boc:refidx', f'cell{ci}.ref{ri}={v}', data[:rp] + v.to_bytes(size, 'big') + data[rp + size:]
            rp += size
        q = rp


def run_parser(rec, tag, label, thunk, length, fn, args, key):
    budget = parser_budget(length)
    rec.trans()
    st, peak, res, exc, exceeded = steps.measure_mem(thunk, budget)
    rec.trace()
    rec.case(tag)
    rec.covered(tag)
    if exceeded:
        rec.violation(f'{key}:budget', f'{label}: input of {length} bytes needed more than {budget} steps (work driven by a field value, not by the input length)', fn, args)
        rec.outcome('EXCEEDED')
    elif peak > parser_mem_budget(length):
        rec.violation(f'{key}:memory', f'{label}: input of {length} bytes made the parser allocate {peak} bytes (budget {parser_mem_budget(length)}): data built from a field value, '
                      f'not from the input (work hidden inside single operations: {st} steps)', fn, args)
        rec.outcome('EXCEEDED-MEM')
    else:
        mm = rec.notes.get('parser_max_peak_bytes_per_byte', 0)
        rec.notes['parser_max_peak_bytes_per_byte'] = max(mm, round(peak / (length + 16), 1))
        rec.outcome('raised' if exc is not None else 'returned')
        m = rec.notes.get('parser_max_steps_per_byte', 0)
        rec.notes['parser_max_steps_per_byte'] = max(m, round(st / (length + 16), 1))


def shard_boc(rec, bi):
    from pytoniq_core.boc import Cell
    name, data, layout = base_bocs(rec.seed)[bi]
    k = 0
    for tag, what, m in boc_mutations(data, layout):
        for fix in ((False, True) if layout['crc'] else (False,)):
            mm = _fix_crc(m, layout) if fix else m
            rec.state(mm)
            rec.nontriv(mm)
            run_parser(rec, tag, f'BoC {name} with {what}{" (crc fixed)" if fix else ""}', lambda mm=mm: Cell.from_boc(mm), len(mm),
                       'case_boc', {'bi': bi, 'k': k, 'fix': fix}, f'boc:{tag.split(":")[1]}')
        k += 1
    if bi == 0:
        rec.sample({'base_boc': data.hex(), 'mutation': 'cells=4294967295', 'budget_steps': parser_budget(len(data))})


def case_boc(rec, bi, k, fix):
    from pytoniq_core.boc import Cell
    name, data, layout = base_bocs(rec.seed)[bi]
    for i, (tag, what, m) in enumerate(boc_mutations(data, layout)):
        if i == k:
            mm = _fix_crc(m, layout) if fix else m
            run_parser(rec, tag, f'BoC {name} with {what}', lambda: Cell.from_boc(mm), len(mm), 'case_boc', {'bi': bi, 'k': k, 'fix': fix}, f'boc:{tag.split(":")[1]}')
            return


# ------------------------------------------------------------------------------------------ (d)
def dict_cases():
    """adversarial dictionary root cells: (name, RCell, key_len)"""
    out = []
    for m in (0, 1, 2, 7, 8, 31, 32, 255, 256, 267, 1023):
        kl = RH.klen(m)
        # hml_short with unary length 0..min(m+3, 1021) and without terminator
        for n in sorted({0, 1, 2, m, m + 1, m + 2, 500, 510, 511, 1020}):
            if 1 + n + 1 + n <= 1023:
                out.append((f'short:m={m}:n={n}', RC.RCell('0' + '1' * n + '0' + '1' * n), m))
        out.append((f'short:unterminated:m={m}', RC.RCell('0' + '1' * 1022), m))
        # hml_long with every interesting claimed length, enough / not enough bits behind it
        for n in sorted({0, 1, m, m + 1, (1 << kl) - 1, (1 << kl) // 2}):
            if n < (1 << kl) or kl == 0:
                n_ = n if kl else 0
                avail = max(0, min(n_, 1023 - 2 - kl))
                out.append((f'long:m={m}:n={n_}', RC.RCell('10' + (format(n_, f'0{kl}b') if kl else '') + '1' * avail), m))
                out.append((f'long-short-data:m={m}:n={n_}', RC.RCell('10' + (format(n_, f'0{kl}b') if kl else '')), m))
        for n in sorted({0, 1, m, m + 1, (1 << kl) - 1}):
            if n < (1 << kl) or kl == 0:
                n_ = n if kl else 0
                leaf = RC.RCell('110' + (format(n_, f'0{kl}b') if kl else '') + '1' * 8)
                out.append((f'same:m={m}:n={n_}', leaf, m))
                # fork below an over-long label: children present
                out.append((f'same-fork:m={m}:n={n_}', RC.RCell('111' + (format(n_, f'0{kl}b') if kl else ''), (leaf, leaf)), m))
    # deep tree-shaped (not shared) comb: key length 1023 with forks at each of the first 40 bits
    return out


TOWER_KINDS = ('same1', 'same0', 'long', 'short')
TOWER_M = (1, 4, 32, 256, 1023)


def dict_tower(m, kind, d):
    """a chain of d dictionary fork cells whose edge label CLAIMS more key bits than remain: the adversary follows the
    parser down - at every level the length field (as wide as a parser that does not check `n <= m` would read it) holds
    its maximum.  A conforming parser rejects the first cell; one that goes on works with a negative / growing
    remaining length.  -> (root RCell, number of cells, total bytes)"""
    levels = []
    cur = m
    for _ in range(d):
        kl = abs(cur).bit_length()
        if kind.startswith('same'):
            n = (1 << kl) - 1
            bits = '11' + kind[-1] + (format(n, f'0{kl}b') if kl else '')
        elif kind == 'long':
            n = min((1 << kl) - 1, 1023 - 2 - kl)
            bits = '10' + (format(n, f'0{kl}b') if kl else '') + '1' * n
        else:
            n = min(abs(cur) + 1, 500)
            bits = '0' + '1' * n + '0' + '1' * n
        levels.append(bits)
        cur = cur - n - 1
    leaf = RC.RCell('0' * 8)
    node = leaf
    for bits in reversed(levels):
        node = RC.RCell(bits, (node, leaf))
    total = sum(len(RC.RCell(b).data_bytes()) + 4 for b in levels) + 3
    return node, d + 1, total


def shard_dict_tower(rec, kind, hi):
    for m in TOWER_M:
        dead = set()
        for d in range(1, hi + 1):
            case_dict_tower(rec, m, kind, d, dead)
    rec.sample({'dict_tower': kind, 'key_lens': list(TOWER_M), 'depths': f'1..{hi}'})


def case_dict_tower(rec, m, kind, d, dead=None):
    from pytoniq_core.boc import Cell
    from pytoniq_core.boc.hashmap import HashMap
    from pytoniq_core.boc.hashmap.parse import parse_hashmap, parse_hashmap_aug
    rc, n, length = dict_tower(m, kind, d)
    cell = to_lib(rc)
    rec.state(('dict-tower', m, kind, d))
    rec.nontriv(('dict-tower', m, kind, d))
    args = {'m': m, 'kind': kind, 'd': d}
    take = lambda s: s.load_bits(min(4, s.remaining_bits))
    for key, thunk in (('dict:plain', lambda: parse_hashmap(cell.begin_parse(), m)),
                       ('dict:HashMap.parse', lambda: HashMap.parse(cell.begin_parse(), m)),
                       ('dict:aug', lambda: parse_hashmap_aug(cell.begin_parse(), m, take, take)),
                       ('dict:load_dict', lambda: to_lib(RC.RCell('1', (rc,))).begin_parse().load_dict(m))):
        if dead is not None and key in dead:
            continue            # reported at a smaller depth of this tower; deeper ones only cost more
        before = len(rec.violations)
        run_parser(rec, 'dict:tower', f'dictionary tower ({kind} labels claiming more than the remaining key length {m}, {d} levels, {n} cells) {key}',
                   thunk, length, 'case_dict_tower', args, key)
        if dead is not None and len(rec.violations) > before:
            dead.add(key)


def shard_dict(rec, part, parts):
    from pytoniq_core.boc import Cell
    from pytoniq_core.boc.hashmap import HashMap
    from pytoniq_core.boc.hashmap.parse import parse_hashmap, parse_hashmap_aug
    cases = dict_cases()
    for i, (name, rc, m) in enumerate(cases):
        if i % parts != part:
            continue
        cell = to_lib(rc)
        length = len(rc.data_bytes()) + 2 + sum(len(r.data_bytes()) + 2 for r in rc.refs)
        rec.state(('dict', name))
        rec.nontriv(('dict', name))
        args = {'i': i}
        run_parser(rec, 'dict:label', f'dictionary root {name} parse_hashmap', lambda: parse_hashmap(cell.begin_parse(), m), length, 'case_dict', args, 'dict:plain')
        run_parser(rec, 'dict:label', f'dictionary root {name} HashMap.parse', lambda: HashMap.parse(cell.begin_parse(), m), length, 'case_dict', args, 'dict:HashMap.parse')
        run_parser(rec, 'dict:label', f'dictionary root {name} parse_hashmap_aug',
                   lambda: parse_hashmap_aug(cell.begin_parse(), m, lambda s: s.load_bits(min(4, s.remaining_bits)), lambda s: s.load_bits(min(4, s.remaining_bits))),
                   length, 'case_dict', args, 'dict:aug')
        run_parser(rec, 'dict:label', f'dictionary root {name} load_dict',
                   lambda: Cell.one_from_boc(to_lib(RC.RCell('1', (rc,))).to_boc()).begin_parse().load_dict(m), length + 8, 'case_dict', args, 'dict:load_dict')
    if part == 0:
        rec.sample({'dict_root_bits': cases[5][1].bits[:40] + '...', 'key_len': cases[5][2], 'name': cases[5][0]})


def case_dict(rec, i):
    shard_dict(rec, i, len(dict_cases()) + 1) if False else None
    from pytoniq_core.boc.hashmap import HashMap
    from pytoniq_core.boc.hashmap.parse import parse_hashmap, parse_hashmap_aug
    name, rc, m = dict_cases()[i]
    cell = to_lib(rc)
    length = len(rc.data_bytes()) + 2 + sum(len(r.data_bytes()) + 2 for r in rc.refs)
    args = {'i': i}
    run_parser(rec, 'dict:label', f'dictionary root {name} parse_hashmap', lambda: parse_hashmap(cell.begin_parse(), m), length, 'case_dict', args, 'dict:plain')
    run_parser(rec, 'dict:label', f'dictionary root {name} HashMap.parse', lambda: HashMap.parse(cell.begin_parse(), m), length, 'case_dict', args, 'dict:HashMap.parse')
    run_parser(rec, 'dict:label', f'dictionary root {name} parse_hashmap_aug',
               lambda: parse_hashmap_aug(cell.begin_parse(), m, lambda s: s.load_bits(min(4, s.remaining_bits)), lambda s: s.load_bits(min(4, s.remaining_bits))),
               length, 'case_dict', args, 'dict:aug')


def case_dict_shared(rec, d, dead=None):
    """a VALID dictionary whose fork cells reference one and the same child twice: d + 1 cells, 2^d entries.  The bag is a few bytes per level;
    the parsers return every entry, so their work is the size of the denoted map, not of the input"""
    from pytoniq_core.boc import Cell
    from pytoniq_core.boc.hashmap import HashMap
    from pytoniq_core.boc.hashmap.parse import parse_hashmap
    c = RC.RCell('00' + '00000111')
    for _ in range(d):
        c = RC.RCell('00', (c, c))
    data = RB.encode([c])
    args = {'d': d}
    rec.state(('dict-shared', d))
    rec.nontriv(('dict-shared', d))
    for name, thunk in (('parse_hashmap', lambda: len(parse_hashmap(Cell.one_from_boc(data).begin_parse(), d))),
                        ('load_dict', lambda: len(to_lib(RC.RCell('1', (c,))).begin_parse().load_dict(d, None, None) or {}))):
        key = f'dict:shared-forks:{name}'
        if dead is not None and key in dead:
            continue
        before = len(rec.violations)
        run_parser(rec, 'dict:shared', f'dictionary of {d} fork levels sharing one child per level ({d + 1} cells, 2^{d} entries), {name}', thunk, len(data), 'case_dict_shared', args, key)
        if dead is not None and len(rec.violations) > before:
            dead.add(key)


def shard_dict_shared(rec):
    dead = set()
    for d in range(1, 17):
        case_dict_shared(rec, d, dead)
    rec.sample({'dictionary': '12 fork cells, each referencing the same child twice: 4096 entries in a 70-byte bag', 'budget': 'parser budget of the bag length'})


# ------------------------------------------------------------------------------------------ (c)
def shard_tl(rec, part, parts):
    from . import c19tl
    c19tl.shard_tl(rec, part, parts, run_parser)


def case_tl(rec, name, k):
    from . import c19tl
    c19tl.case_tl(rec, name, k, run_parser)


def selftest():
    from ..ref import crc
    crc.selftest()
    # the monitor is deterministic and raises inside the call
    n1 = steps.measure(lambda: to_lib(family('kchain2', 6)).to_boc())[0]
    n2 = steps.measure(lambda: to_lib(family('kchain2', 6)).to_boc())[0]
    assert n1 == n2 and n1 > 50, (n1, n2)
    assert count_ne(family('kchain2', 40)) == (41, 80)


def shards(tier, seed):
    return _shards(tier, seed) + [{'fn': 'shard_dict_shared', 'args': {}, 'prio': 1}]


def _shards(tier, seed):
    out = []
    for n in (1, 2, 3):
        out.append({'fn': 'shard_shapes', 'args': {'n': n, 'part': 0, 'parts': 1}})
    for p in range(16):
        out.append({'fn': 'shard_shapes', 'args': {'n': 4, 'part': p, 'parts': 16}, 'prio': 3})
    if tier == 'thorough':
        for p in range(8):
            out.append({'fn': 'shard_shapes', 'args': {'n': 5, 'part': p, 'parts': 8}, 'prio': 2})
    for fam in FAMILIES:
        out.append({'fn': 'shard_family', 'args': {'fam': fam, 'lo': 1, 'hi': 40}, 'prio': 4})
    for bi in range(len(base_bocs(seed))):
        out.append({'fn': 'shard_boc', 'args': {'bi': bi}, 'prio': 2})
    for p in range(4):
        out.append({'fn': 'shard_dict', 'args': {'part': p, 'parts': 4}})
    for kind in TOWER_KINDS:
        out.append({'fn': 'shard_dict_tower', 'args': {'kind': kind, 'hi': 20 if tier == 'quick' else 24}})
    for p in range(8):
        out.append({'fn': 'shard_tl', 'args': {'part': p, 'parts': 8}, 'prio': 1})
    return out
