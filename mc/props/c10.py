"""C10 - dictionaries use the canonical TON Hashmap encoding; parsers accept all valid (explorer E)."""
import itertools
from ..ref import cell as RC
from ..ref import bits as RBITS
from ..ref import hashmap as RH
from .. import engine
from .common import to_lib, exc_name
from . import c09

ID = 'C10'
TITLE = 'Dictionaries use the canonical TON Hashmap encoding; parsers accept all valid'
EXPLORER = 'E (all (label length, remaining key length, same/mixed) triples; all key sets; all label-kind assignments; all prunings)'
RULE = ('labels: the real write_label on a real Builder for (n, m, pattern in {zeros, ones, mixed}) - ALL pairs 0<=n<=m<=1023 in thorough; in quick all '
        'pairs for m<=200 and, beyond, every n within 24 of a decision boundary or of m plus a stride - compared bit for bit with TON\'s rule; trees: '
        'HashMap.serialize().hash == hash of the reference canonical trie for every key set of widths 1..3, the width-4 family of C09 and the wide '
        'divergence-pattern sets; valid encodings: for every key set of width <= 3 (thorough: also width 4 sets of <= 6 keys) the reference encoder '
        'emits EVERY assignment of valid label kinds (short/long/same) to edges when the trie has <= 7 (quick: 5) edges, else all assignments with <= 2 '
        'non-canonical edges; plain parser, load_dict, aug parser and load_hashmap_aug_e must return all leaves (+ extras in post-order); prunings: '
        'every antichain of trie cells replaced by pruned branches (incl. the root): parsers return exactly the leaves/extras of the unpruned part. '
        'non-trivial = label length >= 2 or >= 2 keys; states = distinct labels / encodings; transitions = write_label / parse calls; traces = '
        'encodings compared with the reference')
RULE += ' Fifth session: the same non-injective value functions for the canonical hash and for the parsers (canonical labels + every single non-canonical edge, all prunings); HashMap.from_cell(tree).serialize() is the canonical tree for every valid (non-canonical, pruned) input tree.'
LEVEL_TEXT = ('Bounded-exhaustive: the label-kind decision is checked on its whole domain (all ~1.5M (n,m,pattern) triples in thorough), canonical tree '
              'hashes on all small key sets, and the parsers on every valid label-kind assignment and every pruning of every small trie, against an '
              'independent Patricia-trie model that follows dict.cpp.')
LEVEL_NOTE = 'trusted: mc/ref/hashmap.py (label rule pinned on the tie-break boundaries, on the repo\'s pinned dictionary hash and on the 170 labels of the main-net block)'
TECHNIQUE = 'exhaustive enumeration of the label-kind decision domain, key sets, label-kind assignments and prunings against a reference trie model'
RULE += " Augmented dictionaries come in two forms: 8-bit extras, and extras that OWN a reference (leaf: extra's reference before the value's; fork: left, right, then the extra's), for all label-kind assignments and all prunings."
ASSUMPTIONS = ['tries with more than 7 edges: label-kind assignments bounded to <= 2 deviations from canonical']
NOT_ASSERTED = ['rejection of malformed dictionaries']
RULE += ' Sixth session: the map object is edited after serialize() (set_int_key, .map item assignment, pop, a new dict) - the next serialize() is the canonical tree of the map as it is then.'


def BOUNDS(tier):
    return {'labels': 'all 0<=n<=m<=1023 x 3 patterns' if tier == 'thorough' else 'all for m<=200; boundary bands + stride beyond',
            'assignment_full_product_edges': 7 if tier == 'thorough' else 5, 'assignment_deviation_bound': 2, 'prune_sets': 'all antichains', 'exhaustive': True}


def selftest():
    RH.selftest()
    # the dictionary pinned in the repository's own test_hashmap
    from ..ref import bits as B
    import re
    src = open('/repo/tests/test_hashmap.py').read() if False else None


def REQUIRED_COVER(tier):
    return {'kind:short', 'kind:long', 'kind:same', 'noncanonical', 'aug', 'aug_e', 'aug:extra-owns-ref', 'pruned:inner', 'pruned:root', 'tree-hash', 'tree-edit', 'failure-history', 'label:1023', 'values:equal-subtries'}


# ------------------------------------------------------------------ labels
def case_label(rec, n, m, pat):
    from pytoniq_core.boc import Builder
    from pytoniq_core.boc.hashmap.utils import write_label
    label = '0' * n if pat == 'z' else '1' * n if pat == 'o' else ('10' * n)[:n] if n != 2 else '01'
    if pat == 'x' and n >= 2 and label == label[0] * n:
        label = '1' + '0' * (n - 1)
    kind = RH.canonical_kind(label, m)
    want = RH.label_bits(label, m, kind)
    rec.covered(f'kind:{kind}')
    args = {'n': n, 'm': m, 'pat': pat}
    b = Builder()
    try:
        write_label(label, m, b)
        got = b.bits.to01()
        raised = None
    except Exception as e:
        raised = e
        got = None
    if len(want) > 1023:
        if raised is None:
            rec.violation('label:overflow-accepted', f'label n={n} m={m}: canonical encoding has {len(want)} bits but was written', 'case_label', args)
        return
    if raised is not None:
        rec.violation('label:raises', f'label n={n} m={m} {pat}: write_label raised {exc_name(raised)}: {raised}', 'case_label', args)
        return
    if got != want:
        gk = 'short' if got[:1] == '0' else 'long' if got[:2] == '10' else 'same'
        rec.violation(f'label:{kind}-vs-{gk}', f'label n={n} m={m} pattern {pat}: library wrote {gk} ({len(got)} bits), TON writes {kind} ({len(want)} bits)',
                      'case_label', args)


def label_ns(m, full):
    if full or m <= 200:
        return range(0, m + 1)
    k = m.bit_length()
    ns = set(range(0, min(m, 25) + 1)) | set(range(max(0, m - 3), m + 1)) | set(range(0, m + 1, 53))
    ns |= {x for b in (k, (k + 1) // 2, (k + 2) // 2) for x in range(max(0, b - 3), min(m, b + 3) + 1)}
    return sorted(ns)


def shard_labels(rec, lo, hi, full):
    cnt = 0
    for m in range(lo, hi + 1):
        for n in label_ns(m, full):
            for pat in ('z', 'o', 'x'):
                if pat == 'x' and n < 2:
                    continue
                case_label(rec, n, m, pat)
                cnt += 1
        if m == 1023:
            rec.covered('label:1023')
    rec.case('label', cnt)
    rec.trans(cnt)
    rec.trace(cnt)
    rec.bulk(states=cnt, nontrivial=cnt)
    rec.sample({'label_len': 5, 'remaining_key_len': hi, 'pattern': 'ones', 'expected_kind': RH.canonical_kind('1' * 5, hi)})
    rec.outcome('labels-ok')


# ------------------------------------------------------------------ canonical tree hashes
def case_tree(rec, width, keys, kind):
    keys = [int(k) for k in keys]
    rec.case('tree')
    args = {'width': width, 'keys': [str(k) for k in keys], 'kind': kind}
    refmap = {k: c09.val_for(k, kind)[1] for k in keys}
    try:
        want = RH.build(refmap, width)
    except RH.RefDictError:
        return
    hm = c09.make_map(width, keys, kind)
    for k in keys:
        hm.set_int_key(k, c09.val_for(k, kind)[0])
    rec.trans()
    try:
        cell = hm.serialize()
    except Exception as e:
        rec.violation('tree:raises', f'width {width} keys {keys[:8]}: serialize raised {exc_name(e)}: {e}', 'case_tree', args)
        return
    rec.trace()
    rec.covered('tree-hash')
    if cell.hash != want.hash():
        kinds_l, kinds_r = [], []
        try:
            RH.parse(c09._rc(cell), width, kinds=kinds_l)
            RH.parse(want, width, kinds=kinds_r)
        except Exception:
            pass
        diff = [(a, b) for a, b in zip(kinds_l, kinds_r) if a != b][:2]
        rec.violation('tree:hash', f'width {width} keys {keys[:10]}: cell hash differs from the canonical TON trie (first differing edges {diff})', 'case_tree', args)
        rec.outcome('NONCANONICAL')
    else:
        rec.outcome('canonical')
    rec.state(('tree', width, tuple(sorted(keys)), kind))
    if len(keys) > 1:
        rec.nontriv(('tree', width, tuple(sorted(keys))))
    # the map object goes on being used after it was serialised (sixth session): each edit - through set_int_key, by item assignment on
    # the public .map, by .map.pop, by a new dict object - and then serialize() again: the canonical tree of the map AS IT IS NOW
    if len(keys) <= 6:
        cur = dict(refmap)
        edits = [('set_int_key', keys[0]), ('map-item', keys[-1]), ('map-pop', keys[0]), ('map-assign', keys[-1])]
        for tag, k in edits:
            vl, vr = c09.val_for(k ^ 1, kind)[:2]
            try:
                if tag == 'set_int_key':
                    hm.set_int_key(k, vl)
                    cur[k] = vr
                elif tag == 'map-item':
                    hm.map[k] = vl
                    cur[k] = vr
                elif tag == 'map-pop':
                    if len(cur) < 2:
                        continue
                    hm.map.pop(k)
                    cur.pop(k)
                else:
                    hm.map = {k: vl}
                    cur = {k: vr}
                rec.trans()
                try:
                    want2 = RH.build(cur, width)
                except RH.RefDictError:
                    return      # the edited map has no encoding (a label does not fit a cell)
                c2 = hm.serialize()
                if c2 is None or c2.hash != want2.hash():
                    rec.violation(f'tree:edit:{tag}', f'width {width} keys {keys[:8]}: after serialize() and the edit {tag}({k}) the next serialize() is not the canonical tree '
                                  f'of the edited map', 'case_tree', args)
                    return
            except RH.RefDictError:
                return
            except Exception as e:
                rec.violation(f'tree:edit:{tag}', f'width {width} keys {keys[:8]}: edit {tag}({k}) + serialize raised {exc_name(e)}: {e}', 'case_tree', args)
                return
        rec.covered('tree-edit')


def shard_trees(rec, width, part, parts, full):
    kinds = ['uint', 'int', 'coins']
    if width <= 4:
        for mask in range(1, 1 << (1 << width)):
            if mask % parts != part:
                continue
            size = bin(mask).count('1')
            if width == 4 and not full and not (size <= 3 or size >= 14 or mask % 16 == 5):
                continue
            keys = [k for k in range(1 << width) if mask >> k & 1]
            case_tree(rec, width, keys, kinds[mask % 3])
            case_tree(rec, width, keys, ('const', 'low1', 'low2')[(mask // 3) % 3])      # equal values: equal sub-tries
            if size <= 3:
                case_tree(rec, width, keys[::-1], kinds[(mask + 1) % 3])
    else:
        for keys in c09.wide_key_sets(width, rec.seed):
            for kind in kinds + ['const', 'low1']:
                case_tree(rec, width, keys, kind)
    rec.sample({'width': width, 'oracle': 'HashMap.serialize().hash == reference canonical trie hash'})


# ------------------------------------------------------------------ all valid label-kind assignments + prunings
def aug_fns(with_ref=False):
    """extras: 8 bits (leaf: from the value, fork: sum of the children's); with_ref: every extra also OWNS one reference
    (as a DepthBalanceInfo with extra currencies does) - in a fork cell it comes after the two children"""
    if not with_ref:
        leaf = lambda v: RBITS.uint(int(v[0][:8], 2) & 0xff, 8)
        fork = lambda a, b: RBITS.uint((int(a, 2) + int(b, 2)) & 0xff, 8)
        return leaf, fork
    xcell = lambda bits: (bits, (RC.RCell('1100' + bits),))
    leaf = lambda v: xcell(RBITS.uint(int(v[0][:8], 2) & 0xff, 8))
    fork = lambda a, b: xcell(RBITS.uint((int(a[0], 2) + int(b[0], 2)) & 0xff, 8))
    return leaf, fork


def _parse_all(rec, rc, width, aug, want_leaves, want_extras, fn, args, tag):
    """run the library parsers on the reference-built tree rc"""
    from pytoniq_core.boc import HashMap, Builder
    from pytoniq_core.boc.hashmap.parse import parse_hashmap, parse_hashmap_aug
    cell = to_lib(rc)
    xd = lambda s: s.load_uint(8)
    yd = (lambda s: s.load_uint(8)) if aug != 'ref' else (lambda s: (s.load_uint(8), s.load_ref().hash))
    want_x = (lambda e: int(e, 2)) if aug != 'ref' else (lambda e: (int(e[0], 2), e[1][0].hash()))
    want_int = {k: int(v, 2) for k, v in want_leaves.items()}
    runs = []
    if not aug:
        runs.append(('parse_hashmap', lambda: {int(k, 2) if k else 0: xd(v) for k, v in parse_hashmap(cell.begin_parse(), width).items()} if not rc.special else {}))
        runs.append(('HashMap.parse', lambda: HashMap.parse(cell.begin_parse(), width, None, xd) or {}))
        runs.append(('load_dict', lambda: Builder().store_dict(cell).end_cell().begin_parse().load_dict(width, None, xd) or {}))
        runs.append(('from_cell', lambda: {k: xd(v) for k, v in HashMap.from_cell(cell, width).map.items()} if not rc.special else {}))

        def from_cell_serialize():
            # whatever (valid, possibly non-canonical or partly pruned) tree a map was read from: serialising the map object gives the
            # CANONICAL tree of the pairs it holds
            hm = HashMap.from_cell(cell, width)
            got = {k: v.copy().load_uint(8) for k, v in hm.map.items()}
            out = hm.serialize()
            canon = RH.build({k: RBITS.uint(v, 8) for k, v in got.items()}, width).hash() if got else None
            if (out.hash if out is not None else None) != canon:
                raise AssertionError('HashMap.from_cell(tree).serialize() is not the canonical tree of the pairs read')
            return got
        if not rc.special:
            runs.append(('from_cell.serialize', from_cell_serialize))
    else:
        def norm(r):
            if r is None:
                return ({}, [])
            return r
        runs.append(('parse_hashmap_aug', lambda: norm(parse_hashmap_aug(cell.begin_parse(), width, xd, yd))))
        runs.append(('load_hashmap_aug', lambda: norm(cell.begin_parse().load_hashmap_aug(width, xd, yd))))
        runs.append(('load_hashmap_aug_e', lambda: norm(Builder().store_bit(1).store_ref(cell).store_uint(0xee, 8).end_cell().begin_parse().load_hashmap_aug_e(width, xd, yd))))
        rec.covered('aug', 'aug_e')
        if aug == 'ref':
            rec.covered('aug:extra-owns-ref')
    for name, thunk in runs:
        rec.trans()
        try:
            got = thunk()
        except Exception as e:
            rec.violation(f'{tag}:raises:{name}', f'{name} raised {exc_name(e)}: {e} on a valid {"aug " if aug else ""}dictionary ({args})', fn, args)
            rec.outcome('RAISED')
            continue
        rec.trace()
        if aug:
            leaves, extras = got
            if leaves != want_int:
                rec.violation(f'{tag}:leaves:{name}', f'{name}: leaves {leaves}, expected {want_int} ({args})', fn, args)
            elif list(extras) != [want_x(e) for e in want_extras]:
                rec.violation(f'{tag}:extras:{name}', f'{name}: extras {str(list(extras))[:200]}, expected {str([want_x(e) for e in want_extras])[:200]} ({args})', fn, args)
        else:
            if got != want_int:
                rec.violation(f'{tag}:leaves:{name}', f'{name}: leaves {got}, expected {want_int} ({args})', fn, args)
        rec.outcome('parsed')


VALFNS = {'distinct': lambda k: (k * 29 + 3) & 0xff, 'const': lambda k: 0x5a, 'low1': lambda k: 0x10 + (k & 1)}


def _vals(keys, valfn):
    if valfn.startswith('two:'):
        m = int(valfn[4:])
        return {k: RBITS.uint(0xA0 + (m >> k & 1), 8) for k in keys}
    return {k: RBITS.uint(VALFNS[valfn](k), 8) for k in keys}


def case_assign(rec, width, keys, aug, assign, valfn='distinct'):
    """assign: list of kind names per edge in pre-order ('' = canonical)"""
    keys = [int(k) for k in keys]
    rec.case('assign')
    args = {'width': width, 'keys': keys, 'aug': aug, 'assign': assign, 'valfn': valfn}
    vals = _vals(keys, valfn)
    if valfn != 'distinct':
        rec.covered('values:equal-subtries')
    edges = RH.edges(vals, width)
    amap = {e[0]: (assign[i] if i < len(assign) else '') for i, e in enumerate(edges)}

    def chooser(path, label, m):
        return amap.get(path) or RH.canonical_kind(label, m)
    try:
        rc = RH.build(vals, width, chooser=chooser, aug=aug_fns(aug == 'ref') if aug else None)
    except RH.RefDictError:
        return
    if any(assign):
        rec.covered('noncanonical')
    leaves, extras = RH.parse(rc, width, aug_extra_len=8 if aug else None, aug_extra_refs=1 if aug == 'ref' else 0)
    assert {k: v[0] for k, v in leaves.items()} == vals
    rec.state(('assign', width, tuple(keys), aug, tuple(assign), valfn))
    rec.nontriv(('assign', width, tuple(keys), aug, tuple(assign), valfn))
    _parse_all(rec, rc, width, aug, vals, extras, 'case_assign', args, 'valid')


def assignments(edges, full_limit=7, k=2):
    """list of per-edge kind lists: every valid combination if few edges, else <= k deviations"""
    opts = []
    for path, label, m in edges:
        canon = RH.canonical_kind(label, m)
        alts = [''] + [x for x in RH.valid_kinds(label, m) if x != canon]
        opts.append(alts)
    if len(edges) <= full_limit:
        for combo in itertools.product(*opts):
            yield list(combo)
    else:
        for a in engine.deviations([len(o) for o in opts], k):
            yield [opts[i][v] for i, v in enumerate(a)]


def antichains(rc):
    """all ways to replace a set of trie cells by pruned branches: yields reference roots"""
    def variants(c):
        # c kept with each child kept/pruned/varied, or c pruned
        yield RC.prune(c, 1), True
        if len(c.refs) >= 2 and not c.special:
            for (l, lp), (r, rp) in itertools.product(list(variants(c.refs[0])), list(variants(c.refs[1]))):
                yield RC.RCell(c.bits, (l, r) + tuple(c.refs[2:])), (lp or rp)
        else:
            yield c, False
    for v, pruned in variants(rc):
        if pruned:
            yield v


def case_prune(rec, width, keys, aug, index, _all=False, valfn='distinct'):
    keys = [int(k) for k in keys]
    vals = _vals(keys, valfn)
    rc = RH.build(vals, width, aug=aug_fns(aug == 'ref') if aug else None)
    for i, pr in enumerate(antichains(rc)):
        if i != index and not _all:
            continue
        rec.case('prune')
        args = {'width': width, 'keys': keys, 'aug': aug, 'index': i, 'valfn': valfn}
        leaves, extras = RH.parse(pr, width, aug_extra_len=8 if aug else None, aug_extra_refs=1 if aug == 'ref' else 0)
        want = {k: v[0] for k, v in leaves.items()}
        rec.covered('pruned:root' if pr.special else 'pruned:inner')
        rec.state(('prune', width, tuple(keys), aug, i, valfn))
        rec.nontriv(('prune', width, tuple(keys), aug, i, valfn))
        _parse_all(rec, pr, width, aug, want, extras, 'case_prune', args, 'pruned')
        if not _all:
            return


def shard_valid(rec, width, part, parts, max_keys, full_limit=7):
    n = 0
    for mask in range(1, 1 << (1 << width)):
        if mask % parts != part:
            continue
        keys = [k for k in range(1 << width) if mask >> k & 1]
        if len(keys) > max_keys:
            continue
        vals = {k: '0' * 8 for k in keys}
        edges = RH.edges(vals, width)
        for aug in (False, True, 'ref'):
            for assign in assignments(edges, full_limit=full_limit):
                case_assign(rec, width, keys, aug, assign)
            case_prune(rec, width, keys, aug, -1, _all=True)
            # value functions that are not injective (equal sub-tries = one shared cell): canonical labels + every single
            # non-canonical edge, all prunings; for few keys EVERY assignment of two values to the keys
            vfs = ['const', 'low1'] + ([f'two:{sum(1 << k for j, k in enumerate(keys) if vm >> j & 1)}' for vm in range(1, (1 << len(keys)) - 1)]
                                       if len(keys) <= (4 if width <= 3 else 3) else [])
            for valfn in vfs:
                for assign in assignments(edges, full_limit=0, k=1):
                    case_assign(rec, width, keys, aug, assign, valfn)
                if not valfn.startswith('two:') and (width <= 3 or len(keys) <= 3):
                    case_prune(rec, width, keys, aug, -1, _all=True, valfn=valfn)
        n += 1
    rec.sample({'width': width, 'keys': [0, 1, 6], 'edge_kinds': ['same', '', 'long'], 'aug': True})


def shard_hashmap_aug_e_empty(rec):
    """ahme_empty$0 extra:Y and a pruned container"""
    from pytoniq_core.boc import Builder
    rec.case('aug_e_empty')
    s = Builder().store_bit(0).store_uint(0x5a, 8).end_cell().begin_parse()
    r = s.load_hashmap_aug_e(8, lambda x: x.load_uint(8), lambda y: y.load_uint(8))
    rec.trans()
    rec.trace()
    if r[0] != {}:
        rec.violation('aug_e:empty', f'empty HashmapAugE parsed as {r}', 'shard_hashmap_aug_e_empty', {})
    if s.remaining_bits != 8:
        rec.violation('aug_e:empty-consumed', 'empty HashmapAugE: the extra must stay unread for the caller', 'shard_hashmap_aug_e_empty', {})
    rec.state('aug_e_empty')


def shard_failure_histories(rec):
    """wave 10: dictionaries the parser REFUSES deep inside the tree (a leaf whose value is cut short, 150 levels down), a dozen of them, then
    a valid dictionary of the same depth through every plain entry point: all its leaves.  Nothing of a failed parse may be left behind."""
    from pytoniq_core.boc import HashMap, Builder
    width = 160
    keys = [0] + [1 << i for i in range(150)]
    good = RH.build({k: RBITS.uint(k % 251, 8) for k in keys}, width)
    # the malformed twin: the leaf of key 4 (remaining key length 2, about 147 levels down) gets an hml_long label that claims 3 bits - the
    # parser refuses it INSIDE its recursion
    chain = [good]
    while chain[-1].refs:
        chain.append(chain[-1].refs[0])
    forks = chain[:-1]

    def rebuild(i):
        c = forks[i]
        if i == len(forks) - 3:
            return RC.RCell(c.bits, (c.refs[0], RC.RCell('10' + '11' + '10101010')))
        return RC.RCell(c.bits, (rebuild(i + 1), c.refs[1]))
    bad = rebuild(0)
    lgood, lbad = to_lib(good), to_lib(bad)
    deser = lambda s: s.load_uint(8)
    entries = [('HashMap.parse', lambda c: HashMap.parse(c.begin_parse(), width, None, deser)),
               ('load_hashmap', lambda c: c.begin_parse().load_hashmap(width, None, deser)),
               ('load_dict', lambda c: Builder().store_dict(c).end_cell().begin_parse().load_dict(width, None, deser)),
               ('from_cell', lambda c: {k: deser(v) for k, v in HashMap.from_cell(c, width).map.items()})]
    want = {k: k % 251 for k in keys}
    for ename, parse in entries:
        rec.case('failure-history')
        rec.state(('failhist', ename))
        rec.nontriv(('failhist', ename))
        refused = 0
        for _ in range(12):
            rec.trans()
            try:
                parse(lbad)
            except Exception:
                refused += 1
        if refused != 12:
            raise AssertionError(f'the malformed dictionary was not refused by {ename} ({refused} of 12): the case is vacuous')
        try:
            got = parse(lgood)
        except Exception as e:
            rec.violation('failure-history:raises', f'{ename}: a valid dictionary (width {width}, {len(keys)} keys, about 150 levels) parsed after {refused} refused malformed ones: '
                          f'{exc_name(e)}: {str(e)[:120]}', 'shard_failure_histories', {})
            continue
        rec.trace()
        if got != want:
            rec.violation('failure-history:leaves', f'{ename}: a valid dictionary parsed after {refused} refused malformed ones gives other leaves', 'shard_failure_histories', {})
            continue
        rec.outcome('ok')
    rec.covered('failure-history')


def shards(tier, seed):
    full = tier == 'thorough'
    out = [{'fn': 'shard_failure_histories', 'args': {}}]
    step = 16 if full else 64
    for lo in range(0, 1024, step):
        out.append({'fn': 'shard_labels', 'args': {'lo': lo, 'hi': min(1023, lo + step - 1), 'full': full}, 'prio': lo // step if full else 1})
    for w in (1, 2, 3):
        out.append({'fn': 'shard_trees', 'args': {'width': w, 'part': 0, 'parts': 1, 'full': full}})
    for p in range(13):
        out.append({'fn': 'shard_trees', 'args': {'width': 4, 'part': p, 'parts': 13, 'full': full}, 'prio': 2})
    for w in (8, 16, 32, 64, 256, 267, 1023):
        out.append({'fn': 'shard_trees', 'args': {'width': w, 'part': 0, 'parts': 1, 'full': full}})
    for w in (1, 2):
        out.append({'fn': 'shard_valid', 'args': {'width': w, 'part': 0, 'parts': 1, 'max_keys': 99}})
    for p in range(16):
        out.append({'fn': 'shard_valid', 'args': {'width': 3, 'part': p, 'parts': 16, 'max_keys': 99, 'full_limit': 7 if full else 5}, 'prio': 4})
    if full:
        for p in range(32):
            out.append({'fn': 'shard_valid', 'args': {'width': 4, 'part': p, 'parts': 32, 'max_keys': 5}, 'prio': 3})
    out.append({'fn': 'shard_hashmap_aug_e_empty', 'args': {}})
    return out
