"""C12 - block signature sets are accepted only with a genuine validator supermajority (explorer E)."""
import hashlib, itertools
from .common import filler, exc_name

ID = 'C12'
TITLE = 'Block signature sets are accepted only with a genuine validator supermajority'
EXPLORER = 'E (all validator weight vectors x all signature sequences over a per-validator fault alphabet)'
RULE = ('validator sets of size 0..N with every weight vector over {1,2,3} (plus vectors containing 2^63 and 2^64-1, and (m+1,m,m-1), (m,m,m), (2m,m), (2m+-1,m) for m around 2^53..2^63 so that subsets sign exactly 2m-1, 2m and 2m+1 of 3m); signature lists = ALL sequences '
        'up to length 3 over the alphabet {valid(i), valid(i) with the id in upper-case hex, valid-over-another-block(i), bit-flipped(i), truncated(i), signed-by-i-under-id-of-j, valid '
        'signature by a non-member} and ALL sequences up to length N+1 of valid signatures (so every multiset and order incl. duplicates); two block '
        'ids. Oracle: accept <=> non-empty set, every entry a valid Ed25519 signature over magic+root_hash+file_hash by a member, no member twice, '
        '3*signed weight > 2*total weight. Real Ed25519 keys (PyNaCl). non-trivial = at least one signature; states = distinct (weights, sequence); '
        'transitions = check_block_signatures calls; traces = verdicts compared with the reference predicate')
RULE += ' Fifth session: argument forms - validator list and signature list as one-shot iterators / generators, tuple and dictionary view.'
LEVEL_TEXT = ('Bounded-exhaustive: every small validator set and every signature sequence over the fault alphabet (all multisets and orders, '
              'duplicates, foreign and invalid entries) is submitted to the real check with real Ed25519 signatures and the verdict compared with '
              'the one-line reference predicate, in both directions (soundness and completeness).')
LEVEL_NOTE = 'trusted: PyNaCl Ed25519 primitives (the library wraps the same); the reference acceptance predicate (strictly more than 2/3, distinct members)'
TECHNIQUE = 'small-scope exhaustive enumeration of validator sets and signature sequences against a reference acceptance predicate'
ASSUMPTIONS = ['keys derived from VERIF_SEED; Ed25519 itself is trusted']
NOT_ASSERTED = []
RULE += ' Sixth session: validator_addr descriptors with distinct ADNL addresses - all sequences of <= 3 signature entries over {member named by key hash, member named by its ADNL address} (an ADNL address names no signer).'


def BOUNDS(tier):
    return {'max_validators': 3 if tier == 'quick' else 4, 'full_alphabet_sequence_length': 3, 'valid_only_sequence_length': 'N+1', 'weights': [1, 2, 3, 2 ** 63, 2 ** 64 - 1],
            'exhaustive': True}


def REQUIRED_COVER(tier):
    return {'argforms', 'accept', 'reject:duplicate', 'reject:weight', 'reject:exact-two-thirds', 'reject:empty-set', 'reject:invalid', 'reject:foreign', 'n:3', 'parsed-descriptors', 'two-calls', 'reused-descriptors', 'block:shardchain', 'adnl-named'}


MAGIC = bytes.fromhex('706e0bc5')
BIG_M = [2 ** 53 + 1, 2 ** 58 + 1, 2 ** 58 + 63, 2 ** 60 + 5, 2 ** 62 + 21, 2 ** 63 - 3]


class World:
    def __init__(self, seed, nmax=5):
        from nacl.signing import SigningKey
        self.keys = [SigningKey(filler(seed, f'c12-key-{i}', 32)) for i in range(nmax + 1)]   # last one = foreign
        self.pubs = [bytes(k.verify_key) for k in self.keys]
        self.ids = [hashlib.sha256(bytes.fromhex('c6b41348') + p).digest().hex() for p in self.pubs]
        self.blocks = [(filler(seed, 'c12-root-0', 32), filler(seed, 'c12-file-0', 32)), (filler(seed, 'c12-root-1', 32), filler(seed, 'c12-file-1', 32))]
        self.sig = {}
        for i, k in enumerate(self.keys):
            for b, (rh, fh) in enumerate(self.blocks):
                self.sig[(i, b)] = k.sign(MAGIC + rh + fh).signature

    def entry(self, sym, n, blk):
        """symbol -> (lib dict, signer index or None, is valid for blk)"""
        kind, i = sym
        foreign = len(self.keys) - 1
        if kind == 'valid':
            return {'node_id_short': self.ids[i], 'signature': self.sig[(i, blk)]}, i, True
        if kind == 'validU':     # the same validator, its id spelled in upper-case hex
            return {'node_id_short': self.ids[i].upper(), 'signature': self.sig[(i, blk)]}, i, True
        if kind == 'other':
            return {'node_id_short': self.ids[i], 'signature': self.sig[(i, 1 - blk)]}, i, False
        if kind == 'flip':
            s = bytearray(self.sig[(i, blk)])
            s[5] ^= 0x10
            return {'node_id_short': self.ids[i], 'signature': bytes(s)}, i, False
        if kind == 'trunc':
            return {'node_id_short': self.ids[i], 'signature': self.sig[(i, blk)][:63]}, i, False
        if kind == 'swap':
            j = (i + 1) % n if n > 1 else foreign
            return {'node_id_short': self.ids[j], 'signature': self.sig[(i, blk)]}, j, False
        if kind == 'long':
            # an over-long signature field S || P, where S is validator i's genuine signature over P || to_sign: a verifier
            # that feeds `signature + message` to a combined-mode primitive without checking len(signature) == 64 accepts it
            rh, fh = self.blocks[blk]
            pad = filler(0, f'c12-pad-{i}', 32)
            sgn = self.keys[i].sign(pad + MAGIC + rh + fh).signature
            return {'node_id_short': self.ids[i], 'signature': sgn + pad}, i, False
        if kind == 'foreign':
            return {'node_id_short': self.ids[foreign], 'signature': self.sig[(foreign, blk)]}, None, False
        raise ValueError(sym)


_W = {}


def world(seed):
    if seed not in _W:
        _W[seed] = World(seed)
    return _W[seed]


def case_sigs(rec, weights, seq, blk, parsed=False, wc=-1):
    from pytoniq_core.proof.check_proof import check_block_signatures
    from pytoniq_core.tlb.config import ValidatorDescr, SigPubKey
    from pytoniq_core.tl.block import BlockIdExt
    w = world(rec.seed)
    n = len(weights)
    seq = [tuple(s) for s in seq]
    args = {'weights': [str(x) for x in weights], 'seq': [list(s) for s in seq], 'blk': blk, 'parsed': parsed, 'wc': wc}
    weights = [int(x) for x in weights]
    rec.case('sigset')
    nodes = [ValidatorDescr('validator', SigPubKey(w.pubs[i]), weights[i]) for i in range(n)]
    if parsed:
        # the validator set as it comes from the chain: descriptors PARSED from their block.tlb encoding
        # (validator#53 public_key:SigPubKey weight:uint64 / validator_addr#73 ... adnl_addr:bits256; ed25519_pubkey#8e81278a)
        from pytoniq_core.boc import Builder
        nodes = []
        for i in range(n):
            b = Builder().store_uint(0x73 if i % 2 else 0x53, 8).store_uint(0x8e81278a, 32).store_bytes(w.pubs[i]).store_uint(weights[i], 64)
            if i % 2:
                b.store_bytes(bytes(32))
            nodes.append(ValidatorDescr.deserialize(b.end_cell().begin_parse()))
        rec.covered('parsed-descriptors')
    rh, fh = w.blocks[blk]
    bid = BlockIdExt(wc, -(1 << 63), 100 + blk, rh, fh)      # the rule is the same for masterchain and shard blocks: weights as supplied
    if wc != -1:
        rec.covered('block:shardchain')
    entries, signers, valid = [], [], True
    for s in seq:
        e, signer, ok = w.entry(s, n, blk)
        entries.append(e)
        signers.append(signer)
        if not ok or signer is None or signer >= n:
            valid = False
    total = sum(weights)
    signed = sum(weights[s] for s in signers if s is not None and s < n) if valid else 0
    distinct = len(set(signers)) == len(signers)
    want = bool(n > 0 and valid and distinct and 3 * signed > 2 * total)
    rec.trans()
    try:
        check_block_signatures(nodes, entries, bid)
        got = True
    except Exception as e:
        got = False
    rec.trace()
    rec.state((tuple(weights), tuple(seq), blk, parsed, wc))
    if seq:
        rec.nontriv((tuple(weights), tuple(seq), blk))
    if n == 3:
        rec.covered('n:3')
    if want:
        rec.covered('accept')
    else:
        why = ('empty-set' if n == 0 else 'invalid' if not valid and all(s is not None for s in signers) else 'foreign' if not valid else
               'duplicate' if not distinct else 'exact-two-thirds' if 3 * signed == 2 * total else 'weight')
        rec.covered(f'reject:{why}')
    if got != want:
        if got:
            why = ('empty-set' if n == 0 else 'invalid-signature' if not valid else 'duplicate-signer' if not distinct else
                   'exactly-two-thirds' if 3 * signed == 2 * total else 'insufficient-weight')
            rec.violation(f'accepted:{why}', f'weights {weights}, signatures {seq}: accepted although {why} (signed {signed} of {total})', 'case_sigs', args)
            rec.outcome(f'WRONGLY-ACCEPTED:{why}')
        else:
            rec.violation('rejected-valid', f'weights {weights}, signatures {seq}: genuine supermajority ({signed} of {total}) rejected', 'case_sigs', args)
            rec.outcome('WRONGLY-REJECTED')
    else:
        rec.outcome('accept' if got else 'reject')
    # argument forms: the validator list and the signature list are only iterated - a tuple, a one-shot iterator (generator, map
    # object) or a dictionary view denote the same sets and must get the same verdict
    if blk == 0 and seq:
        for form, mk_nodes, mk_entries in (('iterators', lambda: iter(list(nodes)), lambda: (e for e in list(entries))),
                                           ('tuple+view', lambda: tuple(nodes), lambda: dict(enumerate(entries)).values())):
            if form == 'tuple+view' and not want and len(seq) > 2:
                continue
            rec.trans()
            try:
                check_block_signatures(mk_nodes(), mk_entries(), bid)
                got2 = True
            except Exception:
                got2 = False
            rec.covered('argforms')
            if got2 != want:
                rec.violation(f'argform:{form}', f'weights {weights}, signatures {seq} handed over as {form}: {"accepted" if got2 else "rejected"}, must be '
                              f'{"accepted" if want else "rejected"} (lists get the right verdict)', 'case_sigs', args)


def weight_vectors(n, tier):
    base = list(itertools.product((1, 2, 3), repeat=n))
    big = []
    if n >= 1:
        big += [tuple([2 ** 63] * n), tuple([2 ** 64 - 1] + [1] * (n - 1)), tuple([1] * (n - 1) + [2 ** 63])]
    if n == 3:
        big += [(2 ** 63, 2 ** 63, 2 ** 63 + 1), (1, 1, 4), (2, 2, 2), (5, 1, 3)]
    # the 2/3 boundary at magnitudes where floating point loses integers: subsets sign 2m-1, 2m, 2m+1 of 3m
    for m in BIG_M:
        if n == 3:
            big += [(m + 1, m, m - 1), (m, m, m)]
        if n == 2:
            big += [(2 * m, m), (2 * m + 1, m), (2 * m - 1, m)]
    return base + big


def sequences(n):
    syms_full = [(k, i) for i in range(n) for k in ('valid', 'validU', 'other', 'flip', 'trunc', 'swap', 'long')] + [('foreign', 0)]
    seen = set()
    for L in range(0, 4):
        for seq in itertools.product(syms_full, repeat=L):
            if L == 3 and sum(1 for s in seq if s[0] not in ('valid', 'validU')) > 1 and n >= 3:
                continue           # n=3, length 3: at most one faulty entry (deviation bound 1 around valid sequences)
            seen.add(seq)
            yield seq
    valid = [('valid', i) for i in range(n)]
    for L in range(4, n + 2):
        for seq in itertools.product(valid, repeat=L):
            if seq not in seen:
                yield seq


def shard_n(rec, n, part, parts):
    i = 0
    for wv in weight_vectors(n, rec.tier):
        for seq in sequences(n):
            i += 1
            if i % parts != part:
                continue
            case_sigs(rec, wv, seq, i % 2)
            if len(set(wv)) > 1:
                case_sigs(rec, wv, seq, i % 2, wc=0)        # a shard-chain block id, where head count and weight disagree
            if max(wv, default=0) >= 2 ** 53 or i % 16 == 0:
                case_sigs(rec, wv, seq, i % 2, parsed=True)
    rec.sample({'weights': [1, 1, 1][:n], 'signatures': [['valid', 0], ['valid', 0], ['valid', 0]], 'expect': 'reject (one validator counted three times)'})


def case_adnl(rec, weights, seq, form):
    """sixth session (wave 9): validator_addr#73 descriptors carry an ADNL address next to the key.  A signature entry is matched to a validator
    by the hash of its PUBLIC KEY only: an entry that names a member's ADNL address (with that member's genuine signature) names no signer.
    form: how node_id_short is given (hex text / bytes)."""
    from pytoniq_core.proof.check_proof import check_block_signatures
    from pytoniq_core.tlb.config import ValidatorDescr
    from pytoniq_core.tl.block import BlockIdExt
    from pytoniq_core.boc import Builder
    w = world(rec.seed)
    n = len(weights)
    rec.case('adnl-named')
    args = {'weights': list(weights), 'seq': [list(x) for x in seq], 'form': form}
    adnl = [filler(rec.seed, f'c12-adnl-{i}', 32) for i in range(n)]
    nodes = []
    for i in range(n):
        b = Builder().store_uint(0x73, 8).store_uint(0x8e81278a, 32).store_bytes(w.pubs[i]).store_uint(weights[i], 64).store_bytes(adnl[i])
        nodes.append(ValidatorDescr.deserialize(b.end_cell().begin_parse()))
    rh, fh = w.blocks[0]
    bid = BlockIdExt(-1, -(1 << 63), 100, rh, fh)
    entries, signers, named_adnl = [], [], False
    for kind, i in seq:
        if kind == 'valid':
            e = dict(w.entry(('valid', i), n, 0)[0])
        else:
            e = {'node_id_short': adnl[i].hex(), 'signature': w.sig[(i, 0)]}
            named_adnl = True
        if form == 'bytes':
            e['node_id_short'] = bytes.fromhex(e['node_id_short'])
        entries.append(e)
        signers.append(i)
    total = sum(weights)
    want = (not named_adnl) and len(set(signers)) == len(signers) and 3 * sum(weights[i] for i in signers) > 2 * total
    rec.trans()
    try:
        check_block_signatures(nodes, entries, bid)
        got = True
    except Exception:
        got = False
    rec.trace()
    rec.state(('adnl', tuple(weights), tuple(seq), form))
    rec.nontriv(('adnl', tuple(weights), tuple(seq), form))
    rec.covered('adnl-named')
    if got != want and not (form == 'bytes' and not named_adnl):
        rec.violation('adnl-named:' + ('accepted' if got else 'rejected'), f'validator_addr descriptors, weights {list(weights)}, entries {seq} (adnl = the entry names the member\'s ADNL '
                      f'address, node_id_short given as {form}): {"accepted" if got else "rejected"}, must be {"accepted" if want else "rejected"}', 'case_adnl', args)
        rec.outcome('ADNL')
    else:
        rec.outcome('adnl-ok')


def shard_adnl(rec):
    for n in (1, 2, 3):
        syms = [(k, i) for i in range(n) for k in ('valid', 'adnl')]
        for wv in ([(1,) * n, (2,) * n] + ([(2, 2, 1), (1, 1, 4)] if n == 3 else []) + ([(3, 1)] if n == 2 else [])):
            for L in (1, 2, 3):
                for seq in itertools.product(syms, repeat=L):
                    for form in ('hex', 'bytes'):
                        case_adnl(rec, wv, seq, form)
    rec.sample({'adnl_named': [['valid', 0], ['adnl', 0]], 'weights': [2, 2, 1], 'expect': 'reject'})


def case_two_calls(rec, a, b):
    """check_block_signatures is a function of its arguments: two calls in a row with DIFFERENT validator sets (arbitrary
    subsets of three keys, not prefixes) - a signer known from the first call is unknown in the second unless it is a member
    there.  a, b = (member mask, signer mask, block)"""
    from pytoniq_core.proof.check_proof import check_block_signatures
    from pytoniq_core.tlb.config import ValidatorDescr, SigPubKey
    from pytoniq_core.tl.block import BlockIdExt
    w = world(rec.seed)
    args = {'a': list(a), 'b': list(b)}
    rec.case('two-calls')
    rec.state(('two', tuple(a), tuple(b)))
    rec.nontriv(('two', tuple(a), tuple(b)))
    verdicts = []
    for (members, signers, blk) in (a, b):
        mem = [i for i in range(3) if members >> i & 1]
        sig = [i for i in range(3) if signers >> i & 1]
        nodes = [ValidatorDescr('validator', SigPubKey(w.pubs[i]), 1) for i in mem]
        rh, fh = w.blocks[blk]
        entries = [w.entry(('valid', i), 3, blk)[0] for i in sig]
        want = bool(mem) and all(i in mem for i in sig) and 3 * len(sig) > 2 * len(mem)
        rec.trans()
        try:
            check_block_signatures(nodes, entries, BlockIdExt(-1, -(1 << 63), 100 + blk, rh, fh))
            got = True
        except Exception:
            got = False
        rec.trace()
        verdicts.append((got, want, mem, sig))
    rec.covered('two-calls')
    for k, (got, want, mem, sig) in enumerate(verdicts):
        if got != want:
            other = verdicts[1 - k]
            rec.violation('two-calls:' + ('accepted' if got else 'rejected'),
                          f'call #{k + 1} of two: validators {mem}, valid signatures by {sig}: {"accepted" if got else "rejected"}, must be {"accepted" if want else "rejected"} '
                          f'(the other call: validators {other[2]}, signatures by {other[3]}): the verdict depends on another call', 'case_two_calls', args)
            rec.outcome('HISTORY-DEPENDENT')
            return
    rec.outcome('two-ok')


def case_reused(rec, s1, m, change, s2):
    """the caller keeps ONE list of descriptor objects: a check with it, then the caller replaces a key / a weight in place (a new
    validator set), then another check: the second verdict follows the descriptors' CURRENT keys and weights.
    s1: signer mask of call 1 over keys 0..2; m: index of the changed descriptor; change: ('key', 3) or ('weight', w); s2: signer mask of
    call 2 over keys 0..3"""
    from pytoniq_core.proof.check_proof import check_block_signatures
    from pytoniq_core.tlb.config import ValidatorDescr, SigPubKey
    from pytoniq_core.tl.block import BlockIdExt
    w = world(rec.seed)
    args = {'s1': s1, 'm': m, 'change': list(change), 's2': s2}
    rec.case('reused-descriptors')
    rec.state(('reused', s1, m, tuple(change), s2))
    rec.nontriv(('reused', s1, m, tuple(change), s2))
    rh, fh = w.blocks[0]
    bid = BlockIdExt(-1, -(1 << 63), 100, rh, fh)
    nodes = [ValidatorDescr('validator', SigPubKey(w.pubs[i]), 1) for i in range(3)]
    keys, weights = [0, 1, 2], [1, 1, 1]

    def verdict(mask, nkeys):
        sig = [i for i in range(nkeys) if mask >> i & 1]
        entries = [w.entry(('valid', i), 4, 0)[0] for i in sig]
        want = all(i in keys for i in sig) and 3 * sum(weights[keys.index(i)] for i in sig) > 2 * sum(weights)
        rec.trans()
        try:
            check_block_signatures(nodes, entries, bid)
            return True, want, sig
        except Exception:
            return False, want, sig
    g1, w1, sig1 = verdict(s1, 3)
    if change[0] == 'key':
        nodes[m].public_key = SigPubKey(w.pubs[change[1]])
        keys[m] = change[1]
    else:
        nodes[m].weight = change[1]
        weights[m] = change[1]
    g2, w2, sig2 = verdict(s2, 4)
    rec.trace(2)
    rec.covered('reused-descriptors')
    if g1 != w1:
        rec.violation('reused:first-call', f'validators [0,1,2], signatures by {sig1}: {"accepted" if g1 else "rejected"}', 'case_reused', args)
    elif g2 != w2:
        rec.violation('reused:after-change:' + ('accepted' if g2 else 'rejected'),
                      f'after a check with keys [0,1,2] (signatures by {sig1}) descriptor #{m} got {change[0]} {change[1]}; signatures by {sig2} over keys {keys}, weights {weights}: '
                      f'{"accepted" if g2 else "rejected"}, must be {"accepted" if w2 else "rejected"} (a value remembered from before the change?)', 'case_reused', args)
        rec.outcome('STALE')
    else:
        rec.outcome('reused-ok')


def shard_reused(rec):
    for s1 in range(8):
        for m in range(3):
            for change in (('key', 3), ('weight', 5), ('weight', 0)):
                for s2 in range(16):
                    case_reused(rec, s1, m, change, s2)
    rec.sample({'reused_descriptors': {'s1': 7, 'm': 0, 'change': ['key', 3], 's2': 0b0111}})


def shard_two_calls(rec, part, parts):
    cfgs = [(m, sg, blk) for m in range(8) for sg in range(8) for blk in (0, 1) if blk == 0 or (m, sg) in ((7, 7), (3, 3), (1, 1))]
    k = 0
    for a in cfgs:
        for b in cfgs:
            k += 1
            if k % parts == part:
                case_two_calls(rec, a, b)
    if part == 0:
        rec.sample({'two_calls': [[7, 7, 0], [4, 3, 0]], 'meaning': '(member mask, signer mask, block): set {0,1,2} signed by all, then set {2} "signed" by 0 and 1'})


def shards(tier, seed):
    out = [{'fn': 'shard_n', 'args': {'n': 0, 'part': 0, 'parts': 1}}, {'fn': 'shard_n', 'args': {'n': 1, 'part': 0, 'parts': 1}},
           {'fn': 'shard_n', 'args': {'n': 2, 'part': 0, 'parts': 2}}, {'fn': 'shard_n', 'args': {'n': 2, 'part': 1, 'parts': 2}}]
    for p in range(16):
        out.append({'fn': 'shard_n', 'args': {'n': 3, 'part': p, 'parts': 16}, 'prio': 2})
    for p in range(4):
        out.append({'fn': 'shard_two_calls', 'args': {'part': p, 'parts': 4}})
    out.append({'fn': 'shard_reused', 'args': {}})
    out.append({'fn': 'shard_adnl', 'args': {}})
    if tier == 'thorough':
        for p in range(48):
            out.append({'fn': 'shard_n', 'args': {'n': 4, 'part': p, 'parts': 48}, 'prio': 3})
    return out
