"""known_findings.jsonl: genuine defects of the code under test that were recorded rather than
repaired (status "known": a violation whose key matches is reported as KNOWN-FINDING and does not
fail the run) or repaired by a "fix:" commit (status "fixed": documentation only, suppresses
nothing).  The file is never written at run time."""
import json, os

PATH = os.path.join(os.path.dirname(os.path.dirname(os.path.abspath(__file__))), 'known_findings.jsonl')


def load():
    out = []
    if os.path.exists(PATH):
        for line in open(PATH):
            line = line.strip()
            if line and not line.startswith('#'):
                out.append(json.loads(line))
    return out


def known_keys(prop):
    return {e['key']: e for e in load() if e.get('property') == prop and e.get('status') == 'known'}
